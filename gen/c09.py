"""C09 — wire encoding lossless and canonical.

Obligations checked on every run:
  * Coq: Properties/C09.v (wire round trips, canonical_normalises, typed round trips, ...) and
    Properties/C09Gen.v (generated_schema_ok on the schema regenerated from the .proto files);
  * translator tie: gen/proto2coq.py view of the .proto files == prost_reflect descriptors linked
    into the binaries (field numbers, kinds, list/map/presence);
  * correspondence `vh codec` (zksync_protobuf::canonical_raw with real descriptors, decode/encode of
    the Rust types) vs the Gallina model evaluated by vm_compute;
  * predicates on the implementation alone (never through the model): every alternative
    serialisation normalises to the canonical bytes; decode(encode v) = v; decoding any alternative
    serialisation re-encodes to the same bytes; equal values built in different orders encode equal.
"""
import json
import os
import common
import proto2coq
from common import Rng, coq_list

PROP_FILES = ["theories/Properties/C09.v", "theories/Properties/C09Typed.v", "theories/Properties/C09Gen.v"]
WORK = os.path.join(common.BUILD, "C09")
SCHEMA_JSON = os.path.join(WORK, "schema.json")
U64 = 1 << 64

VARINT_KINDS = {"KInt32", "KInt64", "KUint32", "KUint64", "KSint32", "KSint64", "KBool", "KEnum"}
I64_KINDS = {"KFixed64", "KSfixed64", "KDouble"}
I32_KINDS = {"KFixed32", "KSfixed32", "KFloat"}
LEN_KINDS = {"KString", "KBytes", "KMessage"}


def wire_of_kind(k):
    return 0 if k in VARINT_KINDS else 1 if k in I64_KINDS else 5 if k in I32_KINDS else 2


# ---------------------------------------------------------------------------
# independent python encoder of the canonical form + alternative serialisations

def varint(x):
    assert 0 <= x < U64
    out = bytearray()
    while x > 0x7F:
        out.append((x & 0x7F) | 0x80)
        x >>= 7
    out.append(x)
    return bytes(out)


def varint_padded(x, total):
    """Non-minimal spelling: the minimal groups followed by zero groups, `total` bytes (<= 10)."""
    m = varint(x)
    total = min(total, 10)
    if total <= len(m):
        return m
    b = bytearray(m)
    b[-1] |= 0x80
    while len(b) < total - 1:
        b.append(0x80)
    b.append(0x00)
    return bytes(b)


class Schema:
    def __init__(self, msgs):
        self.msgs = {m["name"]: m for m in msgs}
        self.index = {m["name"]: i for i, m in enumerate(msgs)}
        self.fields = {m["name"]: {f["number"]: f for f in m["fields"]} for m in msgs}


def raw_value(sc, fd, v):
    """canonical raw bytes of one field value. v = ('var', n) | ('fix', bytes) | ('len', bytes) | ('msg', entries)"""
    if v[0] == "var":
        return varint(v[1])
    if v[0] in ("fix", "len"):
        return v[1]
    return canon(sc, fd["msg"], v[1])


def canon(sc, mname, entries):
    fields = sc.fields[mname]
    groups = {}
    for (n, v) in entries:
        groups.setdefault(n, []).append(v)
    out = bytearray()
    for n in sorted(groups):
        fd = fields[n]
        w = wire_of_kind(fd["kind"])
        raws = [raw_value(sc, fd, v) for v in groups[n]]
        if w == 2:
            for r in raws:
                out += varint(n << 3 | 2) + varint(len(r)) + r
        elif len(raws) > 1:
            body = b"".join(raws)
            out += varint(n << 3 | 2) + varint(len(body)) + body
        else:
            out += varint(n << 3 | w) + raws[0]
    return bytes(out)


def alt(sc, mname, entries, rng, p_pad=12, level=0):
    """A random valid serialisation of the same value: fields interleaved in any order that keeps the
    relative order of each field's entries, repeated scalars split into packed chunks and single
    values, zero-padded varints in tags / lengths / values, sub-messages serialised the same way."""
    fields = sc.fields[mname]

    def vi(x):
        if rng.below(100) < p_pad:
            return varint_padded(x, rng.range(len(varint(x)) + 1, 10))
        return varint(x)

    order = rng.shuffle(list(range(len(entries))))
    nums = [entries[i][0] for i in order]
    per = {}
    for (n, v) in entries:
        per.setdefault(n, []).append(v)
    pos = {n: 0 for n in per}
    seq = []
    for n in nums:
        seq.append((n, per[n][pos[n]]))
        pos[n] += 1
    out = bytearray()
    i = 0
    while i < len(seq):
        n, v = seq[i]
        fd = fields[n]
        w = wire_of_kind(fd["kind"])
        if w != 2 and fd["label"] == "repeated" and rng.chance(1, 2):
            # packed chunk of this and some of the directly following entries of the same field
            j = i + 1
            while j < len(seq) and seq[j][0] == n and rng.chance(2, 3):
                j += 1
            body = b"".join(vi(x[1]) if x[0] == "var" else x[1] for (_, x) in seq[i:j])
            out += vi(n << 3 | 2) + vi(len(body)) + body
            i = j
            continue
        if v[0] == "var":
            out += vi(n << 3 | w) + vi(v[1])
        elif v[0] == "fix":
            out += vi(n << 3 | w) + v[1]
        elif v[0] == "len":
            out += vi(n << 3 | 2) + vi(len(v[1])) + v[1]
        else:
            sub = alt(sc, fd["msg"], v[1], rng, p_pad, level + 1) if rng.chance(3, 4) else canon(sc, fd["msg"], v[1])
            out += vi(n << 3 | 2) + vi(len(sub)) + sub
        i += 1
    return bytes(out)


# ---------------------------------------------------------------------------
# value generation (schema directed, with per-field domain hints so that the typed decoders accept)

def i64_as_u64(x):
    return x & (U64 - 1)


def special_ip(r):
    """IPv4 / IPv6 addresses incl. the boundary classes: unspecified, loopback, broadcast, IPv4-mapped and
    IPv4-compatible IPv6, link-local (scoped), multicast"""
    k = r.below(12)
    v4 = bytes(r.below(256) for _ in range(4))
    if k == 0:
        return bytes(4)
    if k == 1:
        return bytes([255] * 4)
    if k == 2:
        return bytes([127, 0, 0, 1])
    if k == 3:
        return bytes(16)
    if k == 4:
        return bytes(15) + b"\x01"
    if k in (5, 6):
        return bytes(10) + b"\xff\xff" + v4              # ::ffff:a.b.c.d
    if k == 7:
        return bytes(12) + v4                             # ::a.b.c.d
    if k == 8:
        return b"\xfe\x80" + bytes(6) + bytes(r.below(256) for _ in range(8))
    if k == 9:
        return b"\xff\x02" + bytes(13) + b"\x01"
    return bytes(r.below(256) for _ in range(r.choice([4, 16])))


class Gen:
    def __init__(self, sc, rng, pool):
        self.sc, self.rng, self.pool = sc, rng, pool
        self.normalising = False

    def u64(self):
        r = self.rng
        k = r.below(8)
        if k < 3:
            return r.below(5)
        if k < 5:
            return r.below(1 << r.range(1, 32))
        if k == 5:
            return (1 << r.range(7, 63)) - r.below(2)
        if k == 6:
            return U64 - 1 - r.below(3)
        return r.next()

    def blob(self, lo=0, hi=40):
        r = self.rng
        n = r.choice([0, 0, 1, r.range(lo, hi), r.range(lo, hi), 127, 128, 300]) if lo == 0 else r.range(lo, hi)
        return bytes(r.below(256) for _ in range(n))

    def scalar(self, kind):
        r = self.rng
        if kind in ("KUint64", "KInt64", "KSint64"):
            return ("var", self.u64())
        if kind in ("KUint32", "KSint32"):
            return ("var", r.choice([0, 1, 127, 128, 65535, 65536, (1 << 32) - 1, r.below(1 << 32)]))
        if kind == "KInt32":
            x = r.choice([0, 1, -1, 2147483647, -2147483648, r.range(-1000, 1000)])
            return ("var", i64_as_u64(x))
        if kind == "KBool":
            return ("var", r.below(2))
        if kind == "KEnum":
            return ("var", r.choice([0, 1, 2, 7]))
        if kind in I64_KINDS:
            return ("fix", bytes(r.below(256) for _ in range(8)))
        if kind in I32_KINDS:
            return ("fix", bytes(r.below(256) for _ in range(4)))
        if kind == "KString":
            return ("len", bytes(r.range(32, 126) for _ in range(r.choice([0, 1, 5, 20]))))
        return ("len", self.blob())

    # --- domain hints -----------------------------------------------------
    def hint(self, mname, fd, depth):
        r = self.rng
        key = (mname, fd["name"])
        P = self.pool
        if fd["name"] == "keccak256":
            return ("len", bytes(r.below(256) for _ in range(32)))
        if key == ("zksync.roles.validator.PublicKey", "bn254"):
            return ("len", bytes.fromhex(r.choice(P["vpub"])))
        if key == ("zksync.roles.validator.Signature", "bn254"):
            return ("len", bytes.fromhex(r.choice(P["vsig"])))
        if key == ("zksync.roles.validator.AggregateSignature", "bn254"):
            return ("len", bytes.fromhex(r.choice(P["vagg"])))
        if key == ("zksync.roles.node.PublicKey", "ed25519"):
            return ("len", bytes.fromhex(r.choice(P["npub"])))
        if key == ("zksync.roles.node.Signature", "ed25519"):
            return ("len", bytes.fromhex(r.choice(P["nsig"])))
        if key == ("zksync.std.SocketAddr", "ip"):
            return ("len", special_ip(r))
        if key == ("zksync.std.SocketAddr", "port"):
            return ("var", r.choice([0, 1, 80, 65535, r.below(65536)]))
        if mname in ("zksync.std.Timestamp", "zksync.std.Duration") and fd["name"] == "seconds":
            x = r.choice([0, 1, -1, 59, 1700000000, -1700000000, (1 << 63) - 1, -(1 << 63) + 1, -(1 << 63),
                          r.range(-(1 << 40), 1 << 40)])
            return ("var", i64_as_u64(x))
        if mname in ("zksync.std.Timestamp", "zksync.std.Duration") and fd["name"] == "nanos":
            return ("var", r.choice([0, 1, 999999999, 500000000, r.below(1000000000)]))
        if key == ("zksync.roles.validator.Genesis", "protocol_version"):
            return ("var", 2)
        if key == ("zksync.roles.validator.ValidatorInfo", "weight"):
            return ("var", r.choice([1, 1, 2, 5, 1000, 1 << 40]))
        if mname in ("zksync.network.ping.PingReq", "zksync.network.ping.PingResp"):
            return ("len", bytes(r.below(256) for _ in range(32)))
        if key == ("zksync.network.gossip.Handshake", "build_version"):
            return ("len", r.choice(["0.1.0", "1.2.3", "10.20.30-rc.1", "0.0.0+build5"]).encode())
        if key == ("zksync.std.RateLimit", "burst"):
            return ("var", self.u64())
        return None

    def bitvector(self):
        r = self.rng
        n = r.choice([0, 1, 7, 8, 9, 16, 17, 63, 64, 65, r.range(0, 130), r.range(0, 130)])
        bits = [r.below(2) for _ in range(n)]
        by = bytearray((n + 7) // 8)
        for i, b in enumerate(bits):
            if b:
                by[i // 8] |= 0x80 >> (i % 8)
        return [(1, ("var", n)), (2, ("len", bytes(by)))]

    def schedule(self):
        r = self.rng
        n = r.range(1, min(6, len(self.pool["vpub"])))
        ks = sorted(r.shuffle(self.pool["vpub"])[:n])      # Schedule::new orders by key bytes
        leaders = [r.chance(2, 3) for _ in ks]
        if not any(leaders):
            leaders[r.below(n)] = True
        vals = []
        for k, l in zip(ks, leaders):
            vals.append((1, ("msg", [(1, ("msg", [(1, ("len", bytes.fromhex(k)))])),
                                     (2, ("var", r.choice([1, 1, 2, 5, 1000, 1 << 40]))),
                                     (3, ("var", 1 if l else 0))])))
        mode = ("msg", [(r.choice([1, 3]), ("msg", []))])
        sel = ("msg", [(1, ("var", self.u64())), (2, mode)])
        return vals + [(2, sel)]

    OPTIONAL = {
        ("zksync.roles.validator.ReplicaTimeoutV2", "high_vote"), ("zksync.roles.validator.ReplicaTimeoutV2", "high_qc"),
        ("zksync.roles.validator.LeaderProposalV2", "proposal_payload"),
        ("zksync.roles.validator.Genesis", "validators_schedule"),
        ("zksync.roles.validator.ChonkyV2State", "high_vote"), ("zksync.roles.validator.ChonkyV2State", "high_commit_qc"),
        ("zksync.roles.validator.ChonkyV2State", "high_timeout_qc"),
        ("zksync.network.gossip.Handshake", "build_version"), ("zksync.network.gossip.BlockStoreState", "last"),
        ("zksync.network.gossip.GetBlockResponse", "pre_genesis"), ("zksync.network.gossip.GetBlockResponse", "block_v2"),
    }

    def message(self, mname, depth=0, arms=None, drop=3):
        """entries of a value of message `mname`. arms: {oneof index: forced field name}.
        drop: percent chance to leave out a field that the Rust type requires."""
        r = self.rng
        if mname == "zksync.std.BitVector":
            return self.bitvector()
        if mname == "zksync.roles.validator.ValidatorSchedule":
            return self.schedule()
        m = self.sc.msgs[mname]
        entries = []
        oneofs = {}
        for fd in m["fields"]:
            if fd["label"] == "oneof":
                oneofs.setdefault(fd["oneof"], []).append(fd)
        chosen = {}
        for oi, fds in oneofs.items():
            forced = (arms or {}).get(oi)
            cands = [f for f in fds if f["name"] == forced] if forced else fds
            if depth > 4:
                cands = [f for f in cands if f["kind"] != "KMessage"] or cands
            if r.below(100) >= drop:
                chosen[oi] = r.choice(cands)["name"]
        for fd in m["fields"]:
            lab = fd["label"]
            if lab == "oneof":
                if chosen.get(fd["oneof"]) != fd["name"]:
                    continue
                count = 1
            elif lab == "repeated":
                count = 0 if depth > 3 else r.choice([0, 1, 1, 2, 3, r.range(0, 6)])
            elif (mname, fd["name"]) in self.OPTIONAL:
                count = 1 if (r.chance(1, 2) and depth <= 4) else 0
            else:
                count = 0 if r.below(100) < drop else 1
            if mname == "zksync.network.gossip.GetBlockResponse" and fd["name"] == "block_v2" and entries:
                count = 0
            for _ in range(count):
                v = self.hint(mname, fd, depth)
                if v is None:
                    if fd["kind"] == "KMessage":
                        v = ("msg", self.message(fd["msg"], depth + 1, None, drop))
                    else:
                        v = self.scalar(fd["kind"])
                entries.append((fd["number"], v))
        if mname == "zksync.roles.validator.TimeoutQCV2":
            # msgs (2) and signers (3) are the keys and values of one map: same length
            ms = [e for e in entries if e[0] == 2]
            ss = [e for e in entries if e[0] == 3]
            k = min(len(ms), len(ss))
            entries = [e for e in entries if e[0] not in (2, 3)] + ms[:k] + ss[:k]
            if k >= 2:
                self.normalising = True      # BTreeMap order: decode + encode may reorder the entries
        return entries


# rt type name -> (proto message, forced oneof arms on the path)
TYPES = {
    "std.Void": ("zksync.std.Void", None),
    "std.Timestamp": ("zksync.std.Timestamp", None),
    "std.Duration": ("zksync.std.Duration", None),
    "std.SocketAddr": ("zksync.std.SocketAddr", None),
    "std.BitVector": ("zksync.std.BitVector", None),
    "std.RateLimit": ("zksync.std.RateLimit", None),
    "validator.PublicKey": ("zksync.roles.validator.PublicKey", None),
    "validator.Signature": ("zksync.roles.validator.Signature", None),
    "validator.AggregateSignature": ("zksync.roles.validator.AggregateSignature", None),
    "validator.View": ("zksync.roles.validator.ViewV2", None),
    "validator.BlockHeader": ("zksync.roles.validator.BlockHeaderV2", None),
    "validator.ReplicaCommit": ("zksync.roles.validator.ReplicaCommitV2", None),
    "validator.CommitQC": ("zksync.roles.validator.CommitQCV2", None),
    "validator.ReplicaTimeout": ("zksync.roles.validator.ReplicaTimeoutV2", None),
    "validator.TimeoutQC": ("zksync.roles.validator.TimeoutQCV2", None),
    "validator.ProposalJustification": ("zksync.roles.validator.ProposalJustificationV2", None),
    "validator.LeaderProposal": ("zksync.roles.validator.LeaderProposalV2", None),
    "validator.ReplicaNewView": ("zksync.roles.validator.ReplicaNewViewV2", None),
    "validator.ChonkyMsg": ("zksync.roles.validator.ChonkyMsgV2", None),
    "validator.Signers": ("zksync.std.BitVector", None),
    "validator.Phase": ("zksync.roles.validator.PhaseV2", None),
    "validator.FinalBlock": ("zksync.roles.validator.FinalBlockV2", None),
    "validator.ChonkyV2State": ("zksync.roles.validator.ChonkyV2State", None),
    "validator.ConsensusMsg": ("zksync.roles.validator.ConsensusMsg", None),
    "validator.Msg": ("zksync.roles.validator.Msg", None),
    "validator.MsgHash": ("zksync.roles.validator.MsgHash", None),
    "validator.Signed.consensus": ("zksync.roles.validator.Signed", "consensus"),
    "validator.Signed.net_address": ("zksync.roles.validator.Signed", "net_address"),
    "validator.Signed.session_id": ("zksync.roles.validator.Signed", "session_id"),
    "validator.PreGenesisBlock": ("zksync.roles.validator.PreGenesisBlock", None),
    "validator.Block": ("zksync.roles.validator.Block", None),
    "validator.Proposal": ("zksync.roles.validator.Proposal", None),
    "validator.ReplicaState": ("zksync.roles.validator.ReplicaState", None),
    "validator.GenesisRaw": ("zksync.roles.validator.Genesis", None),
    "validator.Genesis": ("zksync.roles.validator.Genesis", None),
    "validator.GenesisHash": ("zksync.roles.validator.GenesisHash", None),
    "validator.PayloadHash": ("zksync.roles.validator.PayloadHash", None),
    "validator.Schedule": ("zksync.roles.validator.ValidatorSchedule", None),
    "validator.ValidatorInfo": ("zksync.roles.validator.ValidatorInfo", None),
    "validator.LeaderSelection": ("zksync.roles.validator.LeaderSelection", None),
    "validator.LeaderSelectionMode": ("zksync.roles.validator.LeaderSelectionMode", None),
    "validator.NetAddress": ("zksync.roles.validator.NetAddress", None),
    "node.Msg": ("zksync.roles.node.Msg", None),
    "node.PublicKey": ("zksync.roles.node.PublicKey", None),
    "node.Signature": ("zksync.roles.node.Signature", None),
    "node.Signed": ("zksync.roles.node.Signed", None),
    "preface.Encryption": ("zksync.network.preface.Encryption", None),
    "preface.Endpoint": ("zksync.network.preface.Endpoint", None),
    "gossip.Handshake": ("zksync.network.gossip.Handshake", None),
    "consensus.Handshake": ("zksync.network.consensus.Handshake", "session_id"),
    "rpc.consensus.Req": ("zksync.network.consensus.ConsensusReq", "consensus"),
    "rpc.consensus.Resp": ("zksync.network.consensus.ConsensusResp", None),
    "rpc.get_block.Req": ("zksync.network.gossip.GetBlockRequest", None),
    "rpc.get_block.Resp": ("zksync.network.gossip.GetBlockResponse", None),
    "rpc.push_block_store_state.Req": ("zksync.network.gossip.PushBlockStoreState", None),
    "rpc.push_validator_addrs.Req": ("zksync.network.gossip.PushValidatorAddrs", "net_address"),
    "rpc.push_tx.Req": ("zksync.network.gossip.PushTx", None),
    "rpc.ping.Req": ("zksync.network.ping.PingReq", None),
    "rpc.ping.Resp": ("zksync.network.ping.PingResp", None),
}
# mux.Handshake is deliberately absent: its encoder iterates a HashMap (DESIGN.md C09, not signed / stored).


def force_signed_arm(entries, sc, mname, arm, gen):
    """Regenerates the `msg` of every validator.Signed on the path so that its oneof arm is `arm`."""
    if arm is None:
        return entries
    out = []
    for (n, v) in entries:
        fd = sc.fields[mname][n]
        if fd["kind"] == "KMessage" and v[0] == "msg":
            if mname == "zksync.roles.validator.Signed" and fd["name"] == "msg":
                v = ("msg", gen.message("zksync.roles.validator.Msg", 2, {0: arm}, 0))
            else:
                v = ("msg", force_signed_arm(v[1], sc, fd["msg"], arm, gen))
        out.append((n, v))
    return out


# ---------------------------------------------------------------------------
# malformed stream for canonical_raw

def mutate(rng, sc, mname, good):
    b = bytearray(good)
    k = rng.below(14)
    fields = sorted(sc.fields[mname])
    if k == 0 and b:
        return bytes(b[:rng.below(len(b))]), "truncated"
    if k == 1 and b:
        i = rng.below(len(b))
        b[i] ^= 1 << rng.below(8)
        return bytes(b), "bitflip"
    if k == 2:
        unknown = next(n for n in range(1, 40) if n not in fields)
        extra = varint(unknown << 3 | 0) + varint(rng.below(300))
        i = 0 if rng.chance(1, 2) else len(b)
        return bytes(b[:i] + extra + b[i:]), "unknown field"
    if k == 3 and fields:
        n = rng.choice(fields)
        w = rng.choice([3, 4, 6, 7])
        return bytes(b) + varint(n << 3 | w) + b"\x00", "wire type 3/4/6/7"
    if k == 4 and fields:
        n = rng.choice(fields)
        fw = wire_of_kind(sc.fields[mname][n]["kind"])
        w = rng.choice([x for x in (0, 1, 5) if x != fw])
        val = {0: varint(rng.below(1000)), 1: bytes(8), 5: bytes(4)}[w]
        return bytes(b) + varint(n << 3 | w) + val, "mismatched wire type"
    if k == 5 and fields:
        n = rng.choice(fields)
        return bytes(b) + varint(n << 3 | 2) + b"\x00", "empty LEN value"
    if k == 6 and fields:
        # a second value for a field (error for singular fields)
        n = rng.choice(fields)
        fd = sc.fields[mname][n]
        w = wire_of_kind(fd["kind"])
        val = {0: varint(rng.below(1000)), 1: bytes(8), 5: bytes(4), 2: b"\x00"}[w]
        one = varint(n << 3 | w) + val
        return one + bytes(b) + one, "duplicated field"
    if k == 7:
        return bytes(b) + bytes([0x80] * rng.range(9, 11)) + b"\x01", "overlong varint"
    if k == 8 and fields:
        n = rng.choice(fields)
        return bytes(b) + varint(n << 3 | 2) + varint(rng.choice([1, 5, 200, (1 << 32) - 1, 1 << 32, (1 << 32) + 1])), "length overrun"
    if k == 9:
        return bytes(b) + bytes([rng.below(8)]) + b"\x00", "tag with field number 0"
    if k == 10 and fields:
        # packed chunk on a scalar field, possibly singular (canonical_raw accepts it)
        sc_fields = [n for n in fields if wire_of_kind(sc.fields[mname][n]["kind"]) != 2]
        if sc_fields:
            n = rng.choice(sc_fields)
            w = wire_of_kind(sc.fields[mname][n]["kind"])
            cnt = rng.range(0, 3)
            body = b"".join({0: varint(rng.below(1000)), 1: bytes([7] * 8), 5: bytes([9] * 4)}[w] for _ in range(cnt))
            if rng.chance(1, 5):
                body = body[:-1] if body else b""
            return bytes(b) + varint(n << 3 | 2) + varint(len(body)) + body, "packed chunk appended"
    if k == 11 and fields:
        # tag spelled with more than 32 bits (read_varint32 truncates)
        n = rng.choice(fields)
        w = wire_of_kind(sc.fields[mname][n]["kind"])
        t = (n << 3 | w) + (rng.range(1, 1 << 20) << 32)
        val = {0: varint(rng.below(1000)), 1: bytes(8), 5: bytes(4), 2: b"\x00"}[w]
        return bytes(b) + varint(t) + val, "tag above 2^32"
    if k == 12:
        # 10-byte varint value whose last byte carries bits beyond 2^64
        vf = [n for n in fields if wire_of_kind(sc.fields[mname][n]["kind"]) == 0]
        if vf:
            n = rng.choice(vf)
            return bytes(b) + varint(n << 3) + bytes([0xFF] * 9) + bytes([rng.range(2, 0x7F)]), "varint above 2^64"
    n = rng.range(0, 12)
    return bytes(rng.below(256) for _ in range(n)), "random bytes"


# ---------------------------------------------------------------------------

def regenerate():
    text, info = proto2coq.translate()
    p = os.path.join(common.COQ, "theories/Gen/Schema.v")
    if not os.path.exists(p) or open(p).read() != text:
        open(p, "w").write(text)
    os.makedirs(WORK, exist_ok=True)
    json.dump(info, open(SCHEMA_JSON, "w"))
    return info


def descriptor_view(schema):
    out = {}
    for m in schema:
        fs = {}
        for f in m["fields"]:
            fs[f["number"]] = (f["kind"], f["msg"], f["label"] == "repeated", f["label"] == "map",
                               f["label"] in ("optional", "oneof"))
        out[m["name"]] = (m["proto3"], fs)
    return out


def descriptor_view_rust(dump):
    out = {}
    for m in dump:
        fs = {}
        for f in m["fields"]:
            fs[f["number"]] = (f["kind"], f["ref"] if f["kind"] == "KMessage" else None, f["list"], f["map"], f["presence"])
        out[m["name"]] = (m["proto3"], fs)
    return out


def impl_canon_obs(o):
    """Coq obsv literal of a canonical_raw result (bytes as a hex string literal)."""
    if "ok" in o:
        return f'(OL [OZ 0; obs_hex "{o["ok"]}"])'
    if "err" in o:
        return "(OL [OZ 1])"
    msg = o.get("panic", "")
    code = 3 if "index out of bounds" in msg else (4 if "unwrap" in msg else 99)
    return f"(OL [OZ 2; OZ {code}])"


def coq_bytes(b):
    return "[" + ";".join(str(x) for x in b) + "]"


def run_impl(cases):
    outs = common.run_impl("codec", cases, "dev", args=[SCHEMA_JSON])
    for i, o in enumerate(outs):
        if "crash" in o or "skipped" in o:
            raise common.MachineryError(f"codec harness crashed on case {cases[i]}: {o}")
    return outs


def typed_model_cases(*a, **k):   # filled in by the typed layer below
    return []


def run(rep):
    try:
        run_inner(rep)
    except RuntimeError as e:
        raise common.MachineryError(str(e)[-1500:])


def run_inner(rep):
    tier, rng = rep.tier, Rng(rep.seed)
    cov = rep.cov
    broken = []
    pred_fail = []
    # 1. translator
    translator = {"status": "ok"}
    try:
        info = regenerate()
        translator.update({"files": info["files"], "messages": info["messages"], "fields": info["fields"]})
    except (proto2coq.ParseError, OSError, ValueError, KeyError, IndexError) as e:
        translator = {"status": "degraded to correspondence only", "reason": str(e)}
        if not os.path.exists(SCHEMA_JSON):
            raise common.MachineryError("translator failed and no previous schema view exists: " + str(e))
        info = json.load(open(SCHEMA_JSON))
    # 2. proofs
    files = PROP_FILES if translator["status"] == "ok" else PROP_FILES[:2]
    po = common.proof_obligations(files)
    if not po["ok"]:
        broken.append("Coq obligations of " + ",".join(files) + ": " + (po["log_tail"] or str(po["hygiene_problems"] or po["bad_axioms"])))
    # 3. harness
    ok, out = common.cargo_build(["codec"], "dev")
    if not ok:
        raise common.MachineryError("cargo build failed: " + out[-2000:])
    first = run_impl([{"op": "schema"}, {"op": "pool", "n": 8}])
    dump, pool = first[0], first[1]
    POOL.clear()
    POOL.update(pool)
    # 3a. translator view == linked descriptors
    schema_diff = []
    mine, theirs = descriptor_view(info["prod"]), descriptor_view_rust(dump["real"])
    for name in sorted(set(mine) | set(theirs)):
        if mine.get(name) != theirs.get(name):
            schema_diff.append({"message": name, "translator": mine.get(name), "descriptor": theirs.get(name)})
    minet, theirst = descriptor_view(info["test"]), descriptor_view_rust(dump["test"] or [])
    for name in sorted(set(minet) | set(theirst)):
        if minet.get(name) != theirst.get(name):
            schema_diff.append({"message": name, "translator": minet.get(name), "descriptor": theirst.get(name)})
    if schema_diff:
        broken.append(f"translator view of the .proto files differs from the linked prost_reflect descriptors on {len(schema_diff)} messages, e.g. {schema_diff[0]['message']}")
    sc = Schema(info["prod"])
    tsc = Schema(info["test"])
    gen = Gen(sc, rng.fork(), pool)
    tgen = Gen(tsc, rng.fork(), pool)
    nvals = 6 if tier == "quick" else 24           # values per type
    nalt = 3 if tier == "quick" else 6
    # 4. values, canonical bytes, alternative serialisations
    items = []   # dict(pool, msg, ty, entries, canon, alts[], kind)
    for ty, (mname, arm) in sorted(TYPES.items()):
        for k in range(nvals):
            drop = 0 if k % 3 else 12
            gen.normalising = False
            e = gen.message(mname, 0, None, drop)
            e = force_signed_arm(e, sc, mname, arm, gen)
            items.append({"pool": "real", "sc": sc, "msg": mname, "ty": ty, "entries": e, "domain": drop == 0,
                          "normalising": gen.normalising})
    mapped = ("len", bytes(10) + b"\xff\xff" + bytes([10, 1, 2, 3]))          # [::ffff:10.1.2.3]
    for ty, path in (("std.SocketAddr", [1]), ("validator.NetAddress", [1, 1]), ("validator.Msg", [3, 1, 1]),
                     ("validator.Signed.net_address", [1, 3, 1, 1]), ("rpc.push_validator_addrs.Req", [1, 1, 3, 1, 1])):
        mname, arm = TYPES[ty]
        for _ in range(2):
            gen.normalising = False
            if ty == "validator.Msg":
                e = gen.message(mname, 0, {0: "net_address"}, 0)
            else:
                e = force_signed_arm(gen.message(mname, 0, None, 0), sc, mname, arm, gen)
            if ty == "rpc.push_validator_addrs.Req" and not e:
                e = [(1, ("msg", force_signed_arm(gen.message("zksync.roles.validator.Signed", 1, None, 0), sc,
                                                  "zksync.roles.validator.Signed", "net_address", gen)))]
            e = patch(e, path, mapped)
            e = patch(e, path[:-1] + [2], ("var", 3054))
            items.append({"pool": "real", "sc": sc, "msg": mname, "ty": ty, "entries": e, "domain": True, "normalising": False})
    for mname in sorted(tsc.msgs):
        if mname == "verif.c09.Implicit":
            continue
        for k in range(nvals * 3):
            e = tgen.message(mname, 0, None, 30)
            while len(canon(tsc, mname, e)) > 2500:
                e = tgen.message(mname, 1, None, 30)
            items.append({"pool": "test", "sc": tsc, "msg": mname, "ty": None, "entries": e, "domain": True})
    arng = rng.fork()
    canon_cases, rt_cases = [], []
    for it in items:
        it["canon"] = canon(it["sc"], it["msg"], it["entries"])
        it["alts"] = [alt(it["sc"], it["msg"], it["entries"], arng) for _ in range(nalt)]
        it["ci"] = len(canon_cases)
        for b in [it["canon"]] + it["alts"]:
            canon_cases.append({"op": "canon", "pool": it["pool"], "msg": it["msg"], "hex": b.hex(), "kind": "valid"})
        canon_cases.append({"op": "prost", "pool": it["pool"], "msg": it["msg"], "hex": it["alts"][0].hex(), "kind": "prost"})
        if it["ty"]:
            it["ri"] = len(rt_cases)
            for b in [it["canon"]] + it["alts"][:2]:
                rt_cases.append({"op": "rt", "ty": it["ty"], "hex": b.hex()})
    # malformed stream
    mrng = rng.fork()
    nmal = 500 if tier == "quick" else 4000
    mal_cases, mal_kinds = [], {}
    for _ in range(nmal):
        it = mrng.choice(items)
        base = mrng.choice([it["canon"]] + it["alts"])
        b, kind = mutate(mrng, it["sc"], it["msg"], base)
        mal_kinds[kind] = mal_kinds.get(kind, 0) + 1
        mal_cases.append({"op": "canon", "pool": it["pool"], "msg": it["msg"], "hex": b.hex(), "kind": kind})
    for (mname, hx) in [("verif.c09.Implicit", "0801"), ("verif.c09.Implicit", "1001"), ("verif.c09.Implicit", "1a020801"),
                        ("verif.c09.Rep", "0a00"), ("zksync.protobuf.tests.A", "2200"), ("zksync.protobuf.tests.A", "22002001")]:
        mal_cases.append({"op": "canon", "pool": "test", "msg": mname, "hex": hx, "kind": "corpus"})
    mal_cases.append({"op": "canon", "pool": "real", "msg": "zksync.roles.validator.ViewV2", "hex": "1200", "kind": "corpus"})
    corpus = os.path.join(common.CORPUS, "C09.json")
    if os.path.exists(corpus):
        mal_cases = json.load(open(corpus)) + mal_cases
    all_cases = canon_cases + mal_cases
    outs = run_impl(all_cases + rt_cases)
    couts, routs = outs[:len(all_cases)], outs[len(all_cases):]
    # second pass: canonical_raw of prost's own field-order encoding
    prost_idx = [i for i, c in enumerate(canon_cases) if c["op"] == "prost"]
    prost_cases = []
    for i in prost_idx:
        if "ok" in couts[i]:
            prost_cases.append({"op": "canon", "pool": canon_cases[i]["pool"], "msg": canon_cases[i]["msg"], "hex": couts[i]["ok"], "kind": "prost", "src": i})
        else:
            pred_fail.append({"failed": "prost rejects a valid serialisation", "msg": canon_cases[i]["msg"], "hex": canon_cases[i]["hex"], "impl": couts[i]})
    pouts = run_impl(prost_cases) if prost_cases else []
    # 5. predicates on the implementation alone
    for it in items:
        exp = it["canon"].hex()
        base = it["ci"]
        n = 1 + len(it["alts"])
        for j in range(n):
            o = couts[base + j]
            if o.get("ok") != exp:
                pred_fail.append({"failed": "a valid serialisation does not normalise to the canonical byte string",
                                  "msg": it["msg"], "pool": it["pool"], "hex": canon_cases[base + j]["hex"], "expected": exp, "impl": o})
        if it["ty"]:
            ro = routs[it["ri"]]
            if "panic" in ro:
                pred_fail.append({"failed": "decode panicked", "ty": it["ty"], "hex": exp, "impl": ro})
            elif "ok" in ro:
                if ro["ok"] != exp and it["domain"] and not it["normalising"]:
                    pred_fail.append({"failed": "encode(decode(canonical bytes)) differs from the canonical bytes", "ty": it["ty"], "hex": exp, "impl": ro})
                if not ro["same"] or ro["enc2"] != ro["ok"]:
                    pred_fail.append({"failed": "decode(encode(v)) != v", "ty": it["ty"], "hex": exp, "impl": ro})
                for j in (1, 2):
                    ra = routs[it["ri"] + j]
                    if ra.get("ok") != ro["ok"]:
                        pred_fail.append({"failed": "decoding an alternative serialisation gives a different value",
                                          "ty": it["ty"], "hex": rt_cases[it["ri"] + j]["hex"], "canonical": exp, "impl": ra, "impl_canonical": ro})
            elif it["domain"]:
                it["rejected"] = ro.get("err", "")
    for c, o in zip(prost_cases, pouts):
        it_exp = None
        for it in items:
            if it["ci"] <= c["src"] < it["ci"] + 2 + len(it["alts"]):
                it_exp = it["canon"].hex()
                break
        if o.get("ok") != it_exp:
            pred_fail.append({"failed": "prost's encoding of the value does not normalise to the canonical byte string",
                              "msg": c["msg"], "hex": c["hex"], "expected": it_exp, "impl": o})
    # typed constructions (insertion orders etc.)
    bcases, bchecks = build_cases(rng.fork(), tier, pool)
    bouts = run_impl(bcases) if bcases else []
    pred_fail += bchecks(bouts)
    # 6. model
    coq_cases = []
    model_inputs = all_cases + prost_cases
    model_outs = couts + pouts
    k = 0
    case_of = {}
    for c, o in zip(model_inputs, model_outs):
        if c["op"] != "canon":
            continue
        s = sc if c["pool"] == "real" else tsc
        if c["msg"] not in s.index:
            continue
        inp = f"({'false' if c['pool'] == 'real' else 'true'}, {s.index[c['msg']]}%nat, \"{c['hex']}\")"
        coq_cases.append((k, inp, impl_canon_obs(o)))
        case_of[k] = (c, o)
        k += 1
    sample_ids = [0, 1, len(canon_cases) + 3, len(all_cases) - 1]
    mm, samp = common.run_model_cases(
        "C09", "From EC Require Import Model.Wire Model.ProtoSchema Gen.Schema.\nOpen Scope string_scope.",
        "(fun c : bool * nat * string => run_canonical_raw (if fst (fst c) then test_schema else schema) (snd (fst c), unhex (snd c)))",
        coq_cases, shard_size=max(40, len(coq_cases) // 64 + 1), sample_ids=sample_ids, timeout=3000)
    if mm:
        broken.append(f"correspondence vh codec canon vs Model.ProtoSchema.canonical_raw: {len(mm)} disagreeing cases")
    tmm, tsamples, tcount = typed_correspondence(rep, sc, items, routs, rt_cases, bcases, bouts)
    if tmm:
        broken.append(f"correspondence vh codec rt/build vs Model.ProtoTyped: {len(tmm)} disagreeing cases")
    # 7. verdict
    pred_fail.sort(key=lambda d_: len(d_.get("hex") or "") if isinstance(d_.get("hex"), str) else 0)
    if pred_fail:
        rep.violation("wire encoding violates C09 on the implementation: " + pred_fail[0]["failed"],
                      {"failing_input": pred_fail[0], "more": pred_fail[1:4], "broken": broken})
    elif broken:
        firstd = None
        if mm:
            i = sorted(mm)[0]
            firstd = {"case": case_of[i][0], "impl": case_of[i][1], "model_obs": mm[i]}
        elif tmm:
            firstd = tmm[0]
        elif schema_diff:
            firstd = schema_diff[0]
        rep.violation("C09 no longer shown to hold: " + "; ".join(broken)[:600],
                      {"broken": broken, "first_disagreement": firstd}, found_input=False)
    distinct = set()
    n_ok = n_err = n_panic = 0
    for c, o in zip(model_inputs, model_outs):
        if c["op"] != "canon":
            continue
        if "ok" in o:
            n_ok += 1
            if len(o["ok"]) > 0:
                distinct.add((c["msg"], c["hex"]))
        elif "panic" in o:
            n_panic += 1
        else:
            n_err += 1
    rejected = {}
    for it in items:
        if "rejected" in it:
            rejected[it["ty"]] = rejected.get(it["ty"], 0) + 1
    samples = []
    for i in sample_ids:
        if i in case_of:
            c, o = case_of[i]
            samples.append({"case": {k2: c[k2] for k2 in ("op", "pool", "msg", "hex", "kind")}, "impl": o, "model_obs": samp.get(i)})
    samples += tsamples
    ncorr = 2 if TYPED else 1
    cov.update({
        "obligations": po["obligations"] + ncorr + 1,
        "discharged": po["discharged"] + (0 if mm else 1) + ((0 if tmm else 1) if TYPED else 0) + (0 if schema_diff else 1),
        "checker_cmd": "make -C coq theories/Properties/C09.vo theories/Properties/C09Gen.vo (coqc 8.16.1, full .vo build; Gen/Schema.v regenerated from the .proto files first) + coqc on generated cases_*.v",
        "trusted_base": common.standard_trusted_base([
            "translator gen/proto2coq.py (.proto subset -> Gen/Schema.v); its output is compared with the prost_reflect descriptors linked into the binaries on every run",
            "quick_protobuf 0.8.1 reader / writer and prost 0.12 are modelled on the protobuf wire format only (Model/Wire.v)",
            "keys, signatures and hashes are opaque byte strings (valid curve points from the harness key pool)"]),
        "theorems": po["theorems"], "axioms": po["axioms"],
        "translator": translator,
        "evaluations": len(coq_cases) + tcount,
        "distinct_nontrivial": len(distinct),
        "rule": "values generated schema-directed for every wire/storage type (domain hints for keys, hashes, ip, time, bit vectors, schedules; ~1/3 with required fields dropped) and for the synthetic test schema (repeated scalars of every wire type); per value the canonical bytes (independent python encoder), N alternative serialisations (field interleavings keeping per-field order, packed/unpacked/split repeated scalars, zero-padded varints in tags, lengths and values, nested) and prost's own encoding; malformed stream by 13 mutation kinds; non-trivial = distinct (message, bytes) inputs on which canonical_raw returns a non-empty canonical string",
        "input_distribution": {"values": len(items), "types": len(TYPES), "valid_serialisations": len(canon_cases) - len(prost_idx),
                               "prost_encodings": len(prost_cases), "malformed": mal_kinds, "impl_ok": n_ok, "impl_err": n_err,
                               "impl_panic": n_panic, "typed_decodes": len(rt_cases), "typed_rejected_in_domain": rejected,
                               "typed_builds": len(bcases)},
        "samples": samples,
        "correspondence_mismatches": len(mm) + len(tmm), "predicate_failures": len(pred_fail),
        "schema_diff": schema_diff[:5],
        "observations": [
            "canonical_raw panics (index out of bounds) on a scalar field whose only occurrence is an empty packed chunk, e.g. bytes 12 00 with the ViewV2 descriptor; reproduced by model and implementation alike (Panic PIndex). Not reachable from canonical()/encode(), which only pass prost's own output; the `denote` relation of the theorems excludes empty packed chunks.",
            "mux Handshake encodes a HashMap in iteration order: lossless theorem + decode-only correspondence (neither signed nor stored)",
            "SocketAddrV6 flowinfo / scope_id: build() writes ip + port only, so decode(encode(x)) has flowinfo = scope_id = 0; for x with non-zero values decode(encode(x)) != x as Rust values while ip and port agree (checked on the implementation: typed constructions with flow/scope != 0 compare ip + port). The property text excludes these fields from the wire format, so this is not a finding."],
        "partial": PARTIAL,
        "exhaustive": False,
    })
    rep.assumptions += ["H-HASH: hashes of equal byte strings are equal (the theorems show the byte strings are equal; keccak itself is outside the model)",
                        "prost's decoder is modelled by the reference reading `denote` on inputs that canonical_raw accepts"]


# ---------------------------------------------------------------------------
# typed layer: Model/ProtoTyped.v

TYPED = True
MODELLED = {
    "std.Duration": "TDuration", "std.Timestamp": "TTimestamp", "std.SocketAddr": "TSocketAddr",
    "std.BitVector": "TBitVector", "validator.Signers": "TBitVector",
    "validator.View": "TView", "validator.BlockHeader": "TBlockHeader", "validator.ReplicaCommit": "TReplicaCommit",
    "validator.CommitQC": "TCommitQC", "validator.ReplicaTimeout": "TReplicaTimeout", "validator.TimeoutQC": "TTimeoutQC",
}
PARTIAL = ("Proved for every schema: canonical_raw maps every reading (`denote`) of a byte string to the canonical bytes of the value read; "
           "the canonical bytes are invariant under reordering of different fields at any depth; for schemas without packed repeated scalars "
           "(all production schemas, checked on the regenerated schema) the canonical bytes of a well-formed sorted value are read back as exactly "
           "that value and are a fixed point of canonical_raw. Closed byte-level theorems decode_T (encode_T v) = Ok v (Properties/C09Typed.v) for "
           "every value of the domain whose encoding is below 4 GiB, for: Duration, Timestamp, SocketAddr, BitVector/Signers, the keccak hash "
           "wrappers, View, BlockHeader, ReplicaCommit, CommitQC, ReplicaTimeout, TimeoutQC, ProposalJustification, LeaderProposal, ReplicaNewView, "
           "ChonkyMsg, ConsensusMsg, NetAddress, Msg, Signed<V> (three variants), FinalBlock, PreGenesisBlock, Block, Proposal, Phase, ChonkyV2State, "
           "ReplicaState, ValidatorInfo, LeaderSelectionMode, LeaderSelection, Schedule, Genesis(Raw) incl. the protocol-version guard, validator / node "
           "keys and signatures, node Msg / Signed, gossip and consensus Handshake, preface Encryption / Endpoint, RPC consensus Req/Resp, get_block "
           "Req/Resp, push_block_store_state Req (BlockStoreState, Last), push_validator_addrs Req, push_tx Req, ping Req/Resp. Domains: u64 fields below "
           "2^64, hashes 32 bytes, keys / signatures / semver strings accepted by an opaque validity predicate, durations within the encodable range, "
           "TimeoutQC map and Schedule validators strictly sorted by their key order (the BTreeMap invariant), view number of a justification below "
           "u64::MAX, protocol_version = 2. NOT covered by typed theorems: std RateLimit and Void (config only), the Genesis.hash cache / GenesisHash "
           "computation (keccak). "
           "`denote` (standing for prost's decoder) excludes empty packed chunks and packed chunks on singular fields (canonical_raw panics on the former, "
           "accepts the latter although it is not valid protobuf); byte-level read-back for schemas WITH packed repeated scalars (only the synthetic "
           "test schema) is covered by correspondence, not by a theorem. Listing-order independence is proved for the TimeoutQC map (distinct keys) and, "
           "unconditionally, for Schedule::new (C09_schedule_listing_order_irrelevant). mux Handshake has the lossless theorem only, with a proved "
           "counterexample to byte determinism. "
           "keccak and the validity of keys/signatures are outside the model; hash_agrees is the corollary 'equal bytes' only.")
I64MIN, I64MAX = -(1 << 63), (1 << 63) - 1


def pb(*fields):
    """tiny helper: canonical bytes of a flat message given (number, wire, value) triples"""
    out = bytearray()
    for (n, w, v) in fields:
        out += varint(n << 3 | w)
        if w == 0:
            out += varint(v & (U64 - 1))
        else:
            out += varint(len(v)) + v
    return bytes(out)


def std_edge_cases(rng, n):
    cases = []
    for ip in (bytes(4), bytes([255] * 4), bytes(16), bytes(15) + b"\x01", bytes(10) + b"\xff\xff" + bytes([10, 1, 2, 3]),
               bytes(12) + bytes([10, 1, 2, 3]), b"\xfe\x80" + bytes(13) + b"\x01"):
        for port in (0, 3054, 65535):
            cases.append({"op": "rt", "ty": "std.SocketAddr", "hex": pb((1, 2, ip), (2, 0, port)).hex(), "kind": "edge"})
    for nbits in (0, 1, 7, 8, 9, 63, 64, 65):
        by = bytearray((nbits + 7) // 8)
        for i in range(nbits):
            if i % 3 != 1:
                by[i // 8] |= 0x80 >> (i % 8)
        cases.append({"op": "rt", "ty": "std.BitVector", "hex": pb((1, 0, nbits), (2, 2, bytes(by))).hex(), "kind": "edge"})
    secs = [0, 1, -1, 5, -5, I64MAX, I64MAX - 1, I64MIN, I64MIN + 1, 1 << 62, -(1 << 62), 1700000000]
    nanos = [0, 1, -1, 999999999, -999999999, 1000000000, -1000000000, 2147483647, -2147483648, 500000000,
             (1 << 32) + 7, (1 << 31), 1 << 40]
    for s_ in secs:
        for n_ in nanos:
            for ty in ("std.Duration", "std.Timestamp"):
                cases.append({"op": "rt", "ty": ty, "hex": pb((1, 0, s_), (2, 0, n_)).hex(), "kind": "edge"})
    for _ in range(n):
        s_ = rng.choice(secs + [rng.range(-(1 << 40), 1 << 40), rng.next() - (1 << 63)])
        n_ = rng.choice(nanos + [rng.range(-(1 << 31), (1 << 31) - 1)])
        k = rng.below(10)
        f = [(1, 0, s_), (2, 0, n_)]
        if k == 0:
            f = f[:1]
        elif k == 1:
            f = f[1:]
        elif k == 2:
            f = [f[1], f[0]]
        cases.append({"op": "rt", "ty": rng.choice(["std.Duration", "std.Timestamp"]), "hex": pb(*f).hex(), "kind": "edge"})
        # socket addresses
        ip = special_ip(rng) if rng.chance(1, 2) else bytes(rng.below(256) for _ in range(rng.choice([4, 16, 0, 3, 5, 15, 17, 32])))
        port = rng.choice([0, 1, 65535, 65536, 65537, (1 << 32) - 1, (1 << 32), (1 << 32) + 80, rng.below(65536)])
        f = [(1, 2, ip), (2, 0, port)]
        if rng.chance(1, 10):
            f = f[:1] if rng.chance(1, 2) else f[1:]
        cases.append({"op": "rt", "ty": "std.SocketAddr", "hex": pb(*f).hex(), "kind": "edge"})
        # bit vectors: size against the number of bytes, padding bits set
        nb = rng.range(0, 17)
        by = bytes(rng.below(256) for _ in range(nb))
        size = rng.choice([0, nb * 8, max(0, nb * 8 - rng.range(0, 9)), nb * 8 + rng.range(1, 9), rng.range(0, 140), U64 - 1, 1 << 40])
        f = [(1, 0, size), (2, 2, by)]
        if rng.chance(1, 10):
            f = f[:1] if rng.chance(1, 2) else f[1:]
        cases.append({"op": "rt", "ty": rng.choice(["std.BitVector", "validator.Signers"]), "hex": pb(*f).hex(), "kind": "edge"})
    return cases


def build_cases(rng, tier, pool):
    """Typed constructions through the public Rust API: equal values produced in different ways."""
    n = 40 if tier == "quick" else 300
    cases, groups = [], []     # groups: lists of case indices that must encode identically

    def h32():
        return bytes(rng.below(256) for _ in range(32)).hex()

    def view():
        return {"genesis": rng.choice(hs), "number": str(rng.choice([0, 1, 2, rng.next()])), "epoch": str(rng.choice([0, 1, rng.below(5)]))}

    def commit():
        return {"view": view(), "proposal": {"number": str(rng.choice([0, 1, rng.next()])), "payload": rng.choice(hs)}}

    def bits():
        return [rng.below(2) for _ in range(rng.choice([0, 1, 3, 8, 9, rng.range(0, 20)]))]

    def cqc():
        return {"msg": commit(), "signers": bits(), "sig": rng.below(9)}

    def timeout():
        return {"view": view(), "high_vote": commit() if rng.chance(2, 3) else None, "high_qc": cqc() if rng.chance(1, 2) else None}

    for ip in (bytes(4), bytes([255] * 4), bytes(16), bytes(15) + b"\x01", bytes(10) + b"\xff\xff" + bytes([10, 1, 2, 3]),
               bytes(12) + bytes([10, 1, 2, 3]), b"\xfe\x80" + bytes(13) + b"\x01"):
        for port in (0, 3054, 65535):
            cases.append({"op": "build", "ty": "std.SocketAddr", "ip": ip.hex(), "port": port, "flow": 0, "scope": 0})
    cases.append({"op": "build", "ty": "std.SocketAddr", "ip": (b"\xfe\x80" + bytes(13) + b"\x01").hex(), "port": 3054, "flow": 7, "scope": 2})
    for nbits in (0, 1, 7, 8, 9, 63, 64, 65):
        cases.append({"op": "build", "ty": "std.BitVector", "bits": [1 if i % 3 != 1 else 0 for i in range(nbits)]})
    for (secs, nan) in ((0, 0), (-1, -999999999), (I64MAX, 999999999), (I64MIN + 1, -999999999), (I64MIN + 1, 0), (-5, -1), (5, 1)):
        for ty in ("std.Duration", "std.Timestamp"):
            cases.append({"op": "build", "ty": ty, "secs": str(secs), "nanos": nan})
    for _ in range(n):
        hs = [h32() for _ in range(2)]
        # TimeoutQC: the same entries inserted in several orders (BTreeMap)
        es = [[timeout(), bits()] for _ in range(rng.range(0, 5))]
        if es and rng.chance(1, 3):
            es.append([es[0][0], bits()])           # same key twice: the later value wins
        base = {"op": "build", "ty": "validator.TimeoutQC", "view": view(), "entries": es, "sig": rng.below(9)}
        g = [len(cases)]
        cases.append(base)
        for _ in range(2):
            c = dict(base)
            # permutations that keep the relative order of equal keys (a later duplicate still wins)
            idx = list(range(len(es)))
            perm = rng.shuffle(idx)
            keyid = [json.dumps(e[0], sort_keys=True) for e in es]
            fixed = {}
            for i in idx:
                fixed.setdefault(keyid[i], []).append(i)
            out, used = [], {k: 0 for k in fixed}
            for i in perm:
                k = keyid[i]
                out.append(es[fixed[k][used[k]]])
                used[k] += 1
            c["entries"] = out
            g.append(len(cases))
            cases.append(c)
        groups.append(g)
        # Schedule: validators listed in different orders
        m = rng.range(1, 6)
        ranks = rng.shuffle(list(range(8)))[:m]
        vals = [[r_, str(rng.choice([1, 2, 5, 1000])), rng.chance(2, 3)] for r_ in ranks]
        if not any(v[2] for v in vals):
            vals[0][2] = True
        base = {"op": "build", "ty": "validator.Schedule", "vals": vals, "freq": str(rng.choice([0, 1, 7])), "mode": rng.choice(["rr", "w"])}
        g = [len(cases)]
        cases.append(base)
        c = dict(base)
        c["vals"] = rng.shuffle(vals)
        g.append(len(cases))
        cases.append(c)
        groups.append(g)
        # std values through their constructors
        secs = rng.choice([0, 1, -1, I64MAX, I64MIN + 1, rng.range(-(1 << 40), 1 << 40)])
        nan = rng.below(1000000000) * (1 if secs >= 0 else -1)
        if secs in (I64MAX, I64MIN + 1) and rng.chance(1, 2):
            nan = 999999999 * (1 if secs > 0 else -1)
        cases.append({"op": "build", "ty": rng.choice(["std.Duration", "std.Timestamp"]), "secs": str(secs), "nanos": nan})
        cases.append({"op": "build", "ty": "std.BitVector", "bits": [rng.below(2) for _ in range(rng.range(0, 70))]})
        ip = special_ip(rng)
        cases.append({"op": "build", "ty": "std.SocketAddr", "ip": ip.hex(), "port": rng.below(65536),
                      "flow": rng.choice([0, 0, rng.below(1 << 20)]), "scope": rng.choice([0, 0, rng.below(1 << 16)])})

    def checks(outs):
        bad = []
        for c, o in zip(cases, outs):
            if "panic" in o:
                bad.append({"failed": "encoding a value in the property's domain panicked", **c, "impl": o})
            elif "err" in o and c["ty"] != "validator.Schedule":
                bad.append({"failed": "typed construction failed", **c, "impl": o})
            elif "ok" in o:
                plain_v6 = c["ty"] == "std.SocketAddr" and (c.get("flow") or c.get("scope"))
                if not o["same"] and not plain_v6:
                    bad.append({"failed": "decode(encode(v)) != v", **c, "impl": o})
                if o.get("enc2") != o["ok"]:
                    bad.append({"failed": "encode(decode(encode(v))) != encode(v)", **c, "impl": o})
                if "in" in o and o.get("val") != o["in"]:
                    bad.append({"failed": "decoded std value differs from the encoded one", **c, "impl": o})
                if c["ty"] == "std.BitVector" and o.get("val") != c["bits"]:
                    bad.append({"failed": "decoded bit vector differs from the encoded one", **c, "impl": o})
        for g in groups:
            encs = {outs[i].get("ok", outs[i].get("err")) for i in g}
            if len(encs) != 1:
                bad.append({"failed": "equal values built in different orders encode differently", **cases[g[0]],
                            "other_order": cases[g[1]], "impl": [outs[i] for i in g]})
        return bad

    return cases, checks


MODELLED2 = {
    "validator.ProposalJustification": "T2Justification", "validator.LeaderProposal": "T2LeaderProposal",
    "validator.ReplicaNewView": "T2NewView", "validator.ChonkyMsg": "T2Chonky", "validator.ConsensusMsg": "T2ConsensusMsg",
    "validator.Msg": "T2Msg", "validator.Signed.consensus": "T2SignedConsensus",
    "validator.Signed.net_address": "T2SignedNetAddress", "validator.Signed.session_id": "T2SignedSessionId",
    "validator.FinalBlock": "T2FinalBlock", "validator.PreGenesisBlock": "T2PreGenesis", "validator.Block": "T2Block",
    "validator.Proposal": "T2Proposal", "validator.Phase": "T2Phase", "validator.ChonkyV2State": "T2State",
    "validator.ReplicaState": "T2ReplicaState", "validator.ValidatorInfo": "T2ValidatorInfo",
    "validator.LeaderSelectionMode": "T2Mode", "validator.LeaderSelection": "T2Selection", "validator.Schedule": "T2Schedule",
    "validator.GenesisRaw": "T2Genesis", "validator.Genesis": "T2Genesis", "validator.NetAddress": "T2NetAddress",
    "validator.PublicKey": "T2VPublicKey", "validator.Signature": "T2VSignature", "validator.AggregateSignature": "T2AggSignature",
    "validator.MsgHash": "T2Hash", "validator.GenesisHash": "T2Hash", "validator.PayloadHash": "T2Hash",
    "node.Msg": "T2NodeMsg", "node.PublicKey": "T2NodePublicKey", "node.Signature": "T2NodeSignature", "node.Signed": "T2NodeSigned",
    "gossip.Handshake": "T2GossipHandshake", "consensus.Handshake": "T2ConsensusHandshake",
    "preface.Encryption": "T2Encryption", "preface.Endpoint": "T2Endpoint",
    "rpc.consensus.Req": "T2ConsensusReq", "rpc.consensus.Resp": "T2ConsensusResp", "rpc.get_block.Req": "T2GetBlockReq",
    "rpc.get_block.Resp": "T2GetBlockResp", "rpc.push_block_store_state.Req": "T2PushStoreState",
    "rpc.push_validator_addrs.Req": "T2PushAddrs", "rpc.push_tx.Req": "T2PushTx", "rpc.ping.Req": "T2Ping", "rpc.ping.Resp": "T2Ping",
}
POOL = {}


def patch(entries, path, value):
    """entries with the value at the field-number path replaced"""
    out = []
    done = False
    for (n, v) in entries:
        if n == path[0] and not done:
            done = True
            v = value if len(path) == 1 else ("msg", patch(v[1], path[1:], value))
        out.append((n, v))
    return out


def edge2_cases(rng, sc, n):
    """boundary values of the part-2 types: schedules (duplicates, zero weights, overflow, no leader, unsorted),
    genesis protocol versions, justification view numbers at u64::MAX"""
    gen = Gen(sc, rng, POOL)
    cases = []
    for _ in range(n):
        m = rng.range(0, 5)
        ks = [rng.choice(POOL["vpub"]) for _ in range(m)] if rng.chance(1, 4) else rng.shuffle(POOL["vpub"])[:m]
        vals = []
        for k in ks:
            w = rng.choice([1, 1, 2, 5, 0, 1 << 63, U64 - 1, 1 << 40])
            vals.append((1, ("msg", [(1, ("msg", [(1, ("len", bytes.fromhex(k)))])), (2, ("var", w)), (3, ("var", rng.choice([0, 1, 1, 2])))])))
        sel = ("msg", [(1, ("var", gen.u64())), (2, ("msg", [(rng.choice([1, 3]), ("msg", []))]))])
        sched = vals + [(2, sel)]
        cases.append({"op": "rt", "ty": "validator.Schedule", "kind": "edge",
                      "hex": canon(sc, "zksync.roles.validator.ValidatorSchedule", sched).hex()})
        g = [(5, ("var", gen.u64())), (6, ("var", gen.u64())), (7, ("var", gen.u64())),
             (8, ("var", rng.choice([2, 2, 2, 0, 1, 3, (1 << 32) + 2, U64 - 1])))]
        if rng.chance(2, 3):
            g.append((10, ("msg", sched)))
        if rng.chance(1, 10):
            g = g[1:]
        cases.append({"op": "rt", "ty": rng.choice(["validator.Genesis", "validator.GenesisRaw"]), "kind": "edge",
                      "hex": canon(sc, "zksync.roles.validator.Genesis", g).hex()})
        num = rng.choice([U64 - 1, U64 - 2, 0])
        q = gen.message("zksync.roles.validator.CommitQCV2", 0, None, 0)
        q = patch(q, [1, 1, 2], ("var", num))
        cases.append({"op": "rt", "ty": "validator.ProposalJustification", "kind": "edge",
                      "hex": canon(sc, "zksync.roles.validator.ProposalJustificationV2", [(1, ("msg", q))]).hex()})
        t = gen.message("zksync.roles.validator.TimeoutQCV2", 0, None, 0)
        t = patch(t, [1, 2], ("var", num))
        cases.append({"op": "rt", "ty": "validator.ReplicaNewView", "kind": "edge",
                      "hex": canon(sc, "zksync.roles.validator.ReplicaNewViewV2",
                                   [(1, ("msg", [(2, ("msg", t))]))]).hex()})
    return cases


def read_varint(b, i):
    x, sh = 0, 0
    while True:
        c = b[i]
        i += 1
        x |= (c & 0x7F) << sh
        sh += 7
        if c < 0x80:
            return x, i


def parse_mux(b):
    """canonical mux Handshake bytes -> (sorted accept pairs, sorted connect pairs)"""
    out = {5: [], 6: []}
    i = 0
    while i < len(b):
        tag, i = read_varint(b, i)
        ln, i = read_varint(b, i)
        sub, j, cap = b[i:i + ln], 0, {}
        i += ln
        while j < len(sub):
            t, j = read_varint(sub, j)
            v, j = read_varint(sub, j)
            cap[t >> 3] = v
        out[tag >> 3].append([cap[1], cap[2]])
    return sorted(out[5]), sorted(out[6])


def mux_correspondence(rep, sc, rng):
    """mux Handshake: decode only (its re-encoding follows a HashMap iteration order)"""
    gen = Gen(sc, rng, POOL)
    cases = []
    for k in range(40 if rep.tier == "quick" else 400):
        e = gen.message("zksync.network.mux.Handshake", 0, None, 8)
        if k % 5 == 0 and e:
            e = e + [e[0]]                       # duplicate capability id
        b = canon(sc, "zksync.network.mux.Handshake", e)
        cases.append({"op": "rt", "ty": "mux.Handshake", "hex": b.hex(), "kind": "mux"})
    outs = run_impl(cases)
    coq = []
    for i, (c, o) in enumerate(zip(cases, outs)):
        if "ok" in o:
            a, cn = parse_mux(bytes.fromhex(o["ok"]))
            exp = common.to_obsv([0, a, cn])
        else:
            exp = "(OL [OZ 1])"
        coq.append((i, f'"{c["hex"]}"', exp))
    mm, samp = common.run_model_cases(
        "C09mux", "From EC Require Import Model.Wire Model.ProtoSchema Model.ProtoTyped Model.ProtoTyped2.\nOpen Scope string_scope.",
        "Model.ProtoTyped2.run_mux_case", coq, shard_size=max(10, len(coq) // 16 + 1), sample_ids=[0], timeout=3000)
    mism = [{"case": cases[i], "impl": outs[i], "model_obs": m} for i, m in sorted(mm.items())]
    return mism, len(coq), sum(1 for o in outs if "ok" in o)


def typed_correspondence(rep, sc, items, routs, rt_cases, bcases, bouts):
    """Model.ProtoTyped.run_rt_case / ProtoTyped2.run_rt_case2 on every decode of a modelled type
    (+ edge streams + the encodings produced by the typed constructions)."""
    rng = Rng(rep.seed ^ 0xC09)
    cases = []
    for c, o in zip(rt_cases, routs):
        if c["ty"] in MODELLED or c["ty"] in MODELLED2:
            cases.append((c, o))
    edge = std_edge_cases(rng, 150 if rep.tier == "quick" else 1000)
    edge += edge2_cases(rng, sc, 40 if rep.tier == "quick" else 400)
    for c, o in zip(bcases, bouts):
        if (c["ty"] in MODELLED or c["ty"] in MODELLED2) and "ok" in o:
            edge.append({"op": "rt", "ty": c["ty"], "hex": o["ok"], "kind": "built"})
    eouts = run_impl(edge)
    viol = []
    for c, o in zip(edge, eouts):
        cases.append((c, o))
        if "ok" in o and (not o["same"] or o["enc2"] != o["ok"]):
            viol.append({"failed": "decode(encode(v)) != v", "ty": c["ty"], "hex": c["hex"], "impl": o})
        if "panic" in o:
            viol.append({"failed": "decode / re-encode panicked", "ty": c["ty"], "hex": c["hex"], "impl": o})
    for v in viol[:3]:
        rep.violation("wire encoding violates C09 on the implementation: " + v["failed"], {"failing_input": v})
    coq1, coq2 = [], []
    for i, (c, o) in enumerate(cases):
        if "ok" in o:
            exp = f'(OL [OZ 0; obs_hex "{o["ok"]}"])'
        elif "panic" in o:
            exp = "(OL [OZ 2; OZ %d])" % (1 if "overflow" in o["panic"] else (5 if "unreachable" in o["panic"] else 99))
        else:
            exp = "(OL [OZ 1])"
        if c["ty"] in MODELLED:
            coq1.append((i, f'({MODELLED[c["ty"]]}, "{c["hex"]}")', exp))
        else:
            coq2.append((i, f'({MODELLED2[c["ty"]]}, "{c["hex"]}")', exp))
    sample_ids = [0, len(cases) // 2, len(cases) - 1]
    mm, samp = common.run_model_cases(
        "C09typed", "From EC Require Import Model.Wire Model.ProtoSchema Model.ProtoTyped.\nOpen Scope string_scope.",
        "Model.ProtoTyped.run_rt_case", coq1, shard_size=max(20, len(coq1) // 48 + 1), sample_ids=sample_ids, timeout=3000)
    mm2, samp2 = common.run_model_cases(
        "C09typed2", "From EC Require Import Model.Wire Model.ProtoSchema Model.ProtoTyped Model.ProtoTyped2.\nOpen Scope string_scope.",
        "Model.ProtoTyped2.run_rt_case2", coq2, shard_size=max(20, len(coq2) // 48 + 1), sample_ids=sample_ids, timeout=3000)
    mm.update(mm2)
    samp.update(samp2)
    mism = [{"case": cases[i][0], "impl": cases[i][1], "model_obs": m} for i, m in sorted(mm.items())]
    samples = [{"case": cases[i][0], "impl": cases[i][1], "model_obs": samp.get(i)} for i in sample_ids if i < len(cases)]
    by_type = {}
    for c, _ in cases:
        by_type[c["ty"]] = by_type.get(c["ty"], 0) + 1
    mux_mism, mux_n, mux_ok = mux_correspondence(rep, sc, rng)
    by_type["mux.Handshake (decode only)"] = mux_n
    rep.cov["typed_cases_by_type"] = by_type
    rep.cov["mux_handshake_accepted"] = mux_ok
    return mism + mux_mism, samples, len(coq1) + len(coq2) + mux_n


def replay(path):
    d = json.load(open(path))
    fi = d.get("failing_input") or (d.get("first_disagreement") or {}).get("case")
    if not fi:
        print("no concrete input in replay file:", d.get("broken"))
        return 1
    regenerate()
    common.cargo_build(["codec"], "dev")
    cases = []
    if "ty" in fi and fi.get("hex") is not None:
        cases.append({"op": "rt", "ty": fi["ty"], "hex": fi["hex"]})
    if "msg" in fi and fi.get("hex") is not None:
        cases.append({"op": "canon", "pool": fi.get("pool", "real"), "msg": fi["msg"], "hex": fi["hex"]})
    if fi.get("op") == "build":
        cases.append(fi)
    for c, o in zip(cases, run_impl(cases)):
        print(json.dumps(c))
        print("  impl:", json.dumps(o))
    if "expected" in fi:
        print("  expected canonical bytes:", fi["expected"])
    return 0
