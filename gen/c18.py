"""C18 — validator address book: theorems + correspondence (vh addrbook vs Model.AddrBook) + predicates.

Rust side: the real ValidatorAddrsWatch (hook verif::gossip::AddrBook: update / announce / current)
fed with announcements really signed by pool keys (and really forged ones).  Model side:
Model.AddrBook.run_case evaluated by vm_compute.  Predicates: the property statement evaluated on
the Rust behaviour alone (authentic, strictly-newer replacement, rejected batch = no change,
non-members ignored, convergence of nodes that saw the same announcements)."""
import json
import re
import sys
import common
import c18_loops as loops
import c18_race as race
from common import Rng, coq_z, coq_list, coq_bool

PROP_FILES = ["theories/Properties/C18.v"]
POOL = 8
U64M = (1 << 64) - 1
# time::Duration range is (i64 seconds, |nanos| < 10^9).  The generator stays one second inside the
# lower end: a value with seconds = i64::MIN and negative nanoseconds cannot be encoded (protobuf
# std_conv Duration::build does `seconds -= 1`) and cannot arrive from the wire either (the decoder
# rejects it as "duration out of range", probed), so it is outside what peers can send.
TS_MAX = ((1 << 63) - 1) * 10 ** 9 + 999999999
TS_MIN = -TS_MAX
NOW = 1790000000 * 10 ** 9


# ---------------------------------------------------------------------------
# case generation.  An announcement is [k, addr, ver, ts, sk, saddr, sver, sts] (python ints).

def valid(e):
    return e[0] == e[4] and e[1:4] == e[5:8]


def stamp(e):
    return (e[2], e[3])


def gen_version(rng):
    return rng.choice([0, 0, 1, 2, rng.below(50), 1 << 32, U64M - 1, U64M, rng.next() >> rng.range(0, 63)])


def gen_ts(rng):
    return max(TS_MIN, min(TS_MAX, _gen_ts(rng)))


def _gen_ts(rng):
    return rng.choice([0, 1, -1, NOW + rng.below(10 ** 6), NOW - rng.below(10 ** 12), TS_MAX, TS_MIN,
                       TS_MAX - rng.below(3), TS_MIN + rng.below(3), 10 ** 9 * rng.range(-5, 5) + rng.range(-3, 3),
                       (rng.next() - (1 << 63)) * rng.choice([1, 10 ** 9])])


def gen_addr(rng):
    return rng.choice([rng.below(16), rng.below(1 << 48), (10 << 40) + rng.below(1 << 16)])


class KeyHist:
    def __init__(self):
        self.used = {}   # key -> list of (ver, ts, addr) of valid announcements generated so far

    def next(self, rng, k, clean):
        """(addr, ver, ts) for a new announcement of key k."""
        h = self.used.setdefault(k, [])
        for _ in range(20):
            r = rng.below(100)
            addr = gen_addr(rng)
            if not h or r < 12:
                ver, ts = gen_version(rng), gen_ts(rng)
                if clean and ver >= U64M - 1:
                    ver = rng.below(5)
            else:
                hv, ht, ha = max(h)
                if r < 60:      # newer than everything so far
                    if rng.chance(1, 2) and hv < U64M:
                        ver, ts = hv + rng.choice([1, 1, 2, 1000]), gen_ts(rng)
                        ver = min(ver, U64M)
                    elif ht < TS_MAX:
                        ver, ts = hv, min(TS_MAX, ht + rng.choice([1, 1, 2, 10 ** 9, 10 ** 12]))
                    else:
                        continue
                elif r < 75:    # tie with an earlier announcement: resend or equivocation
                    ver, ts, a0 = rng.choice(h)
                    addr = a0 if rng.chance(1, 2) else addr
                else:           # older
                    ov, ot, _ = rng.choice(h)
                    if rng.chance(1, 2) and ov > 0:
                        ver, ts = ov - rng.choice([1, 1, min(ov, 7)]), gen_ts(rng)
                    elif ot > TS_MIN:
                        ver, ts = ov, max(TS_MIN, ot - rng.choice([1, 2, 10 ** 9]))
                    else:
                        continue
            if clean and any((ver, ts) == (v, t) and addr != a for (v, t, a) in h):
                continue
            h.append((ver, ts, addr))
            return addr, ver, ts
        ver, ts, addr = h[0]
        return addr, ver, ts


def forge(rng, e):
    """Returns a forged variant of the valid announcement e."""
    e = list(e)
    kind = rng.below(5)
    if kind == 0:       # signed by somebody else
        e[4] = (e[0] + rng.range(1, POOL - 1)) % POOL
    elif kind == 1:     # right key, but the signature is over another address
        e[5] = e[1] + 1 if e[1] < (1 << 48) - 1 else e[1] - 1
    elif kind == 2:     # ... over another version (replay of an old signature with a bumped version)
        e[6] = e[2] - 1 if e[2] > 0 else e[2] + 1
    elif kind == 3:     # ... over another timestamp
        e[7] = e[3] - 1 if e[3] > TS_MIN else e[3] + 1
    else:               # other key and other content
        e[4] = (e[0] + rng.range(1, POOL - 1)) % POOL
        e[5] = e[1] ^ 1
    return e


def gen_batch(rng, hist, committee, clean, st):
    n = rng.choice([0, 1, 1, 2, 2, 3, 3, 4, 5, 6])
    keys = rng.shuffle(list(range(POOL)))
    batch = []
    for k in keys:
        if len(batch) >= n:
            break
        member = k in committee
        if clean and not member:
            continue
        if not member and not rng.chance(1, 3):
            continue
        addr, ver, ts = hist.next(rng, k, clean)
        e = [k, addr, ver, ts, k, addr, ver, ts]
        if not clean and rng.chance(1, 7):
            e = forge(rng, e)
            st["forged"] = st.get("forged", 0) + 1
        if not member:
            st["nonmember"] = st.get("nonmember", 0) + 1
        batch.append(e)
    if not clean and batch and rng.chance(1, 12):
        src = rng.choice(batch)
        dup = list(src)
        if rng.chance(1, 2):
            addr, ver, ts = hist.next(rng, src[0], False)
            dup = [src[0], addr, ver, ts, src[0], addr, ver, ts]
        batch.insert(rng.below(len(batch) + 1), dup)
        st["dupkey"] = st.get("dupkey", 0) + 1
    return batch


def gen_case(rng, st):
    z = rng.below(100)
    kind = "clean" if z < 35 else ("overflow" if z < 43 else "mixed")
    clean = kind == "clean"
    csize = rng.range(1, 6)
    committee = sorted(rng.shuffle(list(range(POOL)))[:csize])
    hist = KeyHist()
    ops = []
    self_key = rng.below(POOL)
    if kind == "overflow":
        if self_key not in committee:
            committee = sorted(committee + [self_key])
        v = rng.choice([U64M, U64M - 1, U64M - 2])
        a, t = gen_addr(rng), gen_ts(rng)
        hist.used.setdefault(self_key, []).append((v, t, a))
        ops.append({"u": {"c": committee, "d": [[self_key, a, v, t, self_key, a, v, t]]}})
        for _ in range(rng.range(1, 4)):
            ops.append({"a": [self_key, gen_addr(rng), gen_ts(rng)]})
    nops = rng.range(2, 9)
    for _ in range(nops):
        if not clean and rng.chance(1, 7):
            k = self_key if rng.chance(4, 5) else rng.below(POOL)
            ops.append({"a": [k, gen_addr(rng), gen_ts(rng)]})
            continue
        c = committee
        if not clean and rng.chance(1, 8):
            c = sorted(rng.shuffle(list(range(POOL)))[:rng.range(1, 6)])
            if rng.chance(1, 2):
                committee = c
        ops.append({"u": {"c": c, "d": gen_batch(rng, hist, c, clean, st)}})
    return {"pool": POOL, "kind": kind, "ops": ops}


def twin_case(rng, c):
    """The same announcements offered in another order and grouping (update-only cases with one committee)."""
    ups = [o["u"] for o in c["ops"] if "u" in o]
    if len(ups) != len(c["ops"]) or not ups or any(u["c"] != ups[0]["c"] for u in ups):
        return None
    committee = ups[0]["c"]
    mode = rng.below(3)
    if mode == 0:       # same batches, other order
        batches = rng.shuffle([list(u["d"]) for u in ups])
    else:               # regroup all announcements; never two of one key in a batch
        allE = rng.shuffle([e for u in ups for e in u["d"]])
        batches = []
        for e in allE:
            cands = [b for b in batches if all(x[0] != e[0] for x in b) and len(b) < 6]
            if cands and rng.chance(2, 3):
                rng.choice(cands).append(e)
            else:
                batches.append([e])
        if mode == 2:
            batches = [[e] for b in batches for e in b]
    return {"pool": POOL, "kind": c["kind"] + " twin", "ops": [{"u": {"c": committee, "d": b}} for b in batches]}


def corpus_cases():
    v = lambda k, a, ver, ts: [k, a, ver, ts, k, a, ver, ts]
    return [
        # valid entry for 2 followed by a forged newer entry for 0: whole batch rejected, 2 not published
        {"pool": POOL, "kind": "corpus partial-then-forged", "ops": [
            {"u": {"c": [0, 1, 2], "d": [v(0, 5, 0, 100), v(3, 6, 0, 1), v(1, 7, U64M, TS_MIN)]}},
            {"u": {"c": [0, 1, 2], "d": [v(2, 9, 1, 1), [0, 8, 1, 1, 1, 8, 1, 1]]}},
            {"u": {"c": [0, 1, 2], "d": [[0, 8, 0, 100, 1, 8, 0, 100], v(2, 9, 1, 1)]}},
            {"u": {"c": [0, 1], "d": [v(0, 5, 0, 101), v(0, 5, 0, 102)]}}]},
        # ties: same stamp other address is not newer; timestamp breaks version ties; version dominates
        {"pool": POOL, "kind": "corpus ties", "ops": [
            {"u": {"c": [4], "d": [v(4, 1, 3, 50)]}},
            {"u": {"c": [4], "d": [v(4, 2, 3, 50)]}},
            {"u": {"c": [4], "d": [v(4, 3, 3, 51)]}},
            {"u": {"c": [4], "d": [v(4, 4, 2, TS_MAX)]}},
            {"u": {"c": [4], "d": [v(4, 5, 4, TS_MIN)]}}]},
        # own announcements: 0, +1, and the overflow at u64::MAX
        {"pool": POOL, "kind": "corpus announce", "ops": [
            {"a": [6, 77, 5]}, {"a": [6, 78, 3]},
            {"u": {"c": [6], "d": [v(6, 9, U64M, 0)]}},
            {"a": [6, 79, 9]}, {"a": [6, 80, 10]}]},
    ]


# ---------------------------------------------------------------------------
# encoding of cases for the two sides

def json_case(c):
    ops = []
    for o in c["ops"]:
        if "u" in o:
            ops.append({"u": {"c": o["u"]["c"],
                              "d": [[e[0], str(e[1]), str(e[2]), str(e[3]), e[4], str(e[5]), str(e[6]), str(e[7])]
                                    for e in o["u"]["d"]]}})
        else:
            ops.append({"a": [o["a"][0], str(o["a"][1]), str(o["a"][2])]})
    return {"pool": c["pool"], "ops": ops}


def coq_case(c, chk):
    ops = []
    for o in c["ops"]:
        if "u" in o:
            es = coq_list(["mk_entry " + " ".join(coq_z(x) for x in e) for e in o["u"]["d"]])
            ops.append("OUpdate %s %s" % (coq_list([coq_z(k) for k in o["u"]["c"]]), es))
        else:
            ops.append("OAnnounce %s %s %s" % tuple(coq_z(x) for x in o["a"]))
    return "(%s, %s)" % (coq_bool(chk), coq_list(ops))


# Coq spends ~0.03 ms per digit on numerals, and the cases are mostly 15-28 digit numbers that repeat
# (the same stamp in message and signature, the same book row after every step).  Long numerals are
# therefore written relative to a few named constants or let-bound once per term.
BIGNUM = re.compile(r"\(-\d{7,}\)|(?<![\w.])\d{7,}")
GCONST = [("gU64M", U64M), ("gTSMAX", TS_MAX), ("gNOW", NOW)]
PREAMBLE = ("From EC Require Import Model.AddrBook.\n" +
            "".join("Definition %s : BinNums.Z := %d%%Z.\n" % (n, v) for n, v in GCONST) +
            "Definition lin_case := (bool * list op * list (list op) * list obsv * list obsv)%type.\n"
            "Definition run_any (x : (bool * list op) + net_case + lin_case) : obsv :=\n"
            "  match x with inl (inl a) => Model.AddrBook.run_case a | inl (inr b) => Model.AddrBook.run_net_case b\n"
            "  | inr c => Model.AddrBook.run_lin_case c end.\n"
            "Definition cA (a : bool * list op) : (bool * list op) + net_case + lin_case := inl (inl a).\n"
            "Definition cB (b : net_case) : (bool * list op) + net_case + lin_case := inl (inr b).\n"
            "Definition cC (c : lin_case) : (bool * list op) + net_case + lin_case := inr c.\n")


def compress(term):
    names, binds = {}, []
    counts = {}
    for m in BIGNUM.finditer(term):
        counts[m.group(0)] = counts.get(m.group(0), 0) + 1

    def short(tok):
        if tok in names:
            return names[tok]
        v = int(tok.strip("()"))
        r = None
        for g, gv in GCONST:
            if abs(v - gv) < 10 ** 6:
                r = g if v == gv else "(%s %s %d)" % (g, "+" if v > gv else "-", abs(v - gv))
            elif abs(v + gv) < 10 ** 6:
                r = "(%d - %s)" % (v + gv, g)
        if r is None and counts[tok] > 1:
            r = "b%d" % len(binds)
            binds.append("let %s := %s in " % (r, tok))
        names[tok] = r or tok
        return names[tok]

    body = BIGNUM.sub(lambda m: short(m.group(0)), term)
    return "(" + "".join(binds) + body + ")"


def res_obs(r):
    if r == "ok":
        return [0]
    if "panic" in r:
        return [1, 1 if "overflow" in r["panic"] else 99]
    m = r["err"]
    if "duplicate entry" in m:
        return [2, 1]
    if "ignature" in m:
        return [2, 2]
    return [2, 99]


def impl_obs(o):
    return [[res_obs(s["res"]), [[row[1], int(row[2]), int(row[3]), int(row[4]), 1 if row[5] else 0] for row in s["book"]]]
            for s in o["steps"]]


# ---------------------------------------------------------------------------
# predicates: the property statement on the implementation's behaviour alone

def seen_set(c, o):
    """Validly signed member announcements contained in accepted batches."""
    s = set()
    for op, st in zip(c["ops"], o["steps"]):
        if "u" in op and st["res"] == "ok":
            for e in op["u"]["d"]:
                if valid(e) and e[0] in op["u"]["c"]:
                    s.add(tuple(e[:4]))
    return s


def unique_stamps(s):
    m = {}
    for (k, a, v, t) in s:
        if m.setdefault((k, v, t), a) != a:
            return False
    return True


def final_book(o):
    return {row[0]: (int(row[2]), int(row[3]), int(row[4])) for row in o["steps"][-1]["book"]} if o["steps"] else {}


def predicate(c, o, chk, st=None):
    bad = []
    prev = {}
    for i, (op, s) in enumerate(zip(c["ops"], o["steps"])):
        cur = {}
        for row in s["book"]:
            mk, ek, addr, ver, ts, ok = row[0], row[1], int(row[2]), int(row[3]), int(row[4]), row[5]
            if mk != ek:
                bad.append({"op": i, "failed": f"entry stored under key {mk} claims key {ek}"})
            if not ok:
                bad.append({"op": i, "failed": f"stored entry for key {mk} does not verify (forged announcement stored)"})
            cur[mk] = (addr, ver, ts)
        res = s["res"]
        changed = [k for k in cur if cur[k] != prev.get(k)]
        if "u" in op:
            members = set(op["u"]["c"])
            offered = {tuple(e[:4]) for e in op["u"]["d"] if valid(e) and e[0] in members}
            if isinstance(res, dict) and "panic" in res:
                bad.append({"op": i, "failed": "update panicked: " + res["panic"]})
            for k in changed:
                if k not in members:
                    bad.append({"op": i, "failed": f"announcement of non-member {k} was stored"})
                elif (k,) + cur[k] not in offered:
                    bad.append({"op": i, "failed": f"entry stored for {k} is not a validly signed announcement of this batch"})
            if res != "ok" and cur != prev:
                bad.append({"op": i, "failed": "a rejected batch changed the published address book"})
            if st is not None:
                tag = "rejected-dup" if res_obs(res) == [2, 1] else "rejected-sig" if res != "ok" else ("accepted-changed" if changed else "accepted-unchanged")
                st[tag] = st.get(tag, 0) + 1
        else:
            k, addr, ts = op["a"]
            for k2 in changed:
                if k2 != k:
                    bad.append({"op": i, "failed": f"announce of {k} changed the entry of {k2}"})
            pv = prev.get(k)
            if res == "ok":
                want = 0 if pv is None else (pv[1] + 1 if pv[1] < U64M else (None if chk else 0))
                if cur.get(k) != (addr, want, ts):
                    bad.append({"op": i, "failed": f"announce stored {cur.get(k)} instead of version {want}"})
            elif cur != prev:
                bad.append({"op": i, "failed": "failed announce changed the book"})
            if st is not None:
                tag = "announce-first" if pv is None else ("announce-bump" if pv[1] < U64M else "announce-at-max")
                st[tag] = st.get(tag, 0) + 1
        for k in prev:
            if k not in cur:
                bad.append({"op": i, "failed": f"entry of {k} disappeared"})
            elif cur[k] != prev[k] and not (cur[k][1], cur[k][2]) > (prev[k][1], prev[k][2]):
                # own announcement at version u64::MAX without overflow checks wraps to 0: outside the
                # property's quantifier (needs 2^64 own announcements or the node's own key signing u64::MAX)
                if "a" in op and not chk and prev[k][1] == U64M and op["a"][0] == k:
                    continue
                bad.append({"op": i, "failed": f"entry of {k} replaced by one that is not strictly newer: {prev[k]} -> {cur[k]}"})
        prev = cur
    # final book = per key the newest seen announcement (update-only cases)
    if all("u" in op for op in c["ops"]) and o["steps"]:
        seen = seen_set(c, o)
        fb = final_book(o)
        for k in set(x[0] for x in seen) | set(fb):
            best = max(((v, t) for (kk, a, v, t) in seen if kk == k), default=None)
            got = fb.get(k)
            if (got is None) != (best is None) or (got is not None and (got[1], got[2]) != best):
                bad.append({"op": len(c["ops"]) - 1, "failed": f"book holds {got} for {k} but the newest accepted announcement has stamp {best}"})
    return bad


def convergence(c1, o1, c2, o2):
    """Two nodes that saw the same announcements (with unique stamps) must hold the same book."""
    s1, s2 = seen_set(c1, o1), seen_set(c2, o2)
    if s1 != s2 or not unique_stamps(s1):
        return None
    if final_book(o1) != final_book(o2):
        return {"failed": "two nodes saw the same announcements but hold different address books",
                "book_a": final_book(o1), "book_b": final_book(o2)}
    return True


# ---------------------------------------------------------------------------

def make_cases(rng, n, st):
    cases = corpus_cases()
    for _ in range(n):
        c = gen_case(rng, st)
        cases.append(c)
        if rng.chance(3, 4):
            t = twin_case(rng, c)
            if t:
                cases.append(t)
    return cases


def check_impl(cases, outs, chk, st):
    fails, conv = [], 0
    for i, (c, o) in enumerate(zip(cases, outs)):
        if "crash" in o or "skipped" in o:
            raise common.MachineryError(f"harness crashed on case {i}: {o}")
        for b in predicate(c, o, chk, st):
            fails.append({"case": json_case(c), "chk": chk, **b})
        if c["kind"].endswith("twin"):
            r = convergence(cases[i - 1], outs[i - 1], c, o)
            if r is True:
                conv += 1
            elif r:
                fails.append({"case": json_case(cases[i - 1]), "twin": json_case(c), "chk": chk, **r})
    return fails, conv


def run(rep):
    tier, rng = rep.tier, Rng(rep.seed)
    cov = rep.cov
    broken = []
    # translator: the address book (is_newer, get_newer, ValidatorAddrs::update, Watch::update / announce) is regenerated from the source; Properties/C18Gen.v proves it equal to Model/AddrBook.v
    import rust2coq
    translator, gen_files = rust2coq.step(["addr_book"], ["theories/Properties/C18Gen.v"], broken)
    po = common.proof_obligations(PROP_FILES + gen_files)
    if not po["ok"]:
        broken.append("Coq obligations of Properties/C18.v: " + (po["log_tail"] or str(po["hygiene_problems"] or po["bad_axioms"])))
    for prof in ("dev", "release"):
        ok, out = common.cargo_build(["addrbook"] + (["addrloops", "addrrace"] if prof == "dev" else []), prof)
        if not ok:
            raise common.MachineryError("cargo build failed: " + out[-2000:])
    st_gen, st_res = {}, {}
    ncases = 380 if tier == "quick" else 6000
    cases = make_cases(rng, ncases, st_gen)
    jcases = [json_case(c) for c in cases]
    outs = common.run_impl("addrbook", jcases, "dev")
    pred_fail, conv = check_impl(cases, outs, True, st_res)
    # release profile (wrapping arithmetic): the cases with own announcements
    rel_ids = [i for i, c in enumerate(cases) if any("a" in o for o in c["ops"])]
    rel_cases = [cases[i] for i in rel_ids]
    rel_outs = common.run_impl("addrbook", [jcases[i] for i in rel_ids], "release")
    pf2, _ = check_impl(rel_cases, rel_outs, False, None)
    pred_fail += pf2
    coq_cases, dist, evals, kinds = [], set(), 0, {}
    n = len(cases)
    for i, (c, o) in enumerate(zip(cases, outs)):
        coq_cases.append((i, compress("cA " + coq_case(c, True)), compress(common.to_obsv(impl_obs(o)))))
        kinds[c["kind"].split(" ")[0]] = kinds.get(c["kind"].split(" ")[0], 0) + 1
        prev = []
        for op, s in zip(c["ops"], o["steps"]):
            evals += 1
            if s["book"] != prev or s["res"] != "ok":
                dist.add(json.dumps([op, prev], sort_keys=True))
            prev = s["book"]
    for j, (c, o) in enumerate(zip(rel_cases, rel_outs)):
        coq_cases.append((n + j, compress("cA " + coq_case(c, False)), compress(common.to_obsv(impl_obs(o)))))
        evals += len(o["steps"])
    # the real gossip loops (real nodes over TCP, harness = scripted peer)
    st_loops = {}
    lcases = loops.make_cases(rng, 60 if tier == "quick" else 1200, sys.modules[__name__])
    ljson = [loops.json_case(c) for c in lcases]
    louts = loops.run_impl_parallel(ljson)
    nl = n + len(rel_cases)
    lkinds = {}
    for j, (c, o) in enumerate(zip(lcases, louts)):
        if "crash" in o or "skipped" in o:
            raise common.MachineryError(f"addrloops crashed on case {j}: {o}")
        lkinds[c["kind"].split(" ")[0]] = lkinds.get(c["kind"].split(" ")[0], 0) + 1
        for b in loops.predicate(c, o, st_loops):
            pred_fail.append({"loops_case": ljson[j], **b})
        if not o.get("stuck"):
            coq_cases.append((nl + j, compress("cB " + loops.coq_case(c)), compress(common.to_obsv(loops.impl_obs(o)))))
            evals += 2 * len(o["ops"])
            for op, s_ in zip(ljson[j]["ops"], o["ops"]):
                if s_["res"] != "ok" or any(len(r) > 1 for r in s_["repush"]):
                    dist.add(json.dumps([ljson[j]["committee"], len(c["nodes"]), op], sort_keys=True))
    # concurrent use of one book from several threads (checks H-ATOM on the code)
    st_race = {}
    rcases = race.make_cases(rng, 14 if tier == "quick" else 150, 20 if tier == "quick" else 60)
    rjson = [race.json_case(c) for c in rcases]
    routs = loops.run_impl_parallel(rjson, binname="addrrace")
    nr = nl + len(lcases)
    for j, (c, o) in enumerate(zip(rcases, routs)):
        if "crash" in o or "skipped" in o:
            raise common.MachineryError(f"addrrace crashed on case {j}: {o}")
        for b in race.predicate(c, o, st_race):
            pred_fail.append({"race_case": rjson[j], **b})
        coq_cases.append((nr + j, compress("cC " + race.coq_case(c, o)), common.to_obsv(race.expected_obs(o))))
        evals += sum(len(t) for t in c["threads"]) * len(o["trials"])
        for t in o["trials"]:
            dist.add(json.dumps([rjson[j]["threads"], t["final"], [x[2] for x in t["samples"]]], sort_keys=True))
    # ... and the deterministic interleaving behind a held lock (needs proposed_hooks/C18_lock.diff)
    nd = nr + len(rcases)
    dcases, djson, douts = [], [], []
    okd, outd = common.cargo_build(["addrrace_det"], "dev")
    if okd:
        det_note = "run"
        dcases = race.det_cases(rng, 40 if tier == "quick" else 600)
        djson = [race.det_json(c) for c in dcases]
        douts = common.run_impl("addrrace_det", djson, "dev")
        for j, (c, o) in enumerate(zip(dcases, douts)):
            if "crash" in o or "skipped" in o:
                raise common.MachineryError(f"addrrace_det crashed on case {j}: {o}")
            for b in race.det_predicate(c, o):
                pred_fail.append({"det_case": djson[j], "impl": o, **b})
            coq_cases.append((nd + j, compress("cC " + race.det_coq_case(c, o)), common.to_obsv([[1], [1]])))
            evals += len(c["ops"])
            dist.add(json.dumps(djson[j], sort_keys=True))
    elif "hold_lock" in outd:
        det_note = "skipped: hook /verif/proposed_hooks/C18_lock.diff (AddrBook::hold_lock) is not applied to /repo"
    else:
        raise common.MachineryError("cargo build of addrrace_det failed: " + outd[-2000:])
    sample_ids = [0, 2, 3, 4, n, nl, nl + 1, nr]
    mm, samp = common.run_model_cases("C18", PREAMBLE, "run_any",
                                      coq_cases, shard_size=max(40, (len(coq_cases) + 15) // 16), sample_ids=sample_ids)
    if mm:
        broken.append(f"correspondence vh addrbook / addrloops / addrrace vs Model.AddrBook (run_case / run_net_case / run_lin_case): {len(mm)} disagreeing cases, ids {sorted(mm)[:6]}")

    def case_of(i):
        if i >= nd:
            return (dcases[i - nd], douts[i - nd], True)
        if i >= nr:
            return (rcases[i - nr], routs[i - nr], True)
        if i >= nl:
            return (lcases[i - nl], louts[i - nl], True)
        return (cases[i], outs[i], True) if i < n else (rel_cases[i - n], rel_outs[i - n], False)

    def jcase_of(i):
        if i >= nd:
            return djson[i - nd]
        if i >= nr:
            return rjson[i - nr]
        return ljson[i - nl] if i >= nl else json_case(case_of(i)[0])

    def key_of(i):
        return "det_case" if i >= nd else "race_case" if i >= nr else "loops_case" if i >= nl else "case"

    searched = 0
    if broken and not pred_fail:
        # violation search: a bigger run of the predicates on the implementation only
        srng = Rng(rep.seed ^ 0xC18C18)
        big = make_cases(srng, 3000 if tier == "quick" else 20000, {})
        bouts = common.run_impl("addrbook", [json_case(c) for c in big], "dev")
        pred_fail, _ = check_impl(big, bouts, True, None)
        bl = loops.make_cases(srng, 300 if tier == "quick" else 2000, sys.modules[__name__])
        blj = [loops.json_case(c) for c in bl]
        for c, cj, o in zip(bl, blj, loops.run_impl_parallel(blj)):
            for b in loops.predicate(c, o):
                pred_fail.append({"loops_case": cj, **b})
        br = race.make_cases(srng, 60 if tier == "quick" else 300, 60)
        brj = [race.json_case(c) for c in br]
        for c, cj, o in zip(br, brj, loops.run_impl_parallel(brj, binname="addrrace")):
            for b in race.predicate(c, o):
                pred_fail.append({"race_case": cj, **b})
        searched = len(big) + len(bl) + len(br)
    if pred_fail:
        rep.violation("address book violates C18 on the implementation: " + pred_fail[0]["failed"],
                      {"failing_input": pred_fail[0], "more": pred_fail[1:4], "broken": broken})
    elif broken:
        first = None
        if mm:
            i = sorted(mm)[0]
            c, o, chk = case_of(i)
            first = {key_of(i): jcase_of(i), "chk": chk, "impl": o, "model_obs": mm[i]}
        rep.violation("C18 no longer shown to hold: " + "; ".join(broken)[:500],
                      {"broken": broken, "first_disagreement": first, "searched_cases": searched}, found_input=False)
    samples = []
    for i in sample_ids:
        if i < len(coq_cases):
            c, o, chk = case_of(i)
            samples.append({"case": jcase_of(i), "overflow_checks": chk, "impl": o, "model_obs": samp.get(i)})
    cov.update({
        "obligations": po["obligations"] + 1,
        "discharged": po["discharged"] + (0 if mm else 1),
        "checker_cmd": "make -C coq theories/Properties/C18.vo + coqc on generated cases_*.v (vm_compute of Model.AddrBook.run_case / run_net_case)",
        "trusted_base": common.standard_trusted_base([
            "H-SIG: BLS signatures are modelled as terms sig(key, msg); the Rust side uses real blst signatures of pool keys, forged = really signed by another key / over another message",
            "hook zksync_consensus_network::verif::gossip::AddrBook (thin wrapper of ValidatorAddrsWatch::{update, announce, current})",
            "loops: real nodes built and run through the public Network::new / Runner::run; the scripted peer of vh addrloops hand-encodes preface, gossip handshake and rpc frames and uses the hooks verif::NoiseStream and verif::mux::{VMux, VQueue}; a node's book is read as the first push on a fresh connection",
        ]),
        "theorems": po["theorems"], "axioms": po["axioms"], "translator": translator,
        "evaluations": evals,
        "distinct_nontrivial": len(dist),
        "rule": "operation sequences (2-12 ops) on a fresh book over an 8-key pool: update batches of 0-7 announcements under committees of 1-6 keys "
                "(newer / tie same addr / tie other addr / older stamps, versions and timestamps at 0, u64::MAX, +-(i64::MAX s) boundaries, ~14% forged "
                "(other signer, signature over other addr/version/timestamp), non-member keys, duplicate keys ~8% of batches, committee changes), own announce ops "
                "(incl. at version u64::MAX-2..u64::MAX; run under both overflow profiles), 35% clean cases (valid, unique stamps); 3/4 of the update-only cases get a twin "
                "with the same announcements in another order/grouping; evaluations = operations executed (dev + release); non-trivial = distinct (operation, book before) "
                "pairs whose operation changed the book or was rejected. LOOPS: real nodes (1 non-validator node / 2 connected non-validator nodes / 1 validator node "
                "that dials) over loopback TCP with committees of 3-5 keys; 3-7 push_validator_addrs requests of 1-5 announcements sent by the scripted peer (same stamp "
                "generator, ~16% forged, non-members, duplicate keys, valid prefix + invalid tail), each followed by a barrier announcement; observed: response or "
                "closed stream, every entry each node pushes back, the TCP connections the validator node opens to announced addresses, final books; a loops "
                "operation counts as 2 evaluations (request + barrier) and is non-trivial if rejected or if it made a node push news. CONCURRENT: one real book used by "
                "2-4 OS threads at once (1-2 announcers of the node's own key, updaters with valid strictly newer batches for other keys and sometimes for the own key, "
                "2-7 operations in all, every case repeated 20 (quick) / 60 times) while a sampler thread reads the published book; every final book must be the result of some "
                "interleaving of the atomic model operations (Model.AddrBook.run_lin_case enumerates them), every published book a state some interleaving passes through; "
                "predicates: no key's stamp decreases or disappears across published versions, entries of a returned update stay unless superseded, final = newest accepted per key; "
                "non-trivial = distinct (threads, final, published sequence); DETERMINISTIC INTERLEAVING (only with hook C18_lock.diff): operations polled once behind a held lock, "
                "then released: result must equal sequential execution in poll order",
        "input_distribution": {"case_kinds": kinds, "generated": st_gen, "impl_outcomes": st_res,
                               "release_profile_cases": len(rel_cases), "convergence_pairs_checked": conv,
                               "loops_case_kinds": lkinds, "loops_outcomes": st_loops,
                               "concurrent_cases": len(rcases), "concurrent_outcomes": st_race,
                               "deterministic_interleaving_family": det_note, "deterministic_interleaving_cases": len(dcases)},
        "cases": len(coq_cases),
        "samples": samples,
        "correspondence_mismatches": len(mm), "predicate_failures": len(pred_fail),
        "partial": "book_monotone over whole histories is for overflow checks on (announce panics at u64::MAX) - without overflow checks announce wraps to version 0 "
                   "when the node's own entry has version u64::MAX (theorem announce_wrap_regresses; needs the node's own key to have signed u64::MAX); "
                   "the gossip theorems (push content, convergence, settling) are for two honest nodes with one schedule, one request in flight per direction as in the "
                   "client loop, outside traffic arbitrary; own announce ops are not part of that system (they are covered by authentic/monotone); "
                   "across a committee change the theorems are per-batch-schedule (book = newest announcement accepted while its key was a member; keys that left are frozen); "
                   "in the code a new epoch starts a new Network instance with an empty book, which is the special case of a fresh history; "
                   "atomicity of announce / update (H-ATOM) is an assumption of the theorems; it is checked on the code by the concurrent family (real threads + linearisation oracle; "
                   "the deterministic interleaving part runs only once hook proposed_hooks/C18_lock.diff is applied); "
                   "the real loops are tied by correspondence and predicates (vh addrloops), their rpc plumbing (mux, limiter, scope) is not modelled here (C14-C17)",
    })
    rep.assumptions += [
        "H-SIG: a signature verifies under key k for message m iff it is the term sig(k, m) (BLS12-381 via blst trusted)",
        "H-ADV (theorem book_honest_origin only): every signature term of an honest key occurring in any batch is one that key produced",
        "H-ATOM (all history theorems): ValidatorAddrsWatch::update and ::announce each read, modify and publish the book under the watch's sender lock, i.e. are atomic steps; "
        "this is an assumption of the model, and the concurrent family (vh addrrace: real threads, linearisation oracle; vh addrrace_det: chosen interleaving behind a held lock, "
        "needs hook C18_lock.diff) is what checks it on the code",
        "H-ATOM (gossip theorems): a served request (ValidatorAddrsWatch::update under its mutex) and the diff computation of the push loop are atomic steps; one request in flight per direction (the client awaits the response)",
    ]


def replay(path):
    d = json.load(open(path))
    fi = d.get("failing_input")
    if not fi:
        fd = d.get("first_disagreement")
        if not fd:
            print("no concrete input in replay file:", d.get("broken"))
            return 1
        fi = fd
    prof = "dev" if fi.get("chk", True) else "release"
    if "race_case" in fi:
        common.cargo_build(["addrrace"], "dev")
        c = dict(fi["race_case"]); c["trials"] = 200
        o = common.run_impl("addrrace", [c], "dev")[0]
        print("race_case", json.dumps(fi["race_case"]))
        print("recorded failure:", fi.get("failed")); print(json.dumps(fi.get("trial_obs")))
        # threads/ops in the json form: rebuild python ints for the predicate
        pc = {"pool": c["pool"], "committee": c["committee"], "self": c["self"], "trials": 200,
              "init": [[int(x) for x in e] for e in c["init"]],
              "threads": [[{"u": [[int(x) for x in e] for e in op["u"]]} if "u" in op else {"a": [int(x) for x in op["a"]]} for op in t] for t in c["threads"]]}
        bad = race.predicate(pc, o)
        print(f"re-run of 200 trials: {len(bad)} distinct predicate failures")
        for b in bad[:3]:
            print(" ", b["failed"])
        return 0
    if "det_case" in fi:
        common.cargo_build(["addrrace_det"], "dev")
        print("det_case", json.dumps(fi["det_case"]))
        print(json.dumps(common.run_impl("addrrace_det", [fi["det_case"]], "dev")[0], indent=1))
        print("predicate:", fi.get("failed"))
        return 0
    if "loops_case" in fi:
        common.cargo_build(["addrloops"], "dev")
        print("loops_case", json.dumps(fi["loops_case"]))
        print(json.dumps(common.run_impl("addrloops", [fi["loops_case"]], "dev")[0], indent=1))
        if "failed" in fi:
            print("predicate:", fi["failed"])
        if "model_obs" in fi:
            print("model:", fi["model_obs"])
        return 0
    common.cargo_build(["addrbook"], prof)
    for name in ("case", "twin"):
        if name in fi:
            print(name, json.dumps(fi[name]))
            print(json.dumps(common.run_impl("addrbook", [fi[name]], prof)[0], indent=1))
    if "failed" in fi:
        print("predicate:", fi["failed"])
    if "model_obs" in fi:
        print("model:", fi["model_obs"])
    return 0
