//! Deterministic key pools. Pool index = rank in the byte order of public keys,
//! which is all the models know about keys.
use zksync_consensus_crypto::{keccak256::Keccak256, ByteFmt};
use zksync_consensus_roles::{node, validator};

/// Validator key pool of size n, sorted by public key.
pub fn validator_pool(n: usize) -> Vec<validator::SecretKey> {
    let mut v: Vec<validator::SecretKey> = (0..n)
        .map(|i| {
            let mut b = *Keccak256::new(format!("verif-validator-{i}").as_bytes()).as_bytes();
            b[0] &= 0x3f; // below the group order
            ByteFmt::decode(&b).expect("secret key")
        })
        .collect();
    v.sort_by_key(|k| k.public());
    v
}

/// Node (ed25519) key pool of size n, sorted by public key.
pub fn node_pool(n: usize) -> Vec<node::SecretKey> {
    let mut v: Vec<node::SecretKey> = (0..n)
        .map(|i| {
            let b = *Keccak256::new(format!("verif-node-{i}").as_bytes()).as_bytes();
            ByteFmt::decode(&b).expect("node secret key")
        })
        .collect();
    v.sort_by_key(|k| k.public());
    v
}

/// Rank of a validator public key in the pool.
pub fn rank(pool: &[validator::SecretKey], k: &validator::PublicKey) -> i64 {
    pool.iter()
        .position(|s| &s.public() == k)
        .map(|i| i as i64)
        .unwrap_or(-1)
}
