//! Shared by the C15 binaries (limiter, limiter_mux): every case runs on its own thread with its own
//! current-thread tokio runtime, under a real-time watchdog.  A case that does not finish in time is
//! reported as {"hang": true} and its thread is abandoned (never joined, never dropped: a pending
//! `scope::run!` future must not be dropped); the process leaves through `process::exit`.
//! The wall clock is used for the watchdog only; no observation depends on it.
use serde_json::{json, Value};
use std::future::Future;
use std::pin::Pin;
use std::sync::mpsc;
use std::time::Duration;
use vh::util::*;

/// Real-time bound per case (seconds); VERIF_CASE_TIMEOUT overrides.
pub fn case_timeout() -> Duration {
    let s = std::env::var("VERIF_CASE_TIMEOUT")
        .ok()
        .and_then(|v| v.parse::<u64>().ok())
        .unwrap_or(60);
    Duration::from_secs(s.max(1))
}

/// After this many hangs in one process the remaining cases are not attempted.
const MAX_HANGS: usize = 3;

pub type CaseFut = Pin<Box<dyn Future<Output = Value>>>;

/// Runs `f(case)` for every case read from stdin, one output line per case.
pub fn main_loop(f: fn(Value) -> CaseFut) -> ! {
    quiet_panics();
    let limit = case_timeout();
    let mut hangs = 0usize;
    for c in read_cases() {
        if hangs >= MAX_HANGS {
            write_line(&json!({"hang": true, "not_attempted": true}));
            continue;
        }
        let (tx, rx) = mpsc::channel();
        let spawned = std::thread::Builder::new()
            .name("case".into())
            .spawn(move || {
                let r = catch(std::panic::AssertUnwindSafe(|| {
                    let rt = tokio::runtime::Builder::new_current_thread()
                        .enable_all()
                        .build()
                        .unwrap();
                    let v = rt.block_on(f(c));
                    // leftover tasks (context propagation) are dropped with the runtime
                    drop(rt);
                    v
                }));
                let _ = tx.send(r);
            });
        if spawned.is_err() {
            write_line(&json!({"panic": "could not spawn the case thread"}));
            continue;
        }
        match rx.recv_timeout(limit) {
            Ok(Ok(v)) => write_line(&v),
            Ok(Err(m)) => write_line(&json!({ "panic": m })),
            Err(mpsc::RecvTimeoutError::Timeout) => {
                hangs += 1;
                write_line(&json!({"hang": true, "seconds": limit.as_secs()}));
            }
            Err(mpsc::RecvTimeoutError::Disconnected) => {
                write_line(&json!({"panic": "case thread ended without a result"}));
            }
        }
    }
    use std::io::Write;
    let _ = std::io::stdout().flush();
    // abandoned threads (hung cases) must not keep the process alive
    std::process::exit(0)
}
