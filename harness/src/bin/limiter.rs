//! C15: the real `zksync_concurrency::limiter::Limiter` under `ctx::ManualClock`, driven by a script.
//!
//! input: {"burst":"..","refresh":"<ns, signed>","start":"<ns>",
//!         "ops":[["acq","<permits>","fut"|"ctx"],["cancel",k],["drop",k],["adv","<ns>"],["advx","<ns>"]]}
//! "advx" advances the clock without polling anything before the next op (the woken waiter oversleeps).
//! `k` is the index of the k-th "acq" op.  "fut" acquires are cancelled by dropping the future,
//! "ctx" acquires by cancelling their context (a child context whose parent lives on a private
//! manual clock; advancing that clock past the parent's deadline cancels it without touching
//! the clock the limiter sees).
//!
//! After every op all acquire futures are driven to quiescence: a future is polled when (and only
//! when) its waker fired; between rounds the tokio runtime is yielded to so that the context
//! cancellation propagation tasks run.
//!
//! output: {"grants":[[k,"<ns>"]...] in completion order, "status":[..] per acquire
//!          (0 pending, 1 granted+held, 2 granted+dropped, 3 cancelled),
//!          "events":[[kind,k,"<ns>"]...] kind 0 grant, 1 drop, 2 acquire returned Canceled, 3 future dropped,
//!          "now":"<ns>"}
use serde_json::{json, Value};
use std::future::Future;
use std::pin::Pin;
use std::sync::atomic::{AtomicBool, Ordering};
use std::sync::Arc;
use std::task::{Context, Poll, Wake, Waker};
use vh::util::*;
use zksync_concurrency::{ctx, limiter, time};

struct Flag(AtomicBool);
impl Wake for Flag {
    fn wake(self: Arc<Self>) {
        self.0.store(true, Ordering::SeqCst);
    }
    fn wake_by_ref(self: &Arc<Self>) {
        self.0.store(true, Ordering::SeqCst);
    }
}

fn i128_of(v: &Value) -> i128 {
    match v {
        Value::Number(n) => n.as_i64().expect("int") as i128,
        Value::String(s) => s.parse().expect("int string"),
        _ => panic!("i128_of: {v}"),
    }
}

fn dur(ns: i128) -> time::Duration {
    time::Duration::new((ns / 1_000_000_000) as i64, (ns % 1_000_000_000) as i32)
}

const FAR_NS: i128 = 1 << 61;

/// Bound on the polling rounds of one drain (each round polls only futures whose waker fired).
const MAX_DRAIN_ROUNDS: usize = 100_000;

type AcqFut<'a> = Pin<Box<dyn Future<Output = ctx::OrCanceled<limiter::Permit<'a>>> + 'a>>;

async fn run_case(c: &Value) -> Value {
    if c["test_hang"].as_bool() == Some(true) {
        // self-test of the watchdog only
        std::future::pending::<()>().await;
    }
    let clock = ctx::ManualClock::new();
    let t0 = clock.now();
    let root = ctx::test_root(&clock);
    let burst = u64_of(&c["burst"]) as usize;
    let refresh = i128_of(&c["refresh"]);
    let start = i128_of(&c["start"]);
    let ops = c["ops"].as_array().unwrap();
    clock.advance(dur(start));
    let lim = limiter::Limiter::new(
        &root,
        limiter::Rate {
            burst,
            refresh: dur(refresh),
        },
    );
    // contexts of all acquire calls, created up front
    let mut cancel_clocks: Vec<Option<ctx::ManualClock>> = vec![];
    let mut ctxs: Vec<ctx::Ctx> = vec![];
    for o in ops {
        if o[0].as_str() == Some("acq") {
            if o[2].as_str() == Some("ctx") {
                let ck = ctx::ManualClock::new();
                let a = ctx::test_with_clock(&root, &ck);
                let b = a.with_deadline(time::Deadline::Finite(ck.now() + dur(FAR_NS)));
                ctxs.push(ctx::test_with_clock(&b, &clock));
                cancel_clocks.push(Some(ck));
            } else {
                ctxs.push(ctx::test_root(&clock));
                cancel_clocks.push(None);
            }
        }
    }
    let ctxs = ctxs;
    let lim = &lim;
    let n = ctxs.len();
    let mut permits: Vec<Option<limiter::Permit<'_>>> = (0..n).map(|_| None).collect();
    let mut futs: Vec<Option<AcqFut<'_>>> = (0..n).map(|_| None).collect();
    let flags: Vec<Arc<Flag>> = (0..n)
        .map(|_| Arc::new(Flag(AtomicBool::new(false))))
        .collect();
    let mut status = vec![0i64; n];
    let mut grants: Vec<Value> = vec![];
    let mut events: Vec<Value> = vec![];
    let mut started = 0usize;
    let mut livelock = false;
    let now_ns = |clock: &ctx::ManualClock| (clock.now() - t0).whole_nanoseconds();

    for o in ops {
        match o[0].as_str().unwrap() {
            "acq" => {
                let k = started;
                started += 1;
                let p = u64_of(&o[1]) as usize;
                futs[k] = Some(Box::pin(lim.acquire(&ctxs[k], p)));
                flags[k].0.store(true, Ordering::SeqCst);
            }
            "cancel" => {
                let k = o[1].as_u64().unwrap() as usize;
                if k < started && futs[k].is_some() {
                    match &cancel_clocks[k] {
                        Some(ck) => ck.advance(dur(FAR_NS + 1)),
                        None => {
                            futs[k] = None;
                            status[k] = 3;
                            events.push(json!([3, k, now_ns(&clock).to_string()]));
                        }
                    }
                }
            }
            "drop" => {
                let k = o[1].as_u64().unwrap() as usize;
                if k < started && permits[k].is_some() {
                    permits[k] = None;
                    status[k] = 2;
                    events.push(json!([1, k, now_ns(&clock).to_string()]));
                }
            }
            "adv" | "advx" => {
                clock.advance(dur(i128_of(&o[1])));
            }
            x => panic!("bad op {x}"),
        }
        // "advx": the clock moved but nobody is polled before the next op (late wake-up of the sleeper)
        if o[0].as_str() == Some("advx") {
            continue;
        }
        // drive to quiescence (bounded: a future that keeps waking itself is reported, not awaited)
        let mut idle_rounds = 0;
        let mut rounds = 0usize;
        while idle_rounds < 2 {
            rounds += 1;
            if rounds > MAX_DRAIN_ROUNDS {
                livelock = true;
                break;
            }
            for _ in 0..4 {
                tokio::task::yield_now().await;
            }
            let mut polled = false;
            for k in 0..started {
                if futs[k].is_none() || !flags[k].0.swap(false, Ordering::SeqCst) {
                    continue;
                }
                polled = true;
                let waker = Waker::from(flags[k].clone());
                let mut cx = Context::from_waker(&waker);
                match futs[k].as_mut().unwrap().as_mut().poll(&mut cx) {
                    Poll::Pending => {}
                    Poll::Ready(Ok(permit)) => {
                        futs[k] = None;
                        permits[k] = Some(permit);
                        status[k] = 1;
                        let t = now_ns(&clock).to_string();
                        grants.push(json!([k, t]));
                        events.push(json!([0, k, t]));
                    }
                    Poll::Ready(Err(ctx::Canceled)) => {
                        futs[k] = None;
                        status[k] = 3;
                        events.push(json!([2, k, now_ns(&clock).to_string()]));
                    }
                }
            }
            if polled {
                idle_rounds = 0;
            } else {
                idle_rounds += 1;
            }
        }
        if livelock {
            break;
        }
    }
    let out = if livelock {
        json!({"hang": true, "livelock": true, "rounds": MAX_DRAIN_ROUNDS})
    } else {
        json!({"grants": grants, "status": status, "events": events, "now": now_ns(&clock).to_string()})
    };
    // futures first (they hold the acquire lock guard), then permits, then contexts / limiter.
    drop(futs);
    drop(permits);
    out
}

#[path = "../limiter_util.rs"]
mod u;

fn case(c: Value) -> u::CaseFut {
    Box::pin(async move { run_case(&c).await })
}

fn main() {
    u::main_loop(case)
}
