//! C08: the real EngineManager + EngineManagerRunner over a scripted EngineInterface.
//!
//! input (one JSON object per line):
//!  {"first_block": n, "cap": 100, "init": [first, last|null],
//!   "blocks": [{"kind":"final"|"pre","number":n,"variant":v,"epoch":e,"corrupt":"none"|..}, ...],
//!   "ops": [{"op":"queue","id":i,"b":idx} | {"op":"poll","id":i} | {"op":"cancel","id":i} |
//!           {"op":"persist","ps":[[first,last|null],...]} | {"op":"gate","k":-1|n} |
//!           {"op":"restart"} | {"op":"read","ns":[..]}]}
//! output: {"init": bool, "ops": [{"res":[..],"queued":[f,l|null],"persisted":[..],"head":h,
//!           "alive":bool,"submits":[{"idx","num","env_next"}],"reads":[{"n","code","idx"|"num"}]}]}
//!
//! queue_block futures are polled explicitly (one poll per "queue"/"poll" op) with a no-op
//! waker, so the interleaving of concurrent callers is the script's. After every op the
//! current_thread runtime is drained (the runner's watcher and persister tasks run to
//! quiescence). `queue_next_block` records the call, then waits for a permit.
use std::{
    collections::{BTreeMap, HashMap},
    future::Future,
    pin::Pin,
    sync::{
        atomic::{AtomicBool, AtomicU64, Ordering},
        Arc, Mutex,
    },
    task::{Context, Poll, Wake, Waker},
};

use serde_json::{json, Value};
use vh::{keys, util::*};
use zksync_concurrency::{ctx, scope, sync, time};
use zksync_consensus_engine::{
    BlockStoreState, EngineInterface, EngineManager, Last, Transaction,
};
use zksync_consensus_roles::validator::{self, v2};

// ---------------------------------------------------------------------------
// world: genesis, committees, block construction

#[derive(Debug)]
struct World {
    genesis: validator::Genesis,
    /// committees[0] is the genesis committee (static mode); committee ids of the cases index this
    committees: Vec<Vec<validator::SecretKey>>,
    schedules: Vec<validator::Schedule>,
}

fn schedule(keys: &[validator::SecretKey]) -> validator::Schedule {
    validator::Schedule::new(
        keys.iter().map(|k| validator::ValidatorInfo {
            key: k.public(),
            weight: 1,
            leader: true,
        }),
        validator::LeaderSelection {
            frequency: 1,
            mode: validator::LeaderSelectionMode::RoundRobin,
        },
    )
    .unwrap()
}

impl World {
    fn new(pool: &[validator::SecretKey], first_block: u64, dynamic: bool) -> Self {
        let committees: Vec<Vec<_>> = pool.chunks(3).map(|c| c.to_vec()).collect();
        let schedules: Vec<_> = committees.iter().map(|c| schedule(c)).collect();
        let genesis = validator::GenesisRaw {
            chain_id: validator::ChainId(1337),
            fork_number: validator::ForkNumber(0),
            protocol_version: validator::ProtocolVersion::CURRENT,
            first_block: validator::BlockNumber(first_block),
            validators_schedule: if dynamic { None } else { Some(schedules[0].clone()) },
        }
        .with_hash();
        Self {
            genesis,
            committees,
            schedules,
        }
    }

    fn committee_id(&self, s: &validator::Schedule) -> i64 {
        self.schedules
            .iter()
            .position(|x| x == s)
            .map(|i| i as i64)
            .unwrap_or(-1)
    }

    fn dummy_qc(&self, number: u64, epoch: u64) -> v2::CommitQC {
        let payload = validator::Payload(format!("side-{number}").into_bytes());
        v2::CommitQC::new(
            v2::ReplicaCommit {
                view: v2::View {
                    genesis: self.genesis.hash(),
                    number: validator::ViewNumber(number),
                    epoch: validator::EpochNumber(epoch),
                },
                proposal: v2::BlockHeader {
                    number: validator::BlockNumber(number),
                    payload: payload.hash(),
                },
            },
            &self.schedules[0],
        )
    }

    /// `Last` describing a durable head at `number` (never verified by the manager).
    fn last(&self, number: u64, epoch: u64) -> Last {
        if number < self.genesis.first_block.0 {
            Last::PreGenesis(validator::BlockNumber(number))
        } else {
            Last::FinalV2(self.dummy_qc(number, epoch))
        }
    }

    fn state(&self, v: &Value) -> BlockStoreState {
        BlockStoreState {
            first: validator::BlockNumber(u64_of(&v[0])),
            last: if v[1].is_null() {
                None
            } else {
                Some(self.last(u64_of(&v[1]), v.get(2).map(u64_of).unwrap_or(0)))
            },
        }
    }

    /// A block written to durable storage through a side channel (never went through the manager).
    fn side_block(&self, number: u64) -> validator::Block {
        let payload = validator::Payload(format!("side-{number}").into_bytes());
        if number < self.genesis.first_block.0 {
            validator::PreGenesisBlock {
                number: validator::BlockNumber(number),
                payload,
                justification: validator::Justification(b"ok".to_vec()),
            }
            .into()
        } else {
            v2::FinalBlock {
                payload,
                justification: self.dummy_qc(number, 0),
            }
            .into()
        }
    }

    fn build(&self, spec: &Value) -> validator::Block {
        let number = u64_of(&spec["number"]);
        let kind = spec["kind"].as_str().unwrap();
        let corrupt = spec["corrupt"].as_str().unwrap();
        let epoch = u64_of(&spec["epoch"]);
        let tag = spec_tag(spec);
        let payload = validator::Payload(tag.clone().into_bytes());
        if kind == "pre" {
            return validator::PreGenesisBlock {
                number: validator::BlockNumber(number),
                payload,
                justification: validator::Justification(
                    if corrupt == "none" { b"ok".to_vec() } else { b"bad".to_vec() },
                ),
            }
            .into();
        }
        let genesis_hash = if corrupt == "genesis" {
            let mut raw: validator::GenesisRaw = (*self.genesis).clone();
            raw.fork_number = validator::ForkNumber(77);
            raw.with_hash().hash()
        } else {
            self.genesis.hash()
        };
        let msg = v2::ReplicaCommit {
            view: v2::View {
                genesis: genesis_hash,
                number: validator::ViewNumber(number.wrapping_mul(3).wrapping_add(1)),
                epoch: validator::EpochNumber(epoch),
            },
            proposal: v2::BlockHeader {
                number: validator::BlockNumber(number),
                payload: payload.hash(),
            },
        };
        let signed_msg = if corrupt == "sig" {
            let mut m = msg.clone();
            m.view.number = validator::ViewNumber(m.view.number.0 + 1);
            m
        } else {
            msg.clone()
        };
        let keys: &[validator::SecretKey] = &self.committees[signer_of(spec)];
        let nsign = if corrupt == "few" { 2 } else { 3 };
        let nbits = if corrupt == "signers_len" { 4 } else { 3 };
        let mut signers = v2::Signers::new(nbits);
        let mut sig = validator::AggregateSignature::default();
        for (i, k) in keys.iter().enumerate().take(nsign) {
            signers.0.set(i, true);
            sig.add(&k.sign_msg(signed_msg.clone()).sig);
        }
        let payload = if corrupt == "hash" {
            validator::Payload(format!("{tag}#").into_bytes())
        } else {
            payload
        };
        v2::FinalBlock {
            payload,
            justification: v2::CommitQC {
                message: msg,
                signers,
                signature: sig,
            },
        }
        .into()
    }
}

/// Committee whose members sign the certificate ("committee" corruption = committee 1).
fn signer_of(spec: &Value) -> usize {
    match spec.get("signer").and_then(|v| v.as_u64()) {
        Some(i) => i as usize,
        None => {
            if spec["corrupt"].as_str() == Some("committee") {
                1
            } else {
                0
            }
        }
    }
}

fn spec_tag(spec: &Value) -> String {
    format!(
        "b-{}-{}-{}-{}-{}-{}",
        spec["kind"].as_str().unwrap(),
        u64_of(&spec["number"]),
        u64_of(&spec["variant"]),
        u64_of(&spec["epoch"]),
        spec["corrupt"].as_str().unwrap(),
        signer_of(spec)
    )
}

fn payload_of(b: &validator::Block) -> Vec<u8> {
    match b {
        validator::Block::PreGenesis(b) => b.payload.0.clone(),
        validator::Block::FinalV2(b) => b.payload.0.clone(),
    }
}

// ---------------------------------------------------------------------------
// scripted persistence layer

#[derive(Debug)]
struct Inner {
    world: Arc<World>,
    genesis: validator::Genesis,
    persisted: sync::watch::Sender<BlockStoreState>,
    /// durable content that went through queue_next_block; every other number of the
    /// durable range holds a side-channel block (synthesised on demand)
    durable: Mutex<BTreeMap<u64, validator::Block>>,
    /// latest block handed to queue_next_block per number
    submitted: Mutex<BTreeMap<u64, validator::Block>>,
    /// every queue_next_block call with persisted.next at that moment
    log: Mutex<Vec<(validator::Block, u64)>>,
    permits: Mutex<i64>,
    notify: tokio::sync::Notify,
    get_calls: AtomicU64,
    /// scripted answers of get_validator_schedule / get_pending_validator_schedule:
    /// (committee id, activation block)
    vs: Mutex<(usize, u64)>,
    pending: Mutex<Option<(usize, u64)>>,
    /// calls of the two: (1 | 2, number argument)
    sched_calls: Mutex<Vec<(u8, u64)>>,
    /// the runner's clock: fetch_schedule_interval (1 s) elapses only on "tick" ops
    clock: ctx::ManualClock,
}

#[derive(Debug, Clone)]
struct Eng(Arc<Inner>);

#[async_trait::async_trait]
impl EngineInterface for Eng {
    async fn genesis(&self, _ctx: &ctx::Ctx) -> ctx::Result<validator::Genesis> {
        Ok(self.0.genesis.clone())
    }
    async fn get_validator_schedule(
        &self,
        _ctx: &ctx::Ctx,
        number: validator::BlockNumber,
    ) -> ctx::Result<(validator::Schedule, validator::BlockNumber)> {
        self.0.sched_calls.lock().unwrap().push((1, number.0));
        let (cid, act) = *self.0.vs.lock().unwrap();
        Ok((
            self.0.world.schedules[cid].clone(),
            validator::BlockNumber(act),
        ))
    }
    async fn get_pending_validator_schedule(
        &self,
        _ctx: &ctx::Ctx,
        number: validator::BlockNumber,
    ) -> ctx::Result<Option<(validator::Schedule, validator::BlockNumber)>> {
        self.0.sched_calls.lock().unwrap().push((2, number.0));
        Ok(self
            .0
            .pending
            .lock()
            .unwrap()
            .map(|(cid, act)| (self.0.world.schedules[cid].clone(), validator::BlockNumber(act))))
    }
    fn persisted(&self) -> sync::watch::Receiver<BlockStoreState> {
        self.0.persisted.subscribe()
    }
    async fn get_block(
        &self,
        _ctx: &ctx::Ctx,
        number: validator::BlockNumber,
    ) -> ctx::Result<validator::Block> {
        self.0.get_calls.fetch_add(1, Ordering::SeqCst);
        if !self.0.persisted.borrow().contains(number) {
            return Err(anyhow::format_err!("not found").into());
        }
        Ok(match self.0.durable.lock().unwrap().get(&number.0) {
            Some(b) => b.clone(),
            None => self.0.world.side_block(number.0),
        })
    }
    async fn queue_next_block(&self, ctx: &ctx::Ctx, block: validator::Block) -> ctx::Result<()> {
        let env_next = self.0.persisted.borrow().next().0;
        self.0
            .submitted
            .lock()
            .unwrap()
            .insert(block.number().0, block.clone());
        let storm = {
            let mut log = self.0.log.lock().unwrap();
            log.push((block, env_next));
            log.len() >= MAX_SUBMITS
        };
        if storm {
            // runaway persister (only under a broken manager): stop feeding it
            ctx.wait(std::future::pending::<()>()).await?;
        }
        loop {
            let notified = self.0.notify.notified();
            {
                let mut p = self.0.permits.lock().unwrap();
                if *p != 0 {
                    if *p > 0 {
                        *p -= 1;
                    }
                    return Ok(());
                }
            }
            ctx.wait(notified).await?;
        }
    }
    async fn verify_pregenesis_block(
        &self,
        _ctx: &ctx::Ctx,
        block: &validator::PreGenesisBlock,
    ) -> ctx::Result<()> {
        if block.justification.0 == b"ok" {
            Ok(())
        } else {
            Err(anyhow::format_err!("invalid pre-genesis block").into())
        }
    }
    async fn verify_payload(
        &self,
        _ctx: &ctx::Ctx,
        _number: validator::BlockNumber,
        _payload: &validator::Payload,
    ) -> ctx::Result<()> {
        Ok(())
    }
    async fn propose_payload(
        &self,
        _ctx: &ctx::Ctx,
        _number: validator::BlockNumber,
    ) -> ctx::Result<validator::Payload> {
        Ok(validator::Payload(vec![]))
    }
    async fn get_state(&self, _ctx: &ctx::Ctx) -> ctx::Result<validator::ReplicaState> {
        Ok(validator::ReplicaState::default())
    }
    async fn set_state(&self, _ctx: &ctx::Ctx, _state: &validator::ReplicaState) -> ctx::Result<()> {
        Ok(())
    }
    async fn push_tx(&self, _ctx: &ctx::Ctx, _tx: Transaction) -> ctx::Result<bool> {
        Ok(false)
    }
}

impl Eng {
    /// The persistence layer publishes a new durable range; newly covered numbers get the
    /// block that was submitted for them, or a side-channel block.
    fn publish(&self, new: BlockStoreState) {
        let old_next = self.0.persisted.borrow().next().0;
        let new_next = new.next().0;
        {
            let mut d = self.0.durable.lock().unwrap();
            let sub = self.0.submitted.lock().unwrap();
            let lo = old_next.max(new.first.0);
            if lo < new_next {
                for (n, b) in sub.range(lo..new_next) {
                    d.insert(*n, b.clone());
                }
            }
            let first = new.first.0;
            d.retain(|k, _| *k >= first);
        }
        self.0.persisted.send_replace(new);
    }
}

// ---------------------------------------------------------------------------
// one incarnation of the manager

type CallFut = Pin<Box<dyn Future<Output = ctx::Result<()>> + Send>>;

struct Incarnation {
    mgr: Arc<EngineManager>,
    stop: Option<tokio::sync::oneshot::Sender<()>>,
    handle: Option<tokio::task::JoinHandle<()>>,
    dead: Arc<AtomicBool>,
    calls: BTreeMap<i64, CallFut>,
}

impl Incarnation {
    /// EngineManager::new; the runner is spawned by `spawn_runner`.
    async fn new(
        eng: &Eng,
    ) -> Result<(Self, zksync_consensus_engine::EngineManagerRunner), String> {
        let ctx = ctx::test_root(&eng.0.clock);
        let (mgr, runner) =
            EngineManager::new(&ctx, Box::new(eng.clone()), time::Duration::seconds(1))
                .await
                .map_err(|e| format!("{e:?}"))?;
        Ok((
            Self {
                mgr,
                stop: None,
                handle: None,
                dead: Arc::new(AtomicBool::new(false)),
                calls: BTreeMap::new(),
            },
            runner,
        ))
    }

    fn spawn_runner(
        &mut self,
        clock: ctx::ManualClock,
        runner: zksync_consensus_engine::EngineManagerRunner,
    ) {
        let (stop_tx, stop_rx) = tokio::sync::oneshot::channel::<()>();
        let dead = self.dead.clone();
        self.stop = Some(stop_tx);
        self.handle = Some(tokio::spawn(async move {
            let ctx = ctx::test_root(&clock);
            let _: anyhow::Result<()> = scope::run!(&ctx, |ctx, s| async move {
                s.spawn_bg(async move {
                    if runner.run(ctx).await.is_err() {
                        dead.store(true, Ordering::SeqCst);
                    }
                    Ok(())
                });
                let _ = stop_rx.await;
                Ok(())
            })
            .await;
        }));
    }

    async fn shutdown(mut self) {
        self.calls.clear();
        let trace = std::env::var("VH_TRACE").is_ok();
        if let Some(s) = self.stop.take() {
            let r = s.send(());
            if trace {
                eprintln!("stop sent: {r:?}");
            }
        }
        if let Some(h) = self.handle.take() {
            let r = h.await;
            if trace {
                eprintln!("runner joined: {r:?}");
            }
        }
    }
}

/// Bound on recorded queue_next_block calls per case (a correct manager submits each
/// number at most once per incarnation; the generator stays far below this).
const MAX_SUBMITS: usize = 4000;

struct Noop;
impl Wake for Noop {
    fn wake(self: Arc<Self>) {}
}

async fn drain() {
    for _ in 0..48 {
        tokio::task::yield_now().await;
    }
}

fn err_code(e: &ctx::Error) -> i64 {
    let s = format!("{e:#}");
    if s.contains("external justification is allowed only") {
        1
    } else if s.contains("verify_pregenesis_block()") {
        2
    } else if s.contains("epoch schedule is not available") {
        3
    } else if s.contains("block_v2.verify()") {
        4
    } else {
        99
    }
}

fn poll_call(inc: &mut Incarnation, id: i64) -> Value {
    let waker = Waker::from(Arc::new(Noop));
    let mut cx = Context::from_waker(&waker);
    let Some(f) = inc.calls.get_mut(&id) else {
        return json!([9]);
    };
    match f.as_mut().poll(&mut cx) {
        Poll::Pending => json!([0]),
        Poll::Ready(Ok(())) => {
            inc.calls.remove(&id);
            json!([1])
        }
        Poll::Ready(Err(e)) => {
            inc.calls.remove(&id);
            json!([2, err_code(&e)])
        }
    }
}

/// (committee id, activation) from a JSON pair; None for null / absent.
fn pair_of(v: Option<&Value>) -> Option<(usize, u64)> {
    let v = v?;
    if v.is_null() {
        return None;
    }
    Some((v[0].as_u64().unwrap() as usize, u64_of(&v[1])))
}

fn take_calls(eng: &Eng) -> Value {
    let calls: Vec<_> = eng.0.sched_calls.lock().unwrap().drain(..).collect();
    json!(calls
        .iter()
        .map(|(k, n)| json!([k, n.to_string()]))
        .collect::<Vec<_>>())
}

/// The epoch-schedule map as `validator_schedule(e)` reports it for e < 32.
fn map_json(w: &World, mgr: &EngineManager) -> Value {
    let mut out = vec![];
    for e in 0..32u64 {
        if let Some(s) = mgr.validator_schedule(validator::EpochNumber(e)) {
            out.push(json!([
                e,
                w.committee_id(&s.schedule),
                s.activation_block.0.to_string(),
                s.expiration_block.map(|b| b.0.to_string())
            ]));
        }
    }
    json!(out)
}

fn state_json(s: &BlockStoreState) -> Value {
    json!([s.first.0.to_string(), s.last.as_ref().map(|l| l.number().0.to_string())])
}

async fn run_case(
    pool: &[validator::SecretKey],
    cache: &mut HashMap<String, validator::Block>,
    c: &Value,
) -> Value {
    let first_block = u64_of(&c["first_block"]);
    let cap = c["cap"].as_i64().unwrap_or(100) as i128;
    let dynamic = c.get("dynamic").and_then(|v| v.as_bool()).unwrap_or(false);
    let w = Arc::new(World::new(pool, first_block, dynamic));
    // blocks of the case
    let mut blocks = vec![];
    let mut by_payload: HashMap<Vec<u8>, i64> = HashMap::new();
    for (i, spec) in c["blocks"].as_array().unwrap().iter().enumerate() {
        let key = format!("{first_block}/{dynamic}/{}", spec_tag(spec));
        let b = cache.entry(key).or_insert_with(|| w.build(spec)).clone();
        by_payload.insert(payload_of(&b), i as i64);
        blocks.push(b);
    }
    let init = w.state(&c["init"]);
    let eng = Eng(Arc::new(Inner {
        world: w.clone(),
        genesis: w.genesis.clone(),
        persisted: sync::watch::channel(init.clone()).0,
        durable: Mutex::default(),
        submitted: Mutex::default(),
        log: Mutex::default(),
        permits: Mutex::new(-1),
        notify: tokio::sync::Notify::new(),
        get_calls: AtomicU64::new(0),
        vs: Mutex::new(pair_of(c.get("vs")).unwrap_or((0, first_block))),
        pending: Mutex::new(pair_of(c.get("pending"))),
        sched_calls: Mutex::default(),
        clock: ctx::ManualClock::new(),
    }));
    let mut inc = match Incarnation::new(&eng).await {
        Ok((mut inc, runner)) => {
            inc.spawn_runner(eng.0.clock.clone(), runner);
            inc
        }
        Err(_) => return json!({"init": false, "ops": []}),
    };
    drain().await;
    let start = json!({"calls": take_calls(&eng), "map": map_json(&w, &inc.mgr)});
    let mut out = vec![];
    let rctx = ctx::root();
    let trace = std::env::var("VH_TRACE").is_ok();
    for op in c["ops"].as_array().unwrap() {
        let log_before = eng.0.log.lock().unwrap().len();
        let mut extra: Vec<i128> = vec![];
        let mut vres = json!([]);
        let res = match op["op"].as_str().unwrap() {
            "queue" => {
                let id = op["id"].as_i64().unwrap();
                let b = blocks[op["b"].as_u64().unwrap() as usize].clone();
                let m = inc.mgr.clone();
                let fut: CallFut = Box::pin(async move {
                    let ctx = ctx::root();
                    m.queue_block(&ctx, b).await
                });
                inc.calls.insert(id, fut);
                poll_call(&mut inc, id)
            }
            "poll" => poll_call(&mut inc, op["id"].as_i64().unwrap()),
            "cancel" => {
                inc.calls.remove(&op["id"].as_i64().unwrap());
                json!([])
            }
            "persist" => {
                for p in op["ps"].as_array().unwrap() {
                    eng.publish(w.state(p));
                }
                json!([])
            }
            "gate" => {
                *eng.0.permits.lock().unwrap() = op["k"].as_i64().unwrap();
                eng.0.notify.notify_waiters();
                json!([])
            }
            "restart" => match Incarnation::new(&eng).await {
                Ok((new_inc, runner)) => {
                    let old = std::mem::replace(&mut inc, new_inc);
                    old.shutdown().await;
                    if trace {
                        eprintln!("old incarnation down");
                    }
                    inc.spawn_runner(eng.0.clock.clone(), runner);
                    if trace {
                        eprintln!("new runner spawned");
                    }
                    json!([1])
                }
                Err(_) => json!([0]),
            },
            "read" => {
                for n in op["ns"].as_array().unwrap() {
                    extra.push(u64_of(n) as i128);
                }
                json!([])
            }
            "tick" => {
                eng.0.clock.advance(time::Duration::seconds(1));
                json!([])
            }
            "pending" => {
                *eng.0.pending.lock().unwrap() = pair_of(op.get("p"));
                json!([])
            }
            "vs" => {
                *eng.0.vs.lock().unwrap() = pair_of(op.get("p")).unwrap();
                json!([])
            }
            "vpayload" => {
                let r = inc
                    .mgr
                    .verify_payload(
                        &rctx,
                        validator::BlockNumber(u64_of(&op["n"])),
                        validator::EpochNumber(u64_of(&op["e"])),
                        &validator::Payload(vec![]),
                    )
                    .await;
                vres = match r {
                    Ok(()) => json!([0]),
                    Err(e) if format!("{e:#}").contains("does not belong to epoch") => json!([1]),
                    Err(_) => json!([2]),
                };
                json!([])
            }
            other => panic!("unknown op {other}"),
        };
        if trace {
            eprintln!("op done: {op}");
        }
        drain().await;
        if trace {
            eprintln!("drained");
        }
        let q = inc.mgr.queued();
        let p = inc.mgr.persisted();
        let head = inc.mgr.head();
        let submits: Vec<Value> = eng.0.log.lock().unwrap()[log_before..]
            .iter()
            .map(|(b, env_next)| {
                json!({"idx": by_payload.get(&payload_of(b)).copied().unwrap_or(-1),
                       "num": b.number().0.to_string(), "env_next": env_next.to_string()})
            })
            .collect();
        let (qf, qn, pf, pn) = (
            q.first.0 as i128,
            q.next().0 as i128,
            p.first.0 as i128,
            p.next().0 as i128,
        );
        let mut probes: Vec<i128> = vec![
            qf - 1,
            qf,
            pf,
            pn - 1,
            pn,
            qn - 1,
            qn,
            qn - cap - 1,
            qn - cap,
            qn - cap + 1,
        ];
        probes.retain(|n| *n >= 0);
        probes.extend(extra);
        let mut reads = vec![];
        for n in probes {
            let before = eng.0.get_calls.load(Ordering::SeqCst);
            let r = inc
                .mgr
                .get_block(&rctx, validator::BlockNumber(n as u64))
                .await;
            let after = eng.0.get_calls.load(Ordering::SeqCst);
            if trace {
                eprintln!("read {n}");
            }
            reads.push(match r {
                Ok(None) => json!({"n": n.to_string(), "code": 0}),
                Ok(Some(b)) if after == before => json!({"n": n.to_string(), "code": 1,
                    "idx": by_payload.get(&payload_of(&b)).copied().unwrap_or(-1),
                    "num": b.number().0.to_string()}),
                Ok(Some(b)) => json!({"n": n.to_string(), "code": 2,
                    "idx": by_payload.get(&payload_of(&b)).copied().unwrap_or(-1),
                    "num": b.number().0.to_string()}),
                Err(_) => json!({"n": n.to_string(), "code": 3}),
            });
        }
        out.push(json!({
            "res": res, "queued": state_json(&q), "persisted": state_json(&p),
            "head": head.0.to_string(), "alive": !inc.dead.load(Ordering::SeqCst),
            "pending": inc.calls.keys().collect::<Vec<_>>(),
            "calls": take_calls(&eng), "map": map_json(&w, &inc.mgr), "vres": vres,
            "submits": submits, "reads": reads,
        }));
    }
    inc.shutdown().await;
    json!({"init": true, "start": start, "ops": out})
}

fn now_ms() -> u64 {
    std::time::SystemTime::now()
        .duration_since(std::time::UNIX_EPOCH)
        .unwrap()
        .as_millis() as u64
}

fn main() {
    if std::env::var("VH_LOUD_PANICS").is_err() {
        quiet_panics();
    }
    let pool = keys::validator_pool(9);
    let mut cache: HashMap<String, validator::Block> = HashMap::new();
    let rt = tokio::runtime::Builder::new_current_thread()
        .enable_all()
        .build()
        .unwrap();
    // watchdog: a case that makes no progress for 40 s kills the process (exit code 3); the
    // driver reports the input as hanging the engine manager.
    let started = Arc::new(AtomicU64::new(0));
    {
        let started = started.clone();
        std::thread::spawn(move || loop {
            std::thread::sleep(std::time::Duration::from_millis(250));
            let t = started.load(Ordering::SeqCst);
            if t != 0 && now_ms() > t + 40_000 {
                std::process::exit(3);
            }
        });
    }
    for c in read_cases() {
        started.store(now_ms(), Ordering::SeqCst);
        let r = {
            let pool = &pool;
            let cache = &mut cache;
            let rt = &rt;
            let c = &c;
            catch(std::panic::AssertUnwindSafe(move || {
                rt.block_on(run_case(pool, cache, c))
            }))
        };
        match r {
            Ok(v) => write_line(&v),
            Err(m) => write_line(&json!({"panic": m})),
        }
    }
}
