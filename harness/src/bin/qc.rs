//! C04 / C02: certificate verification, incremental assembly and the implied-block decision
//! function on explicit cases. One JSON case per line; see gen/c04.py for the schema.
use serde_json::{json, Value};
use vh::{msgs::*, util::*};
use zksync_consensus_roles::validator::{self, v2};

fn unit(_: ()) -> Value {
    json!([])
}

fn opt_header(h: Option<v2::BlockHeader>, w: &World, ids: &Value) -> Value {
    match h {
        None => json!([]),
        Some(h) => json!([[h.number.0.to_string(), hash_id(&h.payload, w, ids)]]),
    }
}

/// Maps a payload hash back to the identifier used in the case (ids = list of ids in use).
fn hash_id(h: &validator::PayloadHash, _w: &World, ids: &Value) -> i64 {
    for id in ids.as_array().map(|a| a.as_slice()).unwrap_or(&[]) {
        let id = id.as_i64().unwrap();
        if &payload_hash(id) == h {
            return id;
        }
    }
    -1
}

fn main() {
    quiet_panics();
    let w = World::new(16);
    for c in read_cases() {
        let g = w.genesis(c["g"].as_i64().unwrap_or(0));
        let e = validator::EpochNumber(c.get("e").map(u64_of).unwrap_or(0));
        let sched = w.schedule(&c["committee"]);
        let ids = &c["payload_ids"];
        let op = c["op"].as_str().unwrap();
        let obs = match op {
            "cqc_verify" => {
                let qc = w.cqc(&c["qc"]);
                let r = catch(std::panic::AssertUnwindSafe(|| qc.verify(g, e, &sched)));
                json!({"obs": outcome(r, unit, cqc_verify_err)})
            }
            "cqc_assemble" => {
                let mut qc = v2::CommitQC::new(w.commit(&c["msg"]), &sched);
                let mut adds = vec![];
                for s in c["votes"].as_array().unwrap() {
                    let s = w.signed_commit(s);
                    let r = catch(std::panic::AssertUnwindSafe(|| qc.add(&s, g, e, &sched)));
                    adds.push(outcome(r, unit, cqc_add_err));
                }
                let r = catch(std::panic::AssertUnwindSafe(|| qc.verify(g, e, &sched)));
                json!({"obs": [adds, bits_obs(&qc.signers), outcome(r, unit, cqc_verify_err)]})
            }
            "tqc_verify" => {
                let (qc, order) = w.tqc(&c["qc"]);
                let r = catch(std::panic::AssertUnwindSafe(|| qc.verify(g, e, &sched)));
                json!({"obs": outcome(r, unit, tqc_verify_err), "order": order})
            }
            "tqc_assemble" => {
                let mut qc = v2::TimeoutQC::new(w.view(&c["view"]));
                let mut adds = vec![];
                let mut firsts: Vec<v2::ReplicaTimeout> = vec![];
                for s in c["votes"].as_array().unwrap() {
                    let s = w.signed_timeout(s);
                    let r = catch(std::panic::AssertUnwindSafe(|| qc.add(&s, g, e, &sched)));
                    if matches!(r, Ok(Ok(()))) && !firsts.contains(&s.msg) {
                        firsts.push(s.msg.clone());
                    }
                    adds.push(outcome(r, unit, tqc_add_err));
                }
                // map iteration order as a permutation of the distinct accepted messages
                // in first-acceptance order (which is the model's insertion order)
                // (an entry whose message was never accepted is reported as `stray`, not a crash)
                let order: Vec<usize> = qc
                    .map
                    .keys()
                    .filter_map(|m| firsts.iter().position(|x| x == m))
                    .collect();
                let stray = qc.map.len() - order.len();
                let signers: Vec<Value> = qc.map.values().map(bits_obs).collect();
                let weight = catch(std::panic::AssertUnwindSafe(|| qc.weight(&sched)));
                let ver = catch(std::panic::AssertUnwindSafe(|| qc.verify(g, e, &sched)));
                let hv = catch(std::panic::AssertUnwindSafe(|| qc.high_vote(&sched)));
                let hq = qc.high_qc().map(|q| {
                    json!([q.view().number.0.to_string(), q.header().number.0.to_string(), hash_id(&q.header().payload, &w, ids)])
                });
                json!({"obs": [
                    adds, signers,
                    match weight { Ok(x) => json!([0, x.to_string()]), Err(m) => json!([1, panic_code(&m)]) },
                    outcome(ver, unit, tqc_verify_err),
                    match hv { Ok(h) => json!([0, opt_header(h, &w, ids)]), Err(m) => json!([1, panic_code(&m)]) },
                    match hq { Some(x) => json!([x]), None => json!([]) },
                ], "order": order, "stray": stray})
            }
            "implied" => {
                let (j, order) = w.justification(&c["j"]);
                let fb = validator::BlockNumber(u64_of(&c["first_block"]));
                let r = catch(std::panic::AssertUnwindSafe(|| j.get_implied_block(&sched, fb)));
                let view = catch(std::panic::AssertUnwindSafe(|| j.view()));
                let ver = catch(std::panic::AssertUnwindSafe(|| j.verify(g, e, &sched)));
                json!({"obs": [
                    match r {
                        Ok((n, h)) => json!([0, [n.0.to_string(), match h { Some(h) => json!([hash_id(&h, &w, ids)]), None => json!([]) }]]),
                        Err(m) => json!([1, panic_code(&m)]),
                    },
                    match view { Ok(v) => json!([0, v.number.0.to_string()]), Err(m) => json!([1, panic_code(&m)]) },
                    outcome(ver, unit, just_err),
                ], "order": order})
            }
            "final_block" => {
                let b = v2::FinalBlock {
                    payload: payload(c["payload"].as_i64().unwrap()),
                    justification: w.cqc(&c["qc"]),
                };
                let r = catch(std::panic::AssertUnwindSafe(|| b.verify(g, e, &sched)));
                json!({"obs": outcome(r, unit, block_err)})
            }
            "order" => {
                let (_, order) = w.tqc(&c["qc"]);
                json!({"order": order})
            }
            _ => panic!("unknown op {op}"),
        };
        write_line(&obs);
    }
}
