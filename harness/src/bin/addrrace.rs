//! C18 (concurrent family): the real ValidatorAddrsWatch (hook `verif::gossip::AddrBook`) used from
//! several OS threads at once: announcers of the node's own key and updaters (push_validator_addrs
//! batches), plus a sampler thread that keeps reading the published book.  This is what checks the
//! atomicity of the announce / update critical sections (H-ATOM) on the code.
//!
//! input:  {"pool": n, "committee": [rank..], "self": rank, "trials": N,
//!          "init": [[k, addr, ver, ts, sk, saddr, sver, sts]..],          (one sequential batch first)
//!          "threads": [[{"u": [entry..]} | {"a": [addr, ts]}, ..], ..]}
//! output: {"trials": [{"ops": [[[start, end, "ok"|"err"|"panic"]..]..],   (per thread, per op)
//!                      "samples": [[start, end, book]..],                 (consecutive duplicates dropped)
//!                      "final": book}..]}
//!   start/end are ticks of one global counter; book = [[key rank, addr, ver, ts, verifies]..] sorted.
use std::{
    collections::HashMap,
    net,
    sync::{
        atomic::{AtomicBool, AtomicU64, Ordering},
        Arc, Barrier, Mutex,
    },
};

use serde_json::{json, Value};
use vh::{keys, util::*};
use zksync_concurrency::time;
use zksync_consensus_network::verif::gossip::AddrBook;
use zksync_consensus_roles::validator;

type Signed = validator::Signed<validator::NetAddress>;
type Row = (i64, u64, u64, i128, bool);

fn i128_of(v: &Value) -> i128 {
    match v {
        Value::Number(n) => n.as_i64().expect("i64") as i128,
        Value::String(s) => s.parse().expect("i128 string"),
        _ => panic!("i128_of: {v}"),
    }
}

fn addr_of(id: u64) -> net::SocketAddr {
    let ip = net::Ipv4Addr::from((id >> 16) as u32);
    net::SocketAddr::new(net::IpAddr::V4(ip), (id & 0xffff) as u16)
}

fn addr_id(a: &net::SocketAddr) -> u64 {
    match a.ip() {
        net::IpAddr::V4(ip) => ((u32::from(ip) as u64) << 16) | a.port() as u64,
        net::IpAddr::V6(_) => u64::MAX,
    }
}

fn utc_of(t: i128) -> time::Utc {
    time::UNIX_EPOCH + time::Duration::new((t / 1_000_000_000) as i64, (t % 1_000_000_000) as i32)
}

fn utc_nanos(t: time::Utc) -> i128 {
    (t - time::UNIX_EPOCH).whole_nanoseconds()
}

fn msg_of(addr: u64, ver: u64, ts: i128) -> validator::NetAddress {
    validator::NetAddress {
        addr: addr_of(addr),
        version: ver,
        timestamp: utc_of(ts),
    }
}

#[derive(Clone)]
enum Op {
    Update(Vec<Arc<Signed>>),
    Announce(net::SocketAddr, time::Utc),
}

struct Shared {
    pool: Vec<validator::SecretKey>,
    verified: Mutex<HashMap<Vec<u8>, bool>>,
}

impl Shared {
    fn rows(&self, book: &AddrBook) -> Vec<Row> {
        let mut rows = vec![];
        for (k, v) in book.current() {
            let bytes = zksync_protobuf::encode(&*v);
            let cached = self.verified.lock().unwrap().get(&bytes).copied();
            let ok = match cached {
                Some(b) => b,
                None => {
                    let b = v.verify().is_ok() && k == v.key;
                    self.verified.lock().unwrap().insert(bytes, b);
                    b
                }
            };
            rows.push((
                keys::rank(&self.pool, &v.key),
                addr_id(&v.msg.addr),
                v.msg.version,
                utc_nanos(v.msg.timestamp),
                ok,
            ));
        }
        rows.sort();
        rows
    }
}

fn rows_json(rows: &[Row]) -> Value {
    Value::Array(
        rows.iter()
            .map(|(k, a, v, t, ok)| json!([k, a.to_string(), v.to_string(), t.to_string(), ok]))
            .collect(),
    )
}

fn main() {
    quiet_panics();
    let mut sh = Arc::new(Shared {
        pool: keys::validator_pool(8),
        verified: Mutex::new(HashMap::new()),
    });
    let mut sigs: HashMap<(usize, u64, u64, i128), validator::Signature> = HashMap::new();
    for c in read_cases() {
        let n = c["pool"].as_u64().unwrap_or(8) as usize;
        if sh.pool.len() < n {
            sh = Arc::new(Shared {
                pool: keys::validator_pool(n),
                verified: Mutex::new(HashMap::new()),
            });
            sigs.clear();
        }
        let mut entry = |e: &Value| -> Arc<Signed> {
            let k = e[0].as_u64().unwrap() as usize;
            let sk = e[4].as_u64().unwrap() as usize;
            let key = (sk, u64_of(&e[5]), u64_of(&e[6]), i128_of(&e[7]));
            let pool = &sh.pool;
            let sig = sigs
                .entry(key)
                .or_insert_with(|| pool[sk].sign_msg(msg_of(key.1, key.2, key.3)).sig)
                .clone();
            Arc::new(Signed {
                msg: msg_of(u64_of(&e[1]), u64_of(&e[2]), i128_of(&e[3])),
                key: pool[k].public(),
                sig,
            })
        };
        let committee: Vec<usize> = c["committee"].as_array().unwrap().iter().map(|x| x.as_u64().unwrap() as usize).collect();
        let sched = Arc::new(
            validator::Schedule::new(
                committee.iter().map(|&r| validator::ValidatorInfo {
                    key: sh.pool[r].public(),
                    weight: 1,
                    leader: true,
                }),
                validator::LeaderSelection {
                    frequency: 1,
                    mode: validator::LeaderSelectionMode::RoundRobin,
                },
            )
            .expect("schedule"),
        );
        let me = sh.pool[c["self"].as_u64().unwrap() as usize].clone();
        let init: Vec<Arc<Signed>> = c["init"].as_array().unwrap().iter().map(&mut entry).collect();
        let threads: Vec<Vec<Op>> = c["threads"]
            .as_array()
            .unwrap()
            .iter()
            .map(|t| {
                t.as_array()
                    .unwrap()
                    .iter()
                    .map(|o| match o.get("u") {
                        Some(u) => Op::Update(u.as_array().unwrap().iter().map(&mut entry).collect()),
                        None => Op::Announce(addr_of(u64_of(&o["a"][0])), utc_of(i128_of(&o["a"][1]))),
                    })
                    .collect()
            })
            .collect();
        let trials = c["trials"].as_u64().unwrap_or(1);
        let mut out = vec![];
        for _ in 0..trials {
            let book = Arc::new(AddrBook::default());
            let rt0 = tokio::runtime::Builder::new_current_thread().build().unwrap();
            rt0.block_on(book.update(&sched, &init)).expect("init batch");
            let clock = Arc::new(AtomicU64::new(0));
            let done = Arc::new(AtomicBool::new(false));
            let barrier = Arc::new(Barrier::new(threads.len() + 1));
            let mut handles = vec![];
            for ops in threads.iter().cloned() {
                let (book, sched, me, clock, barrier) = (book.clone(), sched.clone(), me.clone(), clock.clone(), barrier.clone());
                handles.push(std::thread::spawn(move || {
                    let rt = tokio::runtime::Builder::new_current_thread().build().unwrap();
                    let mut log = vec![];
                    barrier.wait();
                    for op in ops {
                        let start = clock.fetch_add(1, Ordering::SeqCst);
                        let (book, sched, me, rt) = (&book, &sched, &me, &rt);
                        let r = catch(std::panic::AssertUnwindSafe(move || match op {
                            Op::Update(d) => rt.block_on(book.update(sched, &d)).is_ok(),
                            Op::Announce(a, t) => {
                                rt.block_on(book.announce(me, a, t));
                                true
                            }
                        }));
                        let end = clock.fetch_add(1, Ordering::SeqCst);
                        log.push(json!([start, end, match r {
                            Ok(true) => "ok",
                            Ok(false) => "err",
                            Err(_) => "panic",
                        }]));
                    }
                    log
                }));
            }
            let sampler = {
                let (book, sh, clock, done, barrier) = (book.clone(), sh.clone(), clock.clone(), done.clone(), barrier.clone());
                std::thread::spawn(move || {
                    let mut samples: Vec<(u64, u64, Vec<Row>)> = vec![];
                    barrier.wait();
                    loop {
                        let fin = done.load(Ordering::SeqCst);
                        let start = clock.fetch_add(1, Ordering::SeqCst);
                        let rows = sh.rows(&book);
                        let end = clock.fetch_add(1, Ordering::SeqCst);
                        match samples.last_mut() {
                            Some(l) if l.2 == rows => l.1 = end,
                            _ => samples.push((start, end, rows)),
                        }
                        if fin {
                            break;
                        }
                    }
                    samples
                })
            };
            let logs: Vec<Value> = handles.into_iter().map(|h| Value::Array(h.join().expect("worker"))).collect();
            done.store(true, Ordering::SeqCst);
            let samples = sampler.join().expect("sampler");
            let fin = sh.rows(&book);
            out.push(json!({
                "ops": logs,
                "samples": samples.iter().map(|(s, e, r)| json!([s, e, rows_json(r)])).collect::<Vec<_>>(),
                "final": rows_json(&fin),
            }));
        }
        write_line(&json!({ "trials": out }));
    }
}
