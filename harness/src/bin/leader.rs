//! C11: Schedule::new + view_leader on explicit cases.
//! input: {"vals":[[rank, "weight", leader]...], "freq":"..", "mode":"rr"|"w", "views":["..",...], "pool": n}
use num_bigint::BigUint;
use serde_json::json;
use vh::{keys, util::*};
use zksync_consensus_crypto::keccak256::Keccak256;
use zksync_consensus_roles::validator;

fn main() {
    quiet_panics();
    let mut pool = vec![];
    for c in read_cases() {
        let n = c["pool"].as_u64().unwrap_or(16) as usize;
        if pool.len() < n {
            pool = keys::validator_pool(n.max(16));
        }
        let vals: Vec<validator::ValidatorInfo> = c["vals"]
            .as_array()
            .unwrap()
            .iter()
            .map(|v| validator::ValidatorInfo {
                key: pool[v[0].as_u64().unwrap() as usize].public(),
                weight: u64_of(&v[1]),
                leader: v[2].as_bool().unwrap(),
            })
            .collect();
        let freq = u64_of(&c["freq"]);
        let mode = match c["mode"].as_str().unwrap() {
            "rr" => validator::LeaderSelectionMode::RoundRobin,
            _ => validator::LeaderSelectionMode::Weighted,
        };
        let sel = validator::LeaderSelection {
            frequency: freq,
            mode,
        };
        let s = match validator::Schedule::new(vals, sel) {
            Ok(s) => s,
            Err(e) => {
                write_line(&json!({"new": {"err": format!("{e:#}")}}));
                continue;
            }
        };
        let vec: Vec<_> = s
            .iter()
            .map(|v| json!([keys::rank(&pool, &v.key), v.weight.to_string(), v.leader]))
            .collect();
        let mut qs = vec![];
        for v in c["views"].as_array().unwrap() {
            let view = u64_of(v);
            let turn = if freq == 0 { 0 } else { view / freq };
            let h = BigUint::from_bytes_be(Keccak256::new(&turn.to_be_bytes()).as_bytes());
            let r = {
                let s = &s;
                catch(std::panic::AssertUnwindSafe(move || {
                    s.view_leader(validator::ViewNumber(view))
                }))
            };
            let leader = match r {
                Ok(k) => json!(keys::rank(&pool, &k)),
                Err(m) => json!({ "panic": m }),
            };
            qs.push(json!({"view": view.to_string(), "h": h.to_string(), "leader": leader}));
        }
        write_line(&json!({"new": {"ok": {
            "vec": vec, "total": s.total_weight().to_string(),
            "leaders": s.leaders(),
            "q": s.quorum_threshold().to_string(),
        }}, "qs": qs}));
    }
}
