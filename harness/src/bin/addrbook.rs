//! C18: the real ValidatorAddrsWatch (hook `verif::gossip::AddrBook`) driven by explicit
//! operation sequences with really signed (and really forged) announcements.
//!
//! input:  {"pool": n, "ops": [ {"u": {"c": [rank..], "d": [[k, addr, ver, ts, sk, saddr, sver, sts]..]}}
//!                            | {"a": [k, addr, ts]} ]}
//!   an announcement claims key `k` and message (addr, ver, ts); its signature is the real
//!   signature of pool key `sk` over the message (saddr, sver, sts).
//! output: {"steps": [ {"res": "ok" | {"err": msg} | {"panic": msg},
//!                      "book": [[map key rank, entry key rank, addr, ver, ts, verifies]..] } ]}
//!   the book is the published map after the operation, sorted by key rank; `verifies` is the
//!   result of the real signature check on the stored entry.
use std::{collections::HashMap, net, sync::Arc};

use serde_json::{json, Value};
use vh::{keys, util::*};
use zksync_concurrency::time;
use zksync_consensus_network::verif::gossip::AddrBook;
use zksync_consensus_roles::validator;

type Signed = validator::Signed<validator::NetAddress>;

fn i128_of(v: &Value) -> i128 {
    match v {
        Value::Number(n) => n.as_i64().expect("i64") as i128,
        Value::String(s) => s.parse().expect("i128 string"),
        _ => panic!("i128_of: {v}"),
    }
}

fn addr_of(id: u64) -> net::SocketAddr {
    let ip = net::Ipv4Addr::from((id >> 16) as u32);
    net::SocketAddr::new(net::IpAddr::V4(ip), (id & 0xffff) as u16)
}

fn addr_id(a: &net::SocketAddr) -> u64 {
    match a.ip() {
        net::IpAddr::V4(ip) => ((u32::from(ip) as u64) << 16) | a.port() as u64,
        net::IpAddr::V6(_) => u64::MAX,
    }
}

fn utc_of(t: i128) -> time::Utc {
    let secs = (t / 1_000_000_000) as i64;
    let nanos = (t % 1_000_000_000) as i32;
    time::UNIX_EPOCH + time::Duration::new(secs, nanos)
}

fn utc_nanos(t: time::Utc) -> i128 {
    (t - time::UNIX_EPOCH).whole_nanoseconds()
}

fn msg_of(addr: u64, ver: u64, ts: i128) -> validator::NetAddress {
    validator::NetAddress {
        addr: addr_of(addr),
        version: ver,
        timestamp: utc_of(ts),
    }
}

struct Env {
    pool: Vec<validator::SecretKey>,
    sigs: HashMap<(usize, u64, u64, i128), validator::Signature>,
    verified: HashMap<Vec<u8>, bool>,
    schedules: HashMap<Vec<usize>, validator::Schedule>,
}

impl Env {
    fn sig(&mut self, sk: usize, addr: u64, ver: u64, ts: i128) -> validator::Signature {
        let pool = &self.pool;
        self.sigs
            .entry((sk, addr, ver, ts))
            .or_insert_with(|| pool[sk].sign_msg(msg_of(addr, ver, ts)).sig)
            .clone()
    }

    fn entry(&mut self, e: &Value) -> Arc<Signed> {
        let k = e[0].as_u64().unwrap() as usize;
        let sk = e[4].as_u64().unwrap() as usize;
        let sig = self.sig(sk, u64_of(&e[5]), u64_of(&e[6]), i128_of(&e[7]));
        Arc::new(Signed {
            msg: msg_of(u64_of(&e[1]), u64_of(&e[2]), i128_of(&e[3])),
            key: self.pool[k].public(),
            sig,
        })
    }

    fn schedule(&mut self, c: &[usize]) -> validator::Schedule {
        let pool = &self.pool;
        self.schedules
            .entry(c.to_vec())
            .or_insert_with(|| {
                validator::Schedule::new(
                    c.iter().map(|&r| validator::ValidatorInfo {
                        key: pool[r].public(),
                        weight: 1,
                        leader: true,
                    }),
                    validator::LeaderSelection {
                        frequency: 1,
                        mode: validator::LeaderSelectionMode::RoundRobin,
                    },
                )
                .expect("schedule")
            })
            .clone()
    }

    fn verifies(&mut self, s: &Signed) -> bool {
        let bytes = zksync_protobuf::encode(s);
        if let Some(&b) = self.verified.get(&bytes) {
            return b;
        }
        let b = s.verify().is_ok();
        self.verified.insert(bytes, b);
        b
    }

    fn book(&mut self, book: &AddrBook) -> Value {
        let mut rows = vec![];
        for (k, v) in book.current() {
            let ok = self.verifies(&v);
            rows.push((
                keys::rank(&self.pool, &k),
                keys::rank(&self.pool, &v.key),
                addr_id(&v.msg.addr),
                v.msg.version,
                utc_nanos(v.msg.timestamp),
                ok,
            ));
        }
        rows.sort();
        Value::Array(
            rows.into_iter()
                .map(|(mk, ek, a, v, t, ok)| {
                    json!([mk, ek, a.to_string(), v.to_string(), t.to_string(), ok])
                })
                .collect(),
        )
    }
}

fn main() {
    quiet_panics();
    let rt = tokio::runtime::Builder::new_current_thread()
        .build()
        .expect("runtime");
    let mut env = Env {
        pool: vec![],
        sigs: HashMap::new(),
        verified: HashMap::new(),
        schedules: HashMap::new(),
    };
    for c in read_cases() {
        let n = c["pool"].as_u64().unwrap_or(8) as usize;
        if env.pool.len() < n {
            env = Env {
                pool: keys::validator_pool(n.max(8)),
                sigs: HashMap::new(),
                verified: HashMap::new(),
                schedules: HashMap::new(),
            };
        }
        let book = AddrBook::default();
        let mut steps = vec![];
        for o in c["ops"].as_array().unwrap() {
            let res = if let Some(u) = o.get("u") {
                let comm: Vec<usize> = u["c"]
                    .as_array()
                    .unwrap()
                    .iter()
                    .map(|x| x.as_u64().unwrap() as usize)
                    .collect();
                let sched = env.schedule(&comm);
                let data: Vec<Arc<Signed>> = u["d"]
                    .as_array()
                    .unwrap()
                    .iter()
                    .map(|e| env.entry(e))
                    .collect();
                let (book, rt) = (&book, &rt);
                match catch(std::panic::AssertUnwindSafe(move || {
                    rt.block_on(book.update(&sched, &data))
                })) {
                    Ok(Ok(())) => json!("ok"),
                    Ok(Err(e)) => json!({ "err": format!("{e:#}") }),
                    Err(m) => json!({ "panic": m }),
                }
            } else {
                let a = &o["a"];
                let key = env.pool[a[0].as_u64().unwrap() as usize].clone();
                let addr = addr_of(u64_of(&a[1]));
                let ts = utc_of(i128_of(&a[2]));
                let (book, rt) = (&book, &rt);
                match catch(std::panic::AssertUnwindSafe(move || {
                    rt.block_on(book.announce(&key, addr, ts))
                })) {
                    Ok(()) => json!("ok"),
                    Err(m) => json!({ "panic": m }),
                }
            };
            steps.push(json!({"res": res, "book": env.book(&book)}));
        }
        write_line(&json!({ "steps": steps }));
    }
}
