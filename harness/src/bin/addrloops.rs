//! C18 (loops): real nodes run through the public `Network::new` + `Runner::run` (real TCP listener,
//! preface, gossip handshake, rpc service with the push_validator_addrs server and the push loop of
//! gossip/runner.rs, and - for a validator node - consensus::maintain_connection dialing the
//! addresses of the book), with the harness as a scripted gossip peer speaking the wire protocol
//! (preface -> noise -> handshake -> real mux (hook VMux) -> rpc frames).
//!
//! input:  {"pool": n, "committee": [rank..], "sentinel": rank, "nodes": [{"val": rank|null}..],
//!          "dial": bool, "ops": [{"n": node, "d": [[k, addr, ver, ts, sk, saddr, sver, sts]..]}..]}
//!   1 or 2 nodes; with 2 nodes node 0 keeps a static outbound gossip connection to node 1.
//!   Every op is one push_validator_addrs request sent by the scripted peer to node n, followed by
//!   a barrier: a valid announcement of the sentinel validator (version = op index + 1) pushed to the
//!   same node; the op is over when every node has re-pushed that sentinel version to the peer.
//!   addr ids < 1000 are harness listeners (dial mode) / loopback ports, others as in addrbook.rs.
//! output: {"ops": [{"res": "ok"|"rejected", "repush": [[entries node 0 pushed to the peer during the
//!          op (sorted)], [.. node 1 ..]], "dials": [addr ids node 0 connected to (sorted, distinct)]}..],
//!          "final": [[book of node 0 as pushed to a fresh connection], ..], "stuck": null|reason}
//!   entry = [key rank, addr id, ver, ts, verifies]; entries of a node's own validator key are left
//!   out (their timestamp is the wall clock).
use std::{
    collections::{BTreeSet, HashMap},
    net::SocketAddr,
    sync::{Arc, Mutex},
};

use serde_json::{json, Value};
use vh::{keys, util::*};
use zksync_concurrency::{ctx, io, limiter, net, scope, time};
use zksync_consensus_network::{
    proto::rpc::Capability,
    verif::{
        mux::{VConfig, VMux, VQueue},
        NoiseStream,
    },
    Config, GossipConfig, Network, RpcConfig,
};
use zksync_consensus_roles::{node, validator};

type Signed = validator::Signed<validator::NetAddress>;
type Row = (i64, u64, u64, i128, bool);

const OP_TIMEOUT: std::time::Duration = std::time::Duration::from_secs(20);
const GRACE: std::time::Duration = std::time::Duration::from_millis(30);

fn i128_of(v: &Value) -> i128 {
    match v {
        Value::Number(n) => n.as_i64().expect("i64") as i128,
        Value::String(s) => s.parse().expect("i128 string"),
        _ => panic!("i128_of: {v}"),
    }
}

fn utc_of(t: i128) -> time::Utc {
    let secs = (t / 1_000_000_000) as i64;
    let nanos = (t % 1_000_000_000) as i32;
    time::UNIX_EPOCH + time::Duration::new(secs, nanos)
}

fn utc_nanos(t: time::Utc) -> i128 {
    (t - time::UNIX_EPOCH).whole_nanoseconds()
}

/// addr id <-> socket address. ids < 1000: loopback ports given by `low` (harness listeners in dial
/// mode); other ids: ip = id >> 16, port = id & 0xffff.
#[derive(Clone)]
struct AddrMap {
    low: Vec<SocketAddr>,
}

impl AddrMap {
    fn addr(&self, id: u64) -> SocketAddr {
        if id < 1000 {
            self.low[id as usize]
        } else {
            let ip = std::net::Ipv4Addr::from((id >> 16) as u32);
            SocketAddr::new(std::net::IpAddr::V4(ip), (id & 0xffff) as u16)
        }
    }
    fn id(&self, a: &SocketAddr) -> u64 {
        if let Some(i) = self.low.iter().position(|x| x == a) {
            return i as u64;
        }
        match a.ip() {
            std::net::IpAddr::V4(ip) => ((u32::from(ip) as u64) << 16) | a.port() as u64,
            std::net::IpAddr::V6(_) => u64::MAX,
        }
    }
}

struct Env {
    vals: Vec<validator::SecretKey>,
    nodes: Vec<node::SecretKey>,
    sigs: HashMap<(usize, SocketAddr, u64, i128), validator::Signature>,
    verified: HashMap<Vec<u8>, bool>,
}

impl Env {
    fn sig(&mut self, sk: usize, addr: SocketAddr, ver: u64, ts: i128) -> validator::Signature {
        let vals = &self.vals;
        self.sigs
            .entry((sk, addr, ver, ts))
            .or_insert_with(|| {
                vals[sk]
                    .sign_msg(validator::NetAddress {
                        addr,
                        version: ver,
                        timestamp: utc_of(ts),
                    })
                    .sig
            })
            .clone()
    }
    fn entry(&mut self, m: &AddrMap, e: &Value) -> Signed {
        let k = e[0].as_u64().unwrap() as usize;
        let sk = e[4].as_u64().unwrap() as usize;
        let sig = self.sig(sk, m.addr(u64_of(&e[5])), u64_of(&e[6]), i128_of(&e[7]));
        Signed {
            msg: validator::NetAddress {
                addr: m.addr(u64_of(&e[1])),
                version: u64_of(&e[2]),
                timestamp: utc_of(i128_of(&e[3])),
            },
            key: self.vals[k].public(),
            sig,
        }
    }
    fn row(&mut self, m: &AddrMap, s: &Signed) -> Row {
        let bytes = zksync_protobuf::encode(s);
        let ok = match self.verified.get(&bytes) {
            Some(&b) => b,
            None => {
                let b = s.verify().is_ok();
                self.verified.insert(bytes, b);
                b
            }
        };
        (
            keys::rank(&self.vals, &s.key),
            m.id(&s.msg.addr),
            s.msg.version,
            utc_nanos(s.msg.timestamp),
            ok,
        )
    }
}

fn rows_json(rows: &BTreeSet<Row>) -> Value {
    Value::Array(
        rows.iter()
            .map(|(k, a, v, t, ok)| json!([k, a.to_string(), v.to_string(), t.to_string(), ok]))
            .collect(),
    )
}

// ---- wire helpers -------------------------------------------------------------------------

fn varint(mut x: u64, out: &mut Vec<u8>) {
    while x >= 0x80 {
        out.push((x as u8) | 0x80);
        x >>= 7;
    }
    out.push(x as u8);
}

fn field_bytes(no: u32, body: &[u8], out: &mut Vec<u8>) {
    varint(((no as u64) << 3) | 2, out);
    varint(body.len() as u64, out);
    out.extend_from_slice(body);
}

async fn send_frame<S: io::AsyncWrite + Unpin>(ctx: &ctx::Ctx, s: &mut S, body: &[u8]) -> anyhow::Result<()> {
    io::write_all(ctx, s, &(body.len() as u32).to_le_bytes()).await??;
    io::write_all(ctx, s, body).await??;
    io::flush(ctx, s).await??;
    Ok(())
}

async fn recv_frame<S: io::AsyncRead + Unpin>(ctx: &ctx::Ctx, s: &mut S) -> anyhow::Result<Vec<u8>> {
    let mut l = [0u8; 4];
    io::read_exact(ctx, s, &mut l).await??;
    let n = u32::from_le_bytes(l) as usize;
    anyhow::ensure!(n <= 1 << 20, "frame too large");
    let mut b = vec![0u8; n];
    io::read_exact(ctx, s, &mut b).await??;
    Ok(b)
}

/// proto gossip.PushValidatorAddrs { repeated roles.validator.Signed net_addresses = 1; }
fn encode_push(batch: &[Signed]) -> Vec<u8> {
    let mut out = vec![];
    for e in batch {
        field_bytes(1, &zksync_protobuf::encode(e), &mut out);
    }
    out
}

fn decode_push(mut b: &[u8]) -> anyhow::Result<Vec<Signed>> {
    fn rd_varint(b: &mut &[u8]) -> anyhow::Result<u64> {
        let mut x = 0u64;
        let mut sh = 0;
        loop {
            anyhow::ensure!(!b.is_empty() && sh < 64, "varint");
            let c = b[0];
            *b = &b[1..];
            x |= ((c & 0x7f) as u64) << sh;
            if c & 0x80 == 0 {
                return Ok(x);
            }
            sh += 7;
        }
    }
    let mut out = vec![];
    while !b.is_empty() {
        let tag = rd_varint(&mut b)?;
        anyhow::ensure!(tag == ((1 << 3) | 2), "unexpected field {tag}");
        let n = rd_varint(&mut b)? as usize;
        anyhow::ensure!(n <= b.len(), "short");
        out.push(zksync_protobuf::decode(&b[..n])?);
        b = &b[n..];
    }
    Ok(out)
}

/// What the scripted peer has received from one node: batches in arrival order.
#[derive(Default)]
struct Inbox {
    batches: Mutex<Vec<Vec<Signed>>>,
    notify: tokio::sync::Notify,
}

/// A scripted gossip connection to a node.
struct Peer {
    send_q: VQueue,
    inbox: Arc<Inbox>,
}

const MUX: VConfig = VConfig {
    read_buffer_size: 160 * 1024,
    read_frame_size: 16 * 1024,
    read_frame_count: 100,
    write_frame_size: 16 * 1024,
};

/// Connects to the node's real listener as gossip peer `key` and spawns the mux and the task that
/// serves the node's push_validator_addrs calls.
async fn connect_peer<'env>(
    ctx: &'env ctx::Ctx,
    s: &scope::Scope<'env, anyhow::Error>,
    addr: SocketAddr,
    key: &node::SecretKey,
    genesis: validator::GenesisHash,
) -> anyhow::Result<Peer> {
    let mut tcp = net::tcp::connect(ctx, addr).await??;
    // preface: Encryption { noise_nn = 1 {} }
    send_frame(ctx, &mut tcp, &[0x0a, 0x00]).await?;
    let mut stream = NoiseStream::client_handshake(ctx, tcp).await?;
    // preface: Endpoint { gossip_net = 2 {} }
    send_frame(ctx, &mut stream, &[0x12, 0x00]).await?;
    // gossip handshake (outbound end): session_id = 1, is_static = 2, genesis = 3
    let sid = key.sign_msg(node::SessionId(stream.id().to_vec()));
    let mut h = vec![];
    field_bytes(1, &zksync_protobuf::encode(&sid), &mut h);
    h.extend_from_slice(&[0x10, 0x00]);
    field_bytes(3, &zksync_protobuf::encode(&genesis), &mut h);
    send_frame(ctx, &mut stream, &h).await?;
    let _their = recv_frame(&ctx.with_timeout(time::Duration::seconds(10)), &mut stream).await?;
    let cap = Capability::PushValidatorAddrs as u64;
    let send_q = VQueue::new(ctx, 1, limiter::Rate::INF);
    let recv_q = VQueue::new(ctx, 1, limiter::Rate::INF);
    let mux = VMux::new(MUX, vec![(cap, send_q.clone())], vec![(cap, recv_q.clone())]);
    s.spawn_bg(async move {
        let _ = mux.run(ctx, stream).await;
        Ok(())
    });
    let inbox = Arc::new(Inbox::default());
    let ib = inbox.clone();
    s.spawn_bg(async move {
        // serve the node's calls: one request per transient stream, empty response
        while let Ok(mut st) = recv_q.open(ctx).await {
            let r: anyhow::Result<Vec<Signed>> = async {
                let l = st.read.read_exact(ctx, 4).await?;
                anyhow::ensure!(l.len() == 4, "eos");
                let n = u32::from_le_bytes([l[0], l[1], l[2], l[3]]) as usize;
                let b = st.read.read_exact(ctx, n).await?;
                anyhow::ensure!(b.len() == n, "eos");
                decode_push(&b)
            }
            .await;
            if let Ok(batch) = r {
                ib.batches.lock().unwrap().push(batch);
                ib.notify.notify_waiters();
                let _ = st.write.write_all(ctx, &[0, 0, 0, 0]).await;
                let _ = st.write.flush(ctx).await;
            }
        }
        Ok(())
    });
    Ok(Peer { send_q, inbox })
}

impl Peer {
    /// One push_validator_addrs call. Ok(true) = the node answered, Ok(false) = the node closed
    /// the stream without a response (its handler returned an error).
    async fn push(&self, ctx: &ctx::Ctx, batch: &[Signed]) -> anyhow::Result<bool> {
        let mut st = self.send_q.open(ctx).await?;
        let body = encode_push(batch);
        st.write.write_all(ctx, &(body.len() as u32).to_le_bytes()).await?;
        st.write.write_all(ctx, &body).await?;
        st.write.flush(ctx).await?;
        let l = st.read.read_exact(ctx, 4).await?;
        Ok(l.len() == 4)
    }
}

async fn wait_until(n: &tokio::sync::Notify, mut cond: impl FnMut() -> bool) -> bool {
    let deadline = tokio::time::Instant::now() + OP_TIMEOUT;
    loop {
        let notified = n.notified();
        if cond() {
            return true;
        }
        if tokio::time::timeout_at(deadline, notified).await.is_err() {
            return cond();
        }
    }
}

fn make_cfg(key: node::SecretKey, addr: net::tcp::ListenerAddr, val: Option<validator::SecretKey>) -> Config {
    Config {
        build_version: None,
        server_addr: addr,
        public_addr: (*addr).into(),
        ping_timeout: None,
        validator_key: val,
        gossip: GossipConfig {
            key,
            dynamic_inbound_limit: 1000,
            static_inbound: Default::default(),
            static_outbound: Default::default(),
        },
        max_block_size: usize::MAX,
        max_tx_size: usize::MAX,
        tcp_accept_rate: limiter::Rate::INF,
        rpc: RpcConfig {
            push_validator_addrs_rate: limiter::Rate::INF,
            ..RpcConfig::default()
        },
        max_block_queue_size: 10,
    }
}

async fn wait_listening(addr: SocketAddr) -> bool {
    for _ in 0..400 {
        if tokio::net::TcpStream::connect(addr).await.is_ok() {
            return true;
        }
        tokio::time::sleep(std::time::Duration::from_millis(10)).await;
    }
    false
}

async fn run_case(env: &mut Env, c: &Value) -> anyhow::Result<Value> {
    use zksync_consensus_roles::validator::testonly::{Setup, SetupSpec};
    let ctx = &ctx::root();
    let committee: Vec<usize> = c["committee"].as_array().unwrap().iter().map(|x| x.as_u64().unwrap() as usize).collect();
    let sentinel = c["sentinel"].as_u64().unwrap() as usize;
    let dial = c["dial"].as_bool().unwrap_or(false);
    let node_vals: Vec<Option<usize>> = c["nodes"].as_array().unwrap().iter().map(|n| n["val"].as_u64().map(|x| x as usize)).collect();
    let nn = node_vals.len();
    let ops = c["ops"].as_array().unwrap();
    // addr ids < 1000 used by the case (+ one for the sentinel)
    let mut max_low = 0u64;
    for o in ops {
        for e in o["d"].as_array().unwrap() {
            for j in [1, 5] {
                let a = u64_of(&e[j]);
                if a < 1000 {
                    max_low = max_low.max(a + 1);
                }
            }
        }
    }
    let sentinel_addr_id = max_low;
    let n_low = (max_low + 1) as usize;
    // listeners behind the low addr ids
    let mut listeners = vec![];
    let mut low = vec![];
    for _ in 0..n_low {
        let l = tokio::net::TcpListener::bind("127.0.0.1:0").await?;
        low.push(l.local_addr()?);
        listeners.push(l);
    }
    let amap = AddrMap { low };
    let spec = SetupSpec {
        chain_id: validator::ChainId(1337),
        fork_number: validator::ForkNumber(0),
        first_block: validator::BlockNumber(0),
        first_pregenesis_block: validator::BlockNumber(0),
        protocol_version: validator::ProtocolVersion::CURRENT,
        validator_weights: committee.iter().map(|&i| (env.vals[i].clone(), 1)).collect(),
        leader_selection: validator::LeaderSelection {
            frequency: 1,
            mode: validator::LeaderSelectionMode::RoundRobin,
        },
        epoch: validator::EpochNumber(0),
    };
    let setup = Setup::from_spec(&mut ctx.rng(), spec);
    let genesis = setup.genesis_hash();
    let own_keys: Vec<Option<validator::PublicKey>> = node_vals.iter().map(|v| v.map(|i| env.vals[i].public())).collect();

    let dial_log: Arc<(Mutex<Vec<u64>>, tokio::sync::Notify)> = Arc::new((Mutex::new(vec![]), tokio::sync::Notify::new()));
    let res: anyhow::Result<(Vec<Value>, Vec<Value>, Option<String>)> = scope::run!(ctx, |ctx, s| async move {
        let mut out_ops = vec![];
        let mut stuck: Option<String> = None;
        let mut finals = vec![];
        // dial observers
        if dial {
            for (i, l) in listeners.into_iter().enumerate() {
                let log = dial_log.clone();
                s.spawn_bg(async move {
                    while let Ok(Ok((st, _))) = ctx.wait(l.accept()).await {
                        log.0.lock().unwrap().push(i as u64);
                        log.1.notify_waiters();
                        drop(st);
                    }
                    Ok(())
                });
            }
        }
        // the real nodes
        let mut node_addrs = vec![];
        let mut cfgs = vec![];
        for (i, v) in node_vals.iter().enumerate() {
            let addr = net::tcp::testonly::reserve_listener();
            node_addrs.push(addr);
            cfgs.push(make_cfg(env.nodes[i].clone(), addr, v.map(|r| env.vals[r].clone())));
        }
        if nn == 2 {
            let (k1, a1) = (env.nodes[1].public(), *node_addrs[1]);
            cfgs[0].gossip.static_outbound.insert(k1, net::Host::from(a1));
            let k0 = env.nodes[0].public();
            cfgs[1].gossip.static_inbound.insert(k0);
        }
        for i in (0..nn).rev() {
            let engine = zksync_consensus_engine::testonly::TestEngine::new(ctx, &setup).await;
            let (con_send, con_recv) = zksync_concurrency::sync::prunable_mpsc::unpruned_channel();
            let (net_send, net_recv) = zksync_concurrency::ctx::channel::unbounded();
            let (_net, runner) = Network::new(cfgs[i].clone(), engine.manager.clone(), Some(setup.epoch), con_send, net_recv)?;
            s.spawn_bg(async move {
                let _keep = (con_recv, net_send, engine.runner);
                runner.run(ctx, false).await
            });
            if !wait_listening(*node_addrs[i]).await {
                anyhow::bail!("node {i} does not listen");
            }
        }
        // the scripted peer: one gossip connection per node
        let mut peers = vec![];
        for i in 0..nn {
            peers.push(connect_peer(ctx, s, *node_addrs[i], &env.nodes[8 + i], genesis).await?);
        }
        let mut seen_batches = vec![0usize; nn];
        let mut cur_addr: HashMap<i64, u64> = HashMap::new(); // node 0's current address per peer key
        let mut dial_seen = 0usize;
        for (oi, o) in ops.iter().enumerate() {
            let target = o["n"].as_u64().unwrap() as usize;
            let batch: Vec<Signed> = o["d"].as_array().unwrap().iter().map(|e| env.entry(&amap, e)).collect();
            let res = match tokio::time::timeout(OP_TIMEOUT, peers[target].push(ctx, &batch)).await {
                Ok(Ok(true)) => "ok",
                Ok(Ok(false)) => "rejected",
                Ok(Err(e)) => {
                    stuck = Some(format!("op {oi}: push failed: {e:#}"));
                    break;
                }
                Err(_) => {
                    stuck = Some(format!("op {oi}: push timed out"));
                    break;
                }
            };
            // barrier
            let sver = (oi + 1) as u64;
            let sent = {
                let a = amap.addr(sentinel_addr_id);
                let sig = env.sig(sentinel, a, sver, 0);
                Signed {
                    msg: validator::NetAddress { addr: a, version: sver, timestamp: utc_of(0) },
                    key: env.vals[sentinel].public(),
                    sig,
                }
            };
            match tokio::time::timeout(OP_TIMEOUT, peers[target].push(ctx, &[sent.clone()])).await {
                Ok(Ok(true)) => {}
                r => {
                    stuck = Some(format!("op {oi}: sentinel push: {:?}", r.map(|x| x.map_err(|e| format!("{e:#}")))));
                    break;
                }
            }
            let mut repush = vec![];
            for (x, p) in peers.iter().enumerate() {
                let skey = sent.key.clone();
                let ok = wait_until(&p.inbox.notify, || {
                    p.inbox.batches.lock().unwrap().iter().any(|b| b.iter().any(|e| e.key == skey && e.msg.version >= sver))
                })
                .await;
                if !ok {
                    stuck = Some(format!("op {oi}: node {x} never re-pushed the sentinel"));
                }
            }
            if stuck.is_some() {
                break;
            }
            tokio::time::sleep(GRACE).await;
            let mut expect_dials = vec![];
            for (x, p) in peers.iter().enumerate() {
                let bs = p.inbox.batches.lock().unwrap();
                let mut rows = BTreeSet::new();
                for b in &bs[seen_batches[x]..] {
                    for e in b {
                        if Some(&e.key) == own_keys[x].as_ref() {
                            continue;
                        }
                        let r = env.row(&amap, e);
                        if x == 0 && dial && r.1 < 1000 && own_keys[0].is_some() && cur_addr.get(&r.0) != Some(&r.1) {
                            cur_addr.insert(r.0, r.1);
                            expect_dials.push(r.1);
                        }
                        rows.insert(r);
                    }
                }
                seen_batches[x] = bs.len();
                repush.push(rows_json(&rows));
            }
            // synchronisation only: wait for the dials that the re-pushed entries announce
            let mut dials = BTreeSet::new();
            if dial {
                for a in expect_dials {
                    let log = dial_log.clone();
                    let from = dial_seen;
                    wait_until(&dial_log.1, move || log.0.lock().unwrap()[from..].contains(&a)).await;
                }
                tokio::time::sleep(GRACE).await;
                let l = dial_log.0.lock().unwrap();
                for a in &l[dial_seen..] {
                    dials.insert(*a);
                }
                dial_seen = l.len();
            }
            out_ops.push(json!({"res": res, "repush": repush, "dials": dials.iter().collect::<Vec<_>>()}));
        }
        // final books: what each node pushes first to a fresh connection
        if stuck.is_none() {
            for i in 0..nn {
                let p = connect_peer(ctx, s, *node_addrs[i], &env.nodes[16 + i], genesis).await?;
                let ok = wait_until(&p.inbox.notify, || !p.inbox.batches.lock().unwrap().is_empty()).await;
                if !ok {
                    stuck = Some(format!("node {i}: no initial push on a fresh connection"));
                    break;
                }
                let bs = p.inbox.batches.lock().unwrap();
                let mut rows = BTreeSet::new();
                for e in &bs[0] {
                    if Some(&e.key) != own_keys[i].as_ref() {
                        rows.insert(env.row(&amap, e));
                    }
                }
                finals.push(rows_json(&rows));
            }
        }
        Ok((out_ops, finals, stuck))
    })
    .await;
    let (out_ops, finals, stuck) = match res {
        Ok(x) => x,
        Err(e) => (vec![], vec![], Some(format!("{e:#}"))),
    };
    Ok(json!({"ops": out_ops, "final": finals, "stuck": stuck, "sentinel_addr": sentinel_addr_id}))
}

fn main() {
    quiet_panics();
    let cases = read_cases();
    let mut env = Env {
        vals: keys::validator_pool(8),
        nodes: keys::node_pool(24),
        sigs: HashMap::new(),
        verified: HashMap::new(),
    };
    let rt = tokio::runtime::Builder::new_multi_thread()
        .worker_threads(2)
        .enable_all()
        .build()
        .unwrap();
    for c in cases {
        let out = rt.block_on(async {
            match tokio::time::timeout(std::time::Duration::from_secs(120), run_case(&mut env, &c)).await {
                Ok(Ok(v)) => v,
                Ok(Err(e)) => json!({"ops": [], "final": [], "stuck": format!("{e:#}")}),
                Err(_) => json!({"ops": [], "final": [], "stuck": "watchdog"}),
            }
        });
        write_line(&out);
    }
}
