//! C01/C03/C05/C16: drives the real replica state machine (bft verif hook) step by step over a
//! harness-owned execution engine and reports, per operation, the outcome class, the ordered
//! effects (persist / send / queue block), and a snapshot — in the encoding of
//! Model/ReplicaRun.v.  See gen/replica_gen.py for the case schema.
use std::{
    collections::HashMap,
    future::Future,
    sync::{Arc, Mutex},
};

use serde_json::{json, Value};
use vh::{msgs::*, util::*};
use zksync_concurrency::{ctx, sync, time};
use zksync_consensus_bft::verif::{Replica, StepError};
use zksync_consensus_engine::{BlockStoreState, EngineInterface, EngineManager, Last, Transaction};
use zksync_consensus_roles::validator::{self, v2};

type Log = Arc<Mutex<Vec<Value>>>;

struct Shared {
    w: World,
    payload_ids: HashMap<validator::PayloadHash, i64>,
}

impl Shared {
    fn pid(&self, h: &validator::PayloadHash) -> i64 {
        *self.payload_ids.get(h).unwrap_or(&-1)
    }
    fn view(&self, v: &v2::View) -> Value {
        json!([self.w.genesis_id(&v.genesis), v.epoch.0.to_string(), v.number.0.to_string()])
    }
    fn commit(&self, c: &v2::ReplicaCommit) -> Value {
        json!([self.view(&c.view), [c.proposal.number.0.to_string(), self.pid(&c.proposal.payload)]])
    }
    fn cqc(&self, q: &v2::CommitQC) -> Value {
        self.commit(&q.message)
    }
    fn opt<T>(&self, x: &Option<T>, f: impl Fn(&T) -> Value) -> Value {
        match x {
            Some(x) => json!([f(x)]),
            None => json!([]),
        }
    }
    fn timeout(&self, t: &v2::ReplicaTimeout) -> Value {
        json!([self.view(&t.view), self.opt(&t.high_vote, |c| self.commit(c)), self.opt(&t.high_qc, |q| self.cqc(q))])
    }
    fn tqc(&self, t: &v2::TimeoutQC) -> Value {
        let mut entries: Vec<(Vec<bool>, Value)> = t
            .map
            .iter()
            .map(|(m, s)| (s.0.iter().collect::<Vec<bool>>(), self.timeout(m)))
            .collect();
        // sort by the bitmap read as a little-endian number
        entries.sort_by(|a, b| {
            let ka: Vec<bool> = a.0.iter().rev().cloned().collect();
            let kb: Vec<bool> = b.0.iter().rev().cloned().collect();
            (ka.len(), ka).cmp(&(kb.len(), kb))
        });
        let es: Vec<Value> = entries
            .into_iter()
            .map(|(b, t)| json!([b.iter().map(|x| if *x { 1 } else { 0 }).collect::<Vec<i32>>(), t]))
            .collect();
        json!([self.view(&t.view), es])
    }
    fn just(&self, j: &v2::ProposalJustification) -> Value {
        match j {
            v2::ProposalJustification::Commit(q) => json!([0, self.cqc(q)]),
            v2::ProposalJustification::Timeout(t) => json!([1, self.tqc(t)]),
        }
    }
    fn cmsg(&self, m: &validator::ConsensusMsg) -> Value {
        #[allow(irrefutable_let_patterns)]
        let validator::ConsensusMsg::V2(m) = m
        else {
            return json!([99]);
        };
        match m {
            v2::ChonkyMsg::LeaderProposal(p) => json!([0,
                self.opt(&p.proposal_payload, |p| json!(payload_id(p).unwrap_or(-1))), self.just(&p.justification)]),
            v2::ChonkyMsg::ReplicaCommit(c) => json!([1, self.commit(c)]),
            v2::ChonkyMsg::ReplicaTimeout(t) => json!([2, self.timeout(t)]),
            v2::ChonkyMsg::ReplicaNewView(n) => json!([3, self.just(&n.justification)]),
        }
    }
    fn phase(&self, p: v2::Phase) -> i64 {
        match p {
            v2::Phase::Prepare => 0,
            v2::Phase::Commit => 1,
            v2::Phase::Timeout => 2,
        }
    }
    fn durable(&self, s: &validator::ReplicaState) -> Value {
        let validator::ReplicaState::V2(s) = s;
        let mut props: Vec<(u64, i64)> = s
            .proposals
            .iter()
            .map(|p| (p.number.0, payload_id(&p.payload).unwrap_or(-1)))
            .collect();
        props.sort();
        json!([
            s.epoch.0.to_string(), s.view_number.0.to_string(), self.phase(s.phase),
            self.opt(&s.high_vote, |c| self.commit(c)), self.opt(&s.high_commit_qc, |q| self.cqc(q)),
            self.opt(&s.high_timeout_qc, |t| self.tqc(t)),
            props.iter().map(|(n, p)| json!([n.to_string(), p])).collect::<Vec<_>>()
        ])
    }
}

struct EngineInner {
    sh: Arc<Shared>,
    genesis: validator::Genesis,
    persisted: sync::watch::Sender<BlockStoreState>,
    blocks: Mutex<Vec<validator::Block>>,
    state: Mutex<validator::ReplicaState>,
    /// (persists to let through, applied?) for the current operation
    crash: Mutex<Option<(usize, bool)>>,
    crashed: Mutex<bool>,
    log: Log,
    out: Mutex<ctx::channel::UnboundedReceiver<zksync_consensus_bft::ToNetworkMessage>>,
    sent: Mutex<Vec<validator::Signed<validator::ConsensusMsg>>>,
}

#[derive(Clone)]
struct Engine(Arc<EngineInner>);

impl std::fmt::Debug for Engine {
    fn fmt(&self, f: &mut std::fmt::Formatter<'_>) -> std::fmt::Result {
        f.write_str("HarnessEngine")
    }
}

impl Engine {
    /// Moves the messages sent so far into the ordered event log.
    fn drain_out(&self) {
        let mut out = self.0.out.lock().unwrap();
        while let Some(m) = out.try_recv() {
            self.0.log.lock().unwrap().push(json!([1, self.0.sh.cmsg(&m.message.msg)]));
            self.0.sent.lock().unwrap().push(m.message);
        }
    }
}

#[async_trait::async_trait]
impl EngineInterface for Engine {
    async fn genesis(&self, _ctx: &ctx::Ctx) -> ctx::Result<validator::Genesis> {
        Ok(self.0.genesis.clone())
    }
    async fn get_validator_schedule(
        &self,
        _ctx: &ctx::Ctx,
        _n: validator::BlockNumber,
    ) -> ctx::Result<(validator::Schedule, validator::BlockNumber)> {
        Err(anyhow::format_err!("static schedule").into())
    }
    async fn get_pending_validator_schedule(
        &self,
        _ctx: &ctx::Ctx,
        _n: validator::BlockNumber,
    ) -> ctx::Result<Option<(validator::Schedule, validator::BlockNumber)>> {
        Ok(None)
    }
    fn persisted(&self) -> sync::watch::Receiver<BlockStoreState> {
        self.0.persisted.subscribe()
    }
    async fn get_block(&self, _ctx: &ctx::Ctx, n: validator::BlockNumber) -> ctx::Result<validator::Block> {
        self.0
            .blocks
            .lock()
            .unwrap()
            .iter()
            .find(|b| b.number() == n)
            .cloned()
            .ok_or_else(|| anyhow::format_err!("block not found").into())
    }
    async fn queue_next_block(&self, _ctx: &ctx::Ctx, block: validator::Block) -> ctx::Result<()> {
        self.drain_out();
        if let validator::Block::FinalV2(b) = &block {
            self.0.log.lock().unwrap().push(json!([2, b.number().0.to_string(), self.0.sh.pid(&b.header().payload)]));
        }
        self.0.blocks.lock().unwrap().push(block.clone());
        self.0.persisted.send_modify(|p| p.last = Some(Last::from(&block)));
        Ok(())
    }
    async fn verify_pregenesis_block(&self, _ctx: &ctx::Ctx, _b: &validator::PreGenesisBlock) -> ctx::Result<()> {
        Ok(())
    }
    async fn verify_payload(&self, _ctx: &ctx::Ctx, _n: validator::BlockNumber, p: &validator::Payload) -> ctx::Result<()> {
        match payload_id(p) {
            Some(id) if id < 1000 => Ok(()),
            _ => Err(anyhow::format_err!("invalid payload").into()),
        }
    }
    async fn propose_payload(&self, _ctx: &ctx::Ctx, n: validator::BlockNumber) -> ctx::Result<validator::Payload> {
        Ok(payload(100 + (n.0 % 100) as i64))
    }
    async fn get_state(&self, _ctx: &ctx::Ctx) -> ctx::Result<validator::ReplicaState> {
        Ok(self.0.state.lock().unwrap().clone())
    }
    async fn set_state(&self, _ctx: &ctx::Ctx, state: &validator::ReplicaState) -> ctx::Result<()> {
        self.drain_out();
        let mut crash = self.0.crash.lock().unwrap();
        if let Some((k, applied)) = *crash {
            if k == 0 {
                if applied {
                    let stored = through_codec(state)?;
                    self.0.log.lock().unwrap().push(json!([0, self.0.sh.durable(&stored)]));
                    *self.0.state.lock().unwrap() = stored;
                }
                *crash = None;
                *self.0.crashed.lock().unwrap() = true;
                return Err(anyhow::format_err!("crash injected at persist").into());
            }
            *crash = Some((k - 1, applied));
        }
        let stored = through_codec(state)?;
        self.0.log.lock().unwrap().push(json!([0, self.0.sh.durable(&stored)]));
        *self.0.state.lock().unwrap() = stored;
        Ok(())
    }
    async fn push_tx(&self, _ctx: &ctx::Ctx, _tx: Transaction) -> ctx::Result<bool> {
        Ok(true)
    }
}

/// The durable state as the storage layer keeps it: the bytes of `zksync_protobuf::encode`, read back with
/// `decode` (what a restarted replica is given is what the codec returns, not the in-memory value).
fn through_codec(state: &validator::ReplicaState) -> ctx::Result<validator::ReplicaState> {
    zksync_protobuf::decode::<validator::ReplicaState>(&zksync_protobuf::encode(state))
        .map_err(|e| anyhow::format_err!("durable replica state does not decode: {e:#}").into())
}

/// Polls `fut` to quiescence; if it is still pending advances the manual clock once and tries
/// again; None = the future is blocked for good.
async fn bounded<T>(clock: &ctx::ManualClock, advance: time::Duration, fut: impl Future<Output = T>) -> (Option<T>, bool) {
    tokio::pin!(fut);
    let mut advanced = false;
    for round in 0..2 {
        for _ in 0..400 {
            tokio::select! {
                biased;
                r = &mut fut => return (Some(r), advanced),
                _ = tokio::task::yield_now() => {}
            }
        }
        if round == 0 {
            clock.advance(advance);
            advanced = true;
        }
    }
    (None, advanced)
}

fn err_obs(e: &StepError) -> Value {
    match e {
        StepError::Old => json!([1]),
        StepError::InvalidLeader => json!([2]),
        StepError::InvalidSignature => json!([3]),
        StepError::InvalidProposal(v2::LeaderProposalVerifyError::Justification(e)) => json!([4, just_err(e)]),
        StepError::InvalidNewView(v2::ReplicaNewViewVerifyError::Justification(e)) => json!([4, just_err(e)]),
        StepError::InvalidCommit(e) => json!([4, commit_verify_err(e)]),
        StepError::InvalidTimeout(e) => json!([4, timeout_verify_err(e)]),
        StepError::ProposalAlreadyPruned => json!([5]),
        StepError::ReproposalWithPayload => json!([6]),
        StepError::MissingPayload => json!([7]),
        StepError::OversizedPayload => json!([8]),
        StepError::MissingPreviousPayload => json!([9]),
        StepError::InvalidPayload => json!([10]),
        StepError::NonValidatorSigner => json!([11]),
        StepError::DuplicateSigner => json!([12]),
        StepError::Internal(_) => json!([14]),
        StepError::Canceled => json!([15]),
        StepError::OtherProtocolVersion => json!([16]),
    }
}

fn snapshot(sh: &Shared, r: &Replica) -> Value {
    let s = r.snapshot();
    json!([
        s.view.0.to_string(), sh.phase(s.phase),
        sh.opt(&s.high_vote, |c| sh.commit(c)), sh.opt(&s.high_commit_qc, |q| sh.cqc(q)),
        sh.opt(&s.high_timeout_qc, |t| sh.tqc(t)),
        s.proposal_cache.iter().map(|(n, hs)| {
            let mut ids: Vec<i64> = hs.iter().map(|h| sh.pid(h)).collect();
            ids.sort();
            json!([n.0.to_string(), ids])
        }).collect::<Vec<_>>(),
        s.commit_views_cache.iter().map(|(k, v)| json!([sh.w.rank(k), v.0.to_string()])).collect::<Vec<_>>(),
        s.commit_qcs_cache.iter().map(|(v, n)| json!([v.0.to_string(), n])).collect::<Vec<_>>(),
        s.timeout_views_cache.iter().map(|(k, v)| json!([sh.w.rank(k), v.0.to_string()])).collect::<Vec<_>>(),
        s.timeout_qcs_cache.iter().map(|v| json!(v.0.to_string())).collect::<Vec<_>>(),
    ])
}

struct Run {
    sh: Arc<Shared>,
    engine: Engine,
    cfg: Arc<zksync_consensus_bft::Config>,
    out_send: ctx::channel::UnboundedSender<zksync_consensus_bft::ToNetworkMessage>,
    clock: ctx::ManualClock,
    replica: Option<Replica>,
    dead: bool,
    /// predicate data: every message sent, with the verdict of the real `verify` on it
    sent_checks: Vec<Value>,
    sched: validator::Schedule,
    me: validator::PublicKey,
    engine_manager: Arc<EngineManager>,
    /// number of (re)starts so far
    incarnation: usize,
}

const VIEW_TIMEOUT_MS: i64 = 1000;

impl Run {
    fn take_log(&mut self) -> Vec<Value> {
        self.engine.drain_out();
        std::mem::take(&mut *self.engine.0.log.lock().unwrap())
    }

    fn notified(&mut self) -> Value {
        match self.replica.as_mut().and_then(|r| r.take_proposer_justification()) {
            Some(j) => json!([self.sh.just(&j)]),
            None => json!([]),
        }
    }

    fn check_sent(&mut self) {
        let sent = std::mem::take(&mut *self.engine.0.sent.lock().unwrap());
        let g = self.engine.0.genesis.hash();
        for m in sent {
            let sig_ok = m.verify().is_ok();
            #[allow(irrefutable_let_patterns)]
            let validator::ConsensusMsg::V2(inner) = &m.msg
            else {
                continue;
            };
            let e = validator::EpochNumber(0);
            let (kind, view, ok) = match inner {
                v2::ChonkyMsg::LeaderProposal(p) => (0, p.view().number.0, p.verify(g, e, &self.sched).is_ok()),
                v2::ChonkyMsg::ReplicaCommit(c) => (1, c.view.number.0, c.verify(g, e).is_ok()),
                v2::ChonkyMsg::ReplicaTimeout(t) => (2, t.view.number.0, t.verify(g, e, &self.sched).is_ok()),
                v2::ChonkyMsg::ReplicaNewView(n) => (3, n.view().number.0, n.verify(g, e, &self.sched).is_ok()),
            };
            self.sent_checks.push(json!({"kind": kind, "view": view.to_string(), "sig_ok": sig_ok, "verifies": ok,
                                         "by_me": m.key == self.cfg_key(), "msg": self.sh.cmsg(&m.msg),
                                         "incarnation": self.incarnation}));
        }
    }

    fn cfg_key(&self) -> validator::PublicKey {
        self.me.clone()
    }
}

impl Run {
    async fn start_replica(&mut self, ctx: &ctx::Ctx) -> Value {
        *self.engine.0.crashed.lock().unwrap() = false;
        self.incarnation += 1;
        let r = Replica::start(ctx, self.cfg.clone(), self.out_send.clone()).await;
        let mut r = match r {
            Ok(r) => r,
            Err(_) => {
                self.dead = true;
                return json!([[2, [14]], [[], []], []]);
            }
        };
        let (res, _) = bounded(&self.clock, time::Duration::milliseconds(VIEW_TIMEOUT_MS + 1), r.run_prologue(ctx)).await;
        self.replica = Some(r);
        let effects = self.take_log();
        let notified = self.notified();
        self.check_sent();
        let res_obs = match res {
            Some(Ok(())) => json!([0]),
            Some(Err(e)) => {
                self.dead = true;
                json!([2, err_obs(&e)])
            }
            None => {
                self.dead = true;
                json!([2, [13]])
            }
        };
        let snap = snapshot(&self.sh, self.replica.as_ref().unwrap());
        json!([res_obs, [effects, notified], snap])
    }

    fn signed(&self, op: &Value) -> validator::Signed<validator::ConsensusMsg> {
        let w = &self.sh.w;
        let key = op["key"].as_u64().unwrap() as usize;
        let m = &op["m"];
        let msg = if let Some(p) = m.get("proposal") {
            v2::ChonkyMsg::LeaderProposal(v2::LeaderProposal {
                proposal_payload: if p["payload"].is_null() { None } else { Some(payload(p["payload"].as_i64().unwrap())) },
                justification: w.justification(&p["j"]).0,
            })
        } else if let Some(c) = m.get("commit") {
            v2::ChonkyMsg::ReplicaCommit(w.commit(c))
        } else if let Some(t) = m.get("timeout") {
            v2::ChonkyMsg::ReplicaTimeout(w.timeout(t))
        } else {
            v2::ChonkyMsg::ReplicaNewView(v2::ReplicaNewView {
                justification: w.justification(&m["new_view"]["j"]).0,
            })
        };
        let signer = if op["sig_ok"].as_bool().unwrap_or(true) { key } else { (key + 1) % w.pool.len() };
        let mut s = w.pool[signer].sign_msg(validator::ConsensusMsg::V2(msg));
        s.key = w.pool[key].public();
        s
    }

    /// One input (message / timer / sync); returns (result obs, handler returned?).
    async fn input(&mut self, ctx: &ctx::Ctx, op: &Value) -> Value {
        let adv = time::Duration::milliseconds(VIEW_TIMEOUT_MS + 1);
        match op["t"].as_str().unwrap() {
            "sync" => {
                let b = v2::FinalBlock {
                    payload: payload(op["payload"].as_i64().unwrap()),
                    justification: self.sh.w.cqc(&op["qc"]),
                };
                let mgr = self.engine_manager.clone();
                // no clock advance for sync: a block beyond the queue just stays pending
                let fut = mgr.queue_block(ctx, b.into());
                tokio::pin!(fut);
                for _ in 0..400 {
                    tokio::select! { biased; _ = &mut fut => break, _ = tokio::task::yield_now() => {} }
                }
                for _ in 0..50 {
                    tokio::task::yield_now().await;
                }
                json!([0])
            }
            "timer" => {
                let r = self.replica.as_mut().unwrap();
                let (res, _) = bounded(&self.clock, adv, r.start_timeout(ctx)).await;
                match res {
                    Some(Ok(())) => json!([0]),
                    Some(Err(e)) => json!([2, err_obs(&e)]),
                    None => json!([2, [13]]),
                }
            }
            _ => {
                let msg = self.signed(op);
                let r = self.replica.as_mut().unwrap();
                let res = {
                    let fut = std::panic::AssertUnwindSafe(bounded(&self.clock, adv, r.process(ctx, msg)));
                    futures_catch(fut).await
                };
                match res {
                    Ok((Some(Ok(())), _)) => json!([0]),
                    Ok((Some(Err(e)), _)) => json!([2, err_obs(&e)]),
                    Ok((None, _)) => json!([2, [13]]),
                    Err(m) => json!([1, panic_code(&m)]),
                }
            }
        }
    }
}

/// catch_unwind for futures (single threaded, polled in place).
async fn futures_catch<F: Future>(fut: std::panic::AssertUnwindSafe<F>) -> Result<F::Output, String> {
    use std::{pin::Pin, task::{Context, Poll}};
    struct Catch<F>(Pin<Box<F>>);
    impl<F: Future> Future for Catch<F> {
        type Output = Result<F::Output, String>;
        fn poll(mut self: Pin<&mut Self>, cx: &mut Context<'_>) -> Poll<Self::Output> {
            let inner = &mut self.0;
            match std::panic::catch_unwind(std::panic::AssertUnwindSafe(|| inner.as_mut().poll(cx))) {
                Ok(Poll::Ready(v)) => Poll::Ready(Ok(v)),
                Ok(Poll::Pending) => Poll::Pending,
                Err(e) => {
                    let msg = if let Some(s) = e.downcast_ref::<&str>() { s.to_string() }
                        else if let Some(s) = e.downcast_ref::<String>() { s.clone() } else { "panic".into() };
                    Poll::Ready(Err(msg))
                }
            }
        }
    }
    Catch(Box::pin(fut.0)).await
}

fn terminal(res: &Value) -> bool {
    // panic, blocked, internal
    res[0] == json!(1) || (res[0] == json!(2) && (res[1][0] == json!(13) || res[1][0] == json!(14) || res[1][0] == json!(15)))
}

async fn run_case(c: &Value) -> Value {
    let clock = ctx::ManualClock::new();
    let ctx = &ctx::test_root(&clock);
    let mut w = World::new(16);
    let sched = w.schedule(&c["committee"]);
    let first_block = validator::BlockNumber(u64_of(&c["first_block"]));
    let genesis = validator::GenesisRaw {
        chain_id: validator::ChainId(1337),
        fork_number: validator::ForkNumber(0),
        protocol_version: validator::ProtocolVersion(2),
        first_block,
        validators_schedule: Some(sched.clone()),
    }
    .with_hash();
    w.real_genesis = Some(genesis.hash());
    let mut payload_ids = HashMap::new();
    for id in 0..1200 {
        payload_ids.insert(payload_hash(id), id);
    }
    let sh = Arc::new(Shared { w, payload_ids });
    let (out_send, out_recv) = ctx::channel::unbounded();
    let store_first = validator::BlockNumber(u64_of(&c["store_first"]));
    let init_state = if c["durable"].is_null() {
        validator::ReplicaState::default()
    } else {
        let d = &c["durable"];
        validator::ReplicaState::V2(v2::ChonkyV2State {
            epoch: validator::EpochNumber(u64_of(&d["epoch"])),
            view_number: validator::ViewNumber(u64_of(&d["view"])),
            phase: match d["phase"].as_i64().unwrap() { 0 => v2::Phase::Prepare, 1 => v2::Phase::Commit, _ => v2::Phase::Timeout },
            high_vote: if d["high_vote"].is_null() { None } else { Some(sh.w.commit(&d["high_vote"])) },
            high_commit_qc: if d["high_cqc"].is_null() { None } else { Some(sh.w.cqc(&d["high_cqc"])) },
            high_timeout_qc: if d["high_tqc"].is_null() { None } else { Some(sh.w.tqc(&d["high_tqc"]).0) },
            proposals: d["proposals"].as_array().unwrap().iter().map(|p| validator::Proposal {
                number: validator::BlockNumber(u64_of(&p[0])), payload: payload(p[1].as_i64().unwrap()) }).collect(),
        })
    };
    let engine = Engine(Arc::new(EngineInner {
        sh: sh.clone(),
        genesis,
        persisted: sync::watch::channel(BlockStoreState { first: store_first, last: None }).0,
        blocks: Mutex::default(),
        state: Mutex::new(init_state),
        crash: Mutex::new(None),
        crashed: Mutex::new(false),
        log: Arc::default(),
        out: Mutex::new(out_recv),
        sent: Mutex::default(),
    }));
    let (manager, runner) = EngineManager::new(ctx, Box::new(engine.clone()), time::Duration::seconds(100))
        .await
        .expect("engine manager");
    let bg = ctx.with_deadline(time::Deadline::Infinite);
    let runner_task = tokio::spawn(async move { runner.run(&bg).await });
    let me = sh.w.pool[c["me"].as_u64().unwrap() as usize].clone();
    let cfg = Arc::new(
        zksync_consensus_bft::Config::new(
            me.clone(),
            c["max_payload"].as_u64().unwrap_or(100) as usize,
            time::Duration::milliseconds(VIEW_TIMEOUT_MS),
            manager.clone(),
            validator::EpochNumber(0),
        )
        .expect("config"),
    );
    let mut run = Run {
        sh: sh.clone(), engine, cfg, out_send, clock: clock.clone(), replica: None, dead: false,
        sent_checks: vec![], sched, me: me.public(), engine_manager: manager.clone(), incarnation: 0,
    };
    let mut obs = vec![run.start_replica(ctx).await];
    for op in c["ops"].as_array().unwrap() {
        if run.dead {
            obs.push(json!([9]));
            continue;
        }
        let t = op["t"].as_str().unwrap();
        if t == "restart" {
            run.replica = None;
            obs.push(run.start_replica(ctx).await);
            continue;
        }
        let (inner, crash) = if t == "crash" {
            (&op["op"], Some((op["k"].as_u64().unwrap() as usize, op["applied"].as_bool().unwrap())))
        } else {
            (op, None)
        };
        *run.engine.0.crash.lock().unwrap() = crash;
        let mut res = run.input(ctx, inner).await;
        let mut crashed = *run.engine.0.crashed.lock().unwrap();
        let mut effects = run.take_log();
        // after a missed proposal deadline the view timer is the next event; it belongs to the
        // same step (Model.ReplicaRun.rstep_t), so an injected crash may also hit its persist
        if !crashed && res == json!([2, [9]]) {
            let r2 = run.input(ctx, &json!({"t": "timer"})).await;
            effects.extend(run.take_log());
            crashed = *run.engine.0.crashed.lock().unwrap();
            if r2 != json!([0]) {
                res = r2;
            }
        }
        *run.engine.0.crash.lock().unwrap() = None;
        if crashed {
            let pre = effects;
            let pre_not = run.notified();
            run.check_sent();
            run.replica = None;
            let restart = run.start_replica(ctx).await;
            obs.push(json!([[7], [pre, pre_not], restart[1], restart[2]]));
            continue;
        }
        let notified = run.notified();
        run.check_sent();
        if terminal(&res) {
            run.dead = true;
        }
        let snap = snapshot(&run.sh, run.replica.as_ref().unwrap());
        obs.push(json!([res, [effects, notified], snap]));
    }
    // the engine runner must not be dropped mid-flight (must_complete guard): leave it parked
    drop(runner_task);
    json!({"obs": obs, "sent": run.sent_checks,
           "queued": run.engine.0.blocks.lock().unwrap().iter().map(|b| b.number().0.to_string()).collect::<Vec<_>>()})
}

fn main() {
    quiet_panics();
    let rt = tokio::runtime::Builder::new_current_thread().enable_all().build().unwrap();
    for c in read_cases() {
        let v = rt.block_on(run_case(&c));
        write_line(&v);
    }
    // skip destructors of the parked background tasks
    std::process::exit(0);
}
