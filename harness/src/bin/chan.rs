//! C16 (queue half): the inbound consensus queue `zksync_consensus_bft::create_input_channel()`
//! driven with real signed messages, the bft selection / filter functions on explicit pairs,
//! and the generic `prunable_mpsc::channel` with table-driven predicate / selection function.
//!
//! A message is described as [sender rank, kind 0..3, "raw view", sigmode, id]:
//!   kind 0 LeaderProposal, 1 ReplicaCommit, 2 ReplicaTimeout, 3 ReplicaNewView;
//!   raw view = view.number of a vote, or of the justifying certificate (even id: CommitQC,
//!   odd id: TimeoutQC) of a proposal / new-view; id is stored in the view's epoch field;
//!   sigmode 0 valid, 1 signed by another pool key, 2 signature over the message with another
//!   view, 3 signature over the message with another id.
//! cases:
//!   {"t":"queue","pool":n,"ops":[["s",sender,kind,raw,sigmode,id] | ["r"] ...]}
//!   {"t":"sel","pool":n,"pairs":[[old,new]...]}
//!   {"t":"generic","n":n,"pred":[bool..],"sel":[0|1|2 ..],"ops":[["s",v] | ["r"] ...]}
//!   {"t":"conc","pool":n,"threads":[[msg...]...],"recv_delay_us":d}
//! Received messages are decoded back from the message object itself.
use std::sync::{
    atomic::{AtomicBool, AtomicU64, Ordering},
    Arc, Mutex,
};

use serde_json::{json, Value};
use tokio::sync::oneshot;
use vh::{keys, util::*};
use zksync_concurrency::{ctx, sync::prunable_mpsc, time};
use zksync_consensus_bft::{create_input_channel, verif, FromNetworkMessage};
use zksync_consensus_crypto::{Text, TextFmt};
use zksync_consensus_roles::validator::{self, v2};

struct Env {
    pool: Vec<validator::SecretKey>,
    genesis: validator::GenesisHash,
}

fn view(env: &Env, raw: u64, id: u64) -> v2::View {
    v2::View {
        genesis: env.genesis,
        epoch: validator::EpochNumber(id),
        number: validator::ViewNumber(raw),
    }
}

fn commit(env: &Env, raw: u64, id: u64) -> v2::ReplicaCommit {
    v2::ReplicaCommit {
        view: view(env, raw, id),
        proposal: v2::BlockHeader {
            number: validator::BlockNumber(id % 7),
            payload: validator::Payload(vec![(id % 251) as u8]).hash(),
        },
    }
}

fn justification(env: &Env, raw: u64, id: u64) -> v2::ProposalJustification {
    if id % 2 == 0 {
        v2::ProposalJustification::Commit(v2::CommitQC {
            message: commit(env, raw, id),
            signers: v2::Signers::new(env.pool.len()),
            signature: validator::AggregateSignature::default(),
        })
    } else {
        v2::ProposalJustification::Timeout(v2::TimeoutQC::new(view(env, raw, id)))
    }
}

fn body(env: &Env, kind: u64, raw: u64, id: u64) -> validator::ConsensusMsg {
    let m = match kind {
        0 => v2::ChonkyMsg::LeaderProposal(v2::LeaderProposal {
            proposal_payload: if id % 3 == 0 {
                None
            } else {
                Some(validator::Payload(vec![1, 2, (id % 256) as u8]))
            },
            justification: justification(env, raw, id),
        }),
        1 => v2::ChonkyMsg::ReplicaCommit(commit(env, raw, id)),
        2 => v2::ChonkyMsg::ReplicaTimeout(v2::ReplicaTimeout {
            view: view(env, raw, id),
            high_vote: if id % 2 == 0 {
                None
            } else {
                Some(commit(env, raw.saturating_sub(1), id))
            },
            high_qc: None,
        }),
        _ => v2::ChonkyMsg::ReplicaNewView(v2::ReplicaNewView {
            justification: justification(env, raw, id),
        }),
    };
    validator::ConsensusMsg::V2(m)
}

/// [sender, kind, raw, sigmode, id] -> signed message
fn signed(env: &Env, d: &[Value]) -> (validator::Signed<validator::ConsensusMsg>, u64) {
    let sender = d[0].as_u64().unwrap() as usize;
    let kind = d[1].as_u64().unwrap();
    let raw = u64_of(&d[2]);
    let sigmode = d[3].as_u64().unwrap();
    let id = u64_of(&d[4]);
    let msg = body(env, kind, raw, id);
    let n = env.pool.len();
    let s = match sigmode {
        0 => env.pool[sender].sign_msg(msg),
        1 => {
            let mut s = env.pool[(sender + 1) % n].sign_msg(msg);
            s.key = env.pool[sender].public();
            s
        }
        2 => {
            let other = env.pool[sender].sign_msg(body(env, kind, raw ^ 1, id));
            validator::Signed {
                msg,
                key: other.key,
                sig: other.sig,
            }
        }
        _ => {
            let other = env.pool[sender].sign_msg(body(env, kind, raw, id + 1));
            validator::Signed {
                msg,
                key: other.key,
                sig: other.sig,
            }
        }
    };
    (s, id)
}

fn kind_of_label(l: &str) -> i64 {
    match l {
        "LeaderProposalV2" => 0,
        "ReplicaCommitV2" => 1,
        "ReplicaTimeoutV2" => 2,
        "ReplicaNewViewV2" => 3,
        _ => -1,
    }
}

fn id_of(m: &validator::ConsensusMsg) -> u64 {
    let validator::ConsensusMsg::V2(m) = m;
    let jv = |j: &v2::ProposalJustification| match j {
        v2::ProposalJustification::Commit(qc) => qc.message.view.epoch.0,
        v2::ProposalJustification::Timeout(qc) => qc.view.epoch.0,
    };
    match m {
        v2::ChonkyMsg::LeaderProposal(p) => jv(&p.justification),
        v2::ChonkyMsg::ReplicaCommit(c) => c.view.epoch.0,
        v2::ChonkyMsg::ReplicaTimeout(t) => t.view.epoch.0,
        v2::ChonkyMsg::ReplicaNewView(n) => jv(&n.justification),
    }
}

/// descriptor decoded from the message object: [sender rank, kind, "view_number()", id]
fn describe(env: &Env, s: &validator::Signed<validator::ConsensusMsg>) -> Value {
    json!([
        keys::rank(&env.pool, &s.key),
        kind_of_label(s.msg.label()),
        s.msg.view_number().0.to_string(),
        id_of(&s.msg).to_string()
    ])
}

/// recv that does not wait: None if the buffer is empty.
async fn try_recv<T>(ctx: &ctx::Ctx, r: &mut prunable_mpsc::Receiver<T>) -> Option<T> {
    tokio::select! {
        biased;
        v = r.recv(ctx) => Some(v.expect("recv canceled")),
        _ = std::future::ready(()) => None,
    }
}

fn rt() -> tokio::runtime::Runtime {
    tokio::runtime::Builder::new_current_thread()
        .enable_all()
        .build()
        .unwrap()
}

/// ids whose ack sender has been destroyed since the last scan
fn scan_dropped(acks: &mut Vec<(u64, oneshot::Receiver<()>, bool)>) -> Vec<u64> {
    let mut out = vec![];
    for (id, rx, gone) in acks.iter_mut() {
        if *gone {
            continue;
        }
        if let Err(oneshot::error::TryRecvError::Closed) = rx.try_recv() {
            *gone = true;
            out.push(*id);
        }
    }
    out
}

fn run_queue(env: &Env, c: &Value) -> Value {
    let ctx = ctx::root();
    let (send, mut recv) = create_input_channel();
    let mut acks: Vec<(u64, oneshot::Receiver<()>, bool)> = vec![];
    let mut held: Vec<FromNetworkMessage> = vec![];
    let mut obs = vec![];
    rt().block_on(async {
        for o in c["ops"].as_array().unwrap() {
            let o = o.as_array().unwrap();
            if o[0] == "s" {
                let (msg, id) = signed(env, &o[1..]);
                let (ack, rx) = oneshot::channel();
                acks.push((id, rx, false));
                send.send(FromNetworkMessage { msg, ack });
                let d: Vec<String> = scan_dropped(&mut acks)
                    .into_iter()
                    .map(|i| i.to_string())
                    .collect();
                obs.push(json!([0, d]));
            } else {
                match try_recv(&ctx, &mut recv).await {
                    None => obs.push(json!([1, []])),
                    Some(req) => {
                        obs.push(json!([1, [describe(env, &req.msg)]]));
                        held.push(req);
                    }
                }
                // a receive must not destroy anything
                let d = scan_dropped(&mut acks);
                if !d.is_empty() {
                    obs.push(json!([9, d]));
                }
            }
        }
        let mut fin = vec![];
        while let Some(req) = try_recv(&ctx, &mut recv).await {
            fin.push(describe(env, &req.msg));
            held.push(req);
        }
        let late = scan_dropped(&mut acks);
        if !late.is_empty() {
            fin.push(json!([9, late]));
        }
        json!({ "obs": [obs, fin] })
    })
}

fn run_sel(env: &Env, c: &Value) -> Value {
    let mut out = vec![];
    for p in c["pairs"].as_array().unwrap() {
        let mk = |d: &Value| {
            let (msg, _) = signed(env, d.as_array().unwrap());
            let (ack, _rx) = oneshot::channel();
            FromNetworkMessage { msg, ack }
        };
        let (old, new) = (mk(&p[0]), mk(&p[1]));
        out.push(json!([
            verif::inbound_selection_function(&old, &new),
            verif::inbound_filter_predicate(&old),
            verif::inbound_filter_predicate(&new)
        ]));
    }
    json!({ "obs": out })
}

fn run_generic(c: &Value) -> Value {
    let n = c["n"].as_u64().unwrap();
    let pred: Vec<bool> = c["pred"]
        .as_array()
        .unwrap()
        .iter()
        .map(|b| b.as_bool().unwrap())
        .collect();
    let sel: Vec<u64> = c["sel"]
        .as_array()
        .unwrap()
        .iter()
        .map(|b| b.as_u64().unwrap())
        .collect();
    let (send, mut recv) = prunable_mpsc::channel(
        move |v: &u64| pred.get(*v as usize).copied().unwrap_or(false),
        move |old: &u64, new: &u64| match sel.get((*old * n + *new) as usize).copied().unwrap_or(0) {
            1 => prunable_mpsc::SelectionFunctionResult::DiscardOld,
            2 => prunable_mpsc::SelectionFunctionResult::DiscardNew,
            _ => prunable_mpsc::SelectionFunctionResult::Keep,
        },
    );
    let ctx = ctx::root();
    let mut obs = vec![];
    rt().block_on(async {
        for o in c["ops"].as_array().unwrap() {
            if o[0] == "s" {
                send.send(o[1].as_u64().unwrap());
                obs.push(json!([0]));
            } else {
                match try_recv(&ctx, &mut recv).await {
                    None => obs.push(json!([1, []])),
                    Some(v) => obs.push(json!([1, [v]])),
                }
            }
        }
        let mut fin = vec![];
        while let Some(v) = try_recv(&ctx, &mut recv).await {
            fin.push(v);
        }
        json!({ "obs": [obs, fin] })
    })
}

/// Concurrent senders (one OS thread each) and one consumer thread blocked in the real
/// `recv`. Every operation is bracketed by two ticks of a global counter.
fn run_conc(env: &Arc<Env>, c: &Value) -> Value {
    let clock = Arc::new(AtomicU64::new(0));
    let done = Arc::new(AtomicBool::new(false));
    let (send, mut recv) = create_input_channel();
    let send = Arc::new(send);
    let threads = c["threads"].as_array().unwrap();
    // sign everything first so that the senders really overlap
    let mut prepared = vec![];
    let mut acks = vec![];
    for t in threads {
        let mut v = vec![];
        for d in t.as_array().unwrap() {
            let (msg, id) = signed(env, d.as_array().unwrap());
            let (ack, rx) = oneshot::channel();
            acks.push((id, rx, false));
            v.push((id, FromNetworkMessage { msg, ack }));
        }
        prepared.push(v);
    }
    let send_log = Arc::new(Mutex::new(vec![]));
    let start = Arc::new(std::sync::Barrier::new(prepared.len() + 1));
    let mut hs = vec![];
    for v in prepared {
        let (clock, send, log, start) = (clock.clone(), send.clone(), send_log.clone(), start.clone());
        hs.push(std::thread::spawn(move || {
            start.wait();
            for (id, req) in v {
                let t0 = clock.fetch_add(1, Ordering::SeqCst);
                send.send(req);
                let t1 = clock.fetch_add(1, Ordering::SeqCst);
                log.lock().unwrap().push(json!([id, t0, t1]));
            }
        }));
    }
    let delay = c["recv_delay_us"].as_u64().unwrap_or(0);
    let consumer = {
        let (clock, done, env) = (clock.clone(), done.clone(), env.clone());
        std::thread::spawn(move || {
            let root = ctx::root();
            let mut log = vec![];
            let mut held = vec![];
            rt().block_on(async {
                loop {
                    if delay > 0 {
                        std::thread::sleep(std::time::Duration::from_micros(delay));
                    }
                    let finished = done.load(Ordering::SeqCst);
                    let t0 = clock.fetch_add(1, Ordering::SeqCst);
                    let r = recv
                        .recv(&root.with_timeout(time::Duration::milliseconds(3)))
                        .await;
                    let t1 = clock.fetch_add(1, Ordering::SeqCst);
                    match r {
                        Ok(req) => {
                            log.push(json!([t0, t1, describe(&env, &req.msg)]));
                            held.push(req);
                        }
                        Err(ctx::Canceled) => {
                            if finished {
                                break;
                            }
                        }
                    }
                }
                loop {
                    let t0 = clock.fetch_add(1, Ordering::SeqCst);
                    let r = try_recv(&root, &mut recv).await;
                    let t1 = clock.fetch_add(1, Ordering::SeqCst);
                    match r {
                        Some(req) => {
                            log.push(json!([t0, t1, describe(&env, &req.msg)]));
                            held.push(req);
                        }
                        None => break,
                    }
                }
            });
            (log, held)
        })
    };
    start.wait();
    for h in hs {
        h.join().unwrap();
    }
    done.store(true, Ordering::SeqCst);
    let (recv_log, held) = consumer.join().unwrap();
    let dropped: Vec<String> = scan_dropped(&mut acks)
        .into_iter()
        .map(|i| i.to_string())
        .collect();
    drop(held);
    let sends = send_log.lock().unwrap().clone();
    json!({ "sends": sends, "recvs": recv_log, "dropped": dropped })
}

fn main() {
    quiet_panics();
    let genesis: validator::GenesisHash = TextFmt::decode(Text::new(
        "genesis_hash:keccak256:00112233445566778899aabbccddeeff00112233445566778899aabbccddeeff",
    ))
    .expect("genesis hash");
    let mut env = Arc::new(Env {
        pool: keys::validator_pool(16),
        genesis,
    });
    for c in read_cases() {
        let n = c["pool"].as_u64().unwrap_or(16) as usize;
        if n > env.pool.len() {
            env = Arc::new(Env {
                pool: keys::validator_pool(n),
                genesis,
            });
        }
        let t = c["t"].as_str().unwrap_or("queue").to_string();
        let r = {
            let env = env.clone();
            let c = c.clone();
            catch(std::panic::AssertUnwindSafe(move || match t.as_str() {
                "queue" => run_queue(&env, &c),
                "sel" => run_sel(&env, &c),
                "generic" => run_generic(&c),
                "conc" => run_conc(&env, &c),
                _ => json!({"error": "unknown case type"}),
            }))
        };
        match r {
            Ok(v) => write_line(&v),
            Err(m) => write_line(&json!({ "panic": m })),
        }
    }
}
