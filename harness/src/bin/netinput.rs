//! C10: nothing a peer sends may crash the node. One binary, several operations (field "op"):
//!  schema  -> proto descriptors of every registered decoder (for the structure-aware mutator)
//!  seeds   {seed,count} -> valid encodings of every registered type
//!  decode  {t,hex}      -> decode + re-encode + re-decode under catch_unwind
//!  std     {k,...}      -> std_conv.rs reads/builds on explicit proto structs
//!  genesis {...}        -> GenesisRaw::read / build / with_hash
//!  just    {...}        -> ProposalJustification::read guard, view(), ViewNumber/BlockNumber::next,
//!                          inbound queue selection function on signed messages
//!  frame   {...}        -> frame::recv_proto over a scripted transport, heap growth measured
//!  mux / muxsweep       -> the real Mux::run over a scripted transport (header dispatch)
//!  noise   {...}        -> noise handshake / transport reads on attacker bytes
use std::{
    alloc::{GlobalAlloc, Layout, System},
    pin::Pin,
    sync::{
        atomic::{AtomicUsize, Ordering::Relaxed},
        Arc,
    },
    task::{Context, Poll},
};

use rand::{rngs::StdRng, Rng, SeedableRng};
use serde_json::{json, Value};
use vh::util::*;
use zksync_concurrency::{ctx, io, limiter, time};
use zksync_consensus_network as net;
use zksync_consensus_roles::{node, proto as rproto, validator};
use zksync_protobuf::{
    self as zp,
    build::{prost::Message as _, prost_reflect, prost_reflect::ReflectMessage},
    proto::std as pstd,
    ProtoFmt,
};

// ---------------------------------------------------------------------------
// heap accounting

struct Counting;
static CUR: AtomicUsize = AtomicUsize::new(0);
static PEAK: AtomicUsize = AtomicUsize::new(0);

fn note_alloc(n: usize) {
    let c = CUR.fetch_add(n, Relaxed) + n;
    PEAK.fetch_max(c, Relaxed);
}

unsafe impl GlobalAlloc for Counting {
    unsafe fn alloc(&self, l: Layout) -> *mut u8 {
        let p = System.alloc(l);
        if !p.is_null() {
            note_alloc(l.size());
        }
        p
    }
    unsafe fn alloc_zeroed(&self, l: Layout) -> *mut u8 {
        let p = System.alloc_zeroed(l);
        if !p.is_null() {
            note_alloc(l.size());
        }
        p
    }
    unsafe fn dealloc(&self, p: *mut u8, l: Layout) {
        System.dealloc(p, l);
        CUR.fetch_sub(l.size(), Relaxed);
    }
    unsafe fn realloc(&self, p: *mut u8, l: Layout, new: usize) -> *mut u8 {
        let q = System.realloc(p, l, new);
        if !q.is_null() {
            if new >= l.size() {
                note_alloc(new - l.size());
            } else {
                CUR.fetch_sub(l.size() - new, Relaxed);
            }
        }
        q
    }
}

#[global_allocator]
static ALLOC: Counting = Counting;

/// Runs f and returns (result, peak heap growth in bytes while it ran).
fn measure<T>(f: impl FnOnce() -> T) -> (T, usize) {
    let base = CUR.load(Relaxed);
    PEAK.store(base, Relaxed);
    let r = f();
    let peak = PEAK.load(Relaxed);
    (r, peak.saturating_sub(base))
}

// ---------------------------------------------------------------------------
// scripted transport: serves a fixed byte string, then EOF; swallows writes

struct Script {
    data: Vec<u8>,
    pos: usize,
    consumed: Arc<AtomicUsize>,
    /// maximal number of bytes handed out per poll_read (0 = unlimited)
    chunk: usize,
}

impl Script {
    fn new(data: Vec<u8>, chunk: usize) -> (Self, Arc<AtomicUsize>) {
        let c = Arc::new(AtomicUsize::new(0));
        (
            Self {
                data,
                pos: 0,
                consumed: c.clone(),
                chunk,
            },
            c,
        )
    }
}

impl io::AsyncRead for Script {
    fn poll_read(
        mut self: Pin<&mut Self>,
        _cx: &mut Context<'_>,
        buf: &mut io::ReadBuf<'_>,
    ) -> Poll<io::Result<()>> {
        let mut n = std::cmp::min(buf.remaining(), self.data.len() - self.pos);
        if self.chunk > 0 {
            n = std::cmp::min(n, self.chunk);
        }
        let p = self.pos;
        buf.put_slice(&self.data[p..p + n]);
        self.pos += n;
        self.consumed.store(self.pos, Relaxed);
        Poll::Ready(Ok(()))
    }
}

impl io::AsyncWrite for Script {
    fn poll_write(self: Pin<&mut Self>, _cx: &mut Context<'_>, buf: &[u8]) -> Poll<io::Result<usize>> {
        Poll::Ready(Ok(buf.len()))
    }
    fn poll_flush(self: Pin<&mut Self>, _cx: &mut Context<'_>) -> Poll<io::Result<()>> {
        Poll::Ready(Ok(()))
    }
    fn poll_shutdown(self: Pin<&mut Self>, _cx: &mut Context<'_>) -> Poll<io::Result<()>> {
        Poll::Ready(Ok(()))
    }
}

fn rt() -> tokio::runtime::Runtime {
    tokio::runtime::Builder::new_current_thread()
        .enable_all()
        .build()
        .unwrap()
}

fn unhex(v: &Value) -> Vec<u8> {
    let s = v.as_str().unwrap_or("");
    (0..s.len() / 2)
        .map(|i| u8::from_str_radix(&s[2 * i..2 * i + 2], 16).expect("hex"))
        .collect()
}

fn hex(b: &[u8]) -> String {
    let mut s = String::with_capacity(2 * b.len());
    for x in b {
        s.push_str(&format!("{x:02x}"));
    }
    s
}

// ---------------------------------------------------------------------------
// decoder registry

type DecFn = fn(&[u8]) -> Result<Vec<u8>, String>;
type SeedFn = fn(&mut StdRng) -> Vec<u8>;
type DescFn = fn() -> prost_reflect::MessageDescriptor;

struct Ty {
    name: &'static str,
    dec: DecFn,
    seed: SeedFn,
    desc: DescFn,
}

fn dec<T: ProtoFmt>(b: &[u8]) -> Result<Vec<u8>, String> {
    match zp::decode::<T>(b) {
        Ok(v) => Ok(zp::encode(&v)),
        Err(e) => Err(format!("{e:#}")),
    }
}

fn desc<T: ProtoFmt>() -> prost_reflect::MessageDescriptor {
    <T::Proto as Default>::default().descriptor()
}

fn pdesc<P: ReflectMessage + Default>() -> prost_reflect::MessageDescriptor {
    P::default().descriptor()
}

fn gen_seed<T: ProtoFmt>(rng: &mut StdRng) -> Vec<u8>
where
    rand::distributions::Standard: rand::distributions::Distribution<T>,
{
    zp::encode(&rng.gen::<T>())
}

macro_rules! reg {
    ($v:ident, $name:expr, $t:ty) => {
        $v.push(Ty {
            name: $name,
            dec: dec::<$t>,
            seed: gen_seed::<$t>,
            desc: desc::<$t>,
        });
    };
    ($v:ident, $name:expr, $t:ty, $seed:expr) => {
        $v.push(Ty {
            name: $name,
            dec: dec::<$t>,
            seed: $seed,
            desc: desc::<$t>,
        });
    };
}

macro_rules! named {
    ($v:ident, $name:expr, $p:ty, $seed:expr) => {
        $v.push(Ty {
            name: $name,
            dec: |b| net::verif::decode_named($name, b).map_err(|e| format!("{e:#}")),
            seed: $seed,
            desc: pdesc::<$p>,
        });
    };
}

fn seed_duration(rng: &mut StdRng) -> Vec<u8> {
    pstd::Duration {
        seconds: Some(rng.gen_range(-1000..100000)),
        nanos: Some(rng.gen_range(0..1_000_000_000)),
    }
    .encode_to_vec()
}

fn seed_sockaddr(rng: &mut StdRng) -> Vec<u8> {
    let ip: Vec<u8> = if rng.gen() {
        (0..4).map(|_| rng.gen()).collect()
    } else {
        (0..16).map(|_| rng.gen()).collect()
    };
    pstd::SocketAddr {
        ip: Some(ip),
        port: Some(rng.gen_range(0..65536)),
    }
    .encode_to_vec()
}

fn seed_bitvec(rng: &mut StdRng) -> Vec<u8> {
    let n: usize = rng.gen_range(0..40);
    let bytes: Vec<u8> = (0..(n + 7) / 8).map(|_| rng.gen()).collect();
    pstd::BitVector {
        size: Some(n as u64),
        bytes: Some(bytes),
    }
    .encode_to_vec()
}

fn registry() -> Vec<Ty> {
    use net::proto as np;
    let mut v: Vec<Ty> = vec![];
    // zksync_protobuf std conversions
    reg!(v, "std.Void", (), |_| vec![]);
    reg!(v, "std.SocketAddr", std::net::SocketAddr, seed_sockaddr);
    reg!(v, "std.Timestamp", time::Utc, seed_duration);
    reg!(v, "std.Duration", time::Duration, seed_duration);
    reg!(v, "std.BitVector", bit_vec::BitVec, seed_bitvec);
    reg!(v, "std.RateLimit", limiter::Rate, |rng| {
        pstd::RateLimit {
            burst: Some(rng.gen_range(0..1000)),
            refresh: Some(pstd::Duration {
                seconds: Some(rng.gen_range(0..100)),
                nanos: Some(rng.gen_range(0..1_000_000_000)),
            }),
        }
        .encode_to_vec()
    });
    // roles::node
    reg!(v, "node.Msg", node::Msg, |rng| zp::encode(&node::Msg::SessionId(rng.gen())));
    reg!(v, "node.Signed<SessionId>", node::Signed<node::SessionId>);
    reg!(v, "node.PublicKey", node::PublicKey);
    reg!(v, "node.Signature", node::Signature);
    // roles::validator
    reg!(v, "validator.Block", validator::Block);
    reg!(v, "validator.Proposal", validator::Proposal);
    reg!(v, "validator.PayloadHash", validator::PayloadHash);
    reg!(v, "validator.PreGenesisBlock", validator::PreGenesisBlock);
    reg!(v, "validator.ConsensusMsg", validator::ConsensusMsg);
    reg!(v, "validator.ReplicaState", validator::ReplicaState);
    reg!(v, "validator.GenesisRaw", validator::GenesisRaw);
    reg!(v, "validator.Genesis", validator::Genesis);
    reg!(v, "validator.GenesisHash", validator::GenesisHash);
    reg!(v, "validator.NetAddress", validator::NetAddress);
    reg!(v, "validator.Msg", validator::Msg);
    reg!(v, "validator.MsgHash", validator::MsgHash);
    reg!(v, "validator.Signed<ConsensusMsg>", validator::Signed<validator::ConsensusMsg>);
    reg!(v, "validator.Signed<NetAddress>", validator::Signed<validator::NetAddress>);
    reg!(v, "validator.Signed<SessionId>", validator::Signed<node::SessionId>);
    reg!(v, "validator.Signed<ReplicaCommit>", validator::Signed<validator::v2::ReplicaCommit>);
    reg!(v, "validator.Signed<ReplicaTimeout>", validator::Signed<validator::v2::ReplicaTimeout>);
    reg!(v, "validator.Signed<ReplicaNewView>", validator::Signed<validator::v2::ReplicaNewView>);
    reg!(v, "validator.Signed<LeaderProposal>", validator::Signed<validator::v2::LeaderProposal>);
    reg!(v, "validator.Schedule", validator::Schedule);
    reg!(v, "validator.ValidatorInfo", validator::ValidatorInfo);
    reg!(v, "validator.LeaderSelection", validator::LeaderSelection);
    reg!(v, "validator.LeaderSelectionMode", validator::LeaderSelectionMode);
    reg!(v, "validator.PublicKey", validator::PublicKey);
    reg!(v, "validator.Signature", validator::Signature);
    reg!(v, "validator.AggregateSignature", validator::AggregateSignature);
    reg!(v, "v2.BlockHeader", validator::v2::BlockHeader);
    reg!(v, "v2.FinalBlock", validator::v2::FinalBlock);
    reg!(v, "v2.ChonkyMsg", validator::v2::ChonkyMsg);
    reg!(v, "v2.View", validator::v2::View);
    reg!(v, "v2.Signers", validator::v2::Signers);
    reg!(v, "v2.Phase", validator::v2::Phase);
    reg!(v, "v2.ChonkyV2State", validator::v2::ChonkyV2State);
    reg!(v, "v2.ReplicaTimeout", validator::v2::ReplicaTimeout);
    reg!(v, "v2.TimeoutQC", validator::v2::TimeoutQC);
    reg!(v, "v2.ReplicaNewView", validator::v2::ReplicaNewView);
    reg!(v, "v2.ReplicaCommit", validator::v2::ReplicaCommit);
    reg!(v, "v2.CommitQC", validator::v2::CommitQC);
    reg!(v, "v2.LeaderProposal", validator::v2::LeaderProposal);
    reg!(v, "v2.ProposalJustification", validator::v2::ProposalJustification);
    // crate-private wire types of the network crate, through verif::decode_named
    named!(v, "preface.Encryption", np::preface::Encryption, |_| {
        np::preface::Encryption {
            t: Some(np::preface::encryption::T::NoiseNn(np::preface::encryption::NoiseNn {})),
        }
        .encode_to_vec()
    });
    named!(v, "preface.Endpoint", np::preface::Endpoint, |rng| {
        use np::preface::endpoint as e;
        np::preface::Endpoint {
            t: Some(if rng.gen() {
                e::T::ConsensusNet(e::ConsensusNet {})
            } else {
                e::T::GossipNet(e::GossipNet {})
            }),
        }
        .encode_to_vec()
    });
    named!(v, "mux.Handshake", np::mux::Handshake, |rng| {
        let l = |rng: &mut StdRng| -> Vec<(u64, u32)> {
            (0..rng.gen_range(0..4u64)).map(|i| (i, rng.gen_range(0..20))).collect()
        };
        let (a, c) = (l(rng), l(rng));
        net::verif::mux::encode_handshake(&a, &c)
    });
    named!(v, "gossip.Handshake", np::gossip::Handshake, |rng| {
        np::gossip::Handshake {
            session_id: Some(rng.gen::<node::Signed<node::SessionId>>().build()),
            genesis: Some(rng.gen::<validator::GenesisHash>().build()),
            is_static: Some(rng.gen()),
            build_version: if rng.gen() { Some("1.2.3-rc.1+build".to_string()) } else { None },
        }
        .encode_to_vec()
    });
    named!(v, "consensus.Handshake", np::consensus::Handshake, |rng| {
        np::consensus::Handshake {
            session_id: Some(rng.gen::<validator::Signed<node::SessionId>>().build()),
            genesis: Some(rng.gen::<validator::GenesisHash>().build()),
        }
        .encode_to_vec()
    });
    named!(v, "rpc.consensus.Req", np::consensus::ConsensusReq, |rng| {
        np::consensus::ConsensusReq {
            msg: Some(rng.gen::<validator::Signed<validator::ConsensusMsg>>().build()),
        }
        .encode_to_vec()
    });
    named!(v, "rpc.consensus.Resp", np::consensus::ConsensusResp, |_| vec![]);
    named!(v, "rpc.get_block.Req", np::gossip::GetBlockRequest, |rng| {
        np::gossip::GetBlockRequest { number: Some(rng.gen()) }.encode_to_vec()
    });
    named!(v, "rpc.get_block.Resp", np::gossip::GetBlockResponse, |rng| {
        let k = rng.gen_range(0..3);
        np::gossip::GetBlockResponse {
            pre_genesis: if k == 1 { Some(rng.gen::<validator::PreGenesisBlock>().build()) } else { None },
            block_v2: if k == 2 { Some(rng.gen::<validator::v2::FinalBlock>().build()) } else { None },
        }
        .encode_to_vec()
    });
    named!(v, "rpc.push_block_store_state.Req", np::gossip::PushBlockStoreState, |rng| {
        use np::gossip::last::T;
        let last = match rng.gen_range(0..3) {
            0 => None,
            1 => Some(np::gossip::Last { t: Some(T::PreGenesis(rng.gen_range(10..1000))) }),
            _ => Some(np::gossip::Last { t: Some(T::FinalV2(rng.gen::<validator::v2::CommitQC>().build())) }),
        };
        np::gossip::PushBlockStoreState {
            state: Some(np::gossip::BlockStoreState { first: Some(rng.gen_range(0..10)), last }),
        }
        .encode_to_vec()
    });
    named!(v, "rpc.push_validator_addrs.Req", np::gossip::PushValidatorAddrs, |rng| {
        np::gossip::PushValidatorAddrs {
            net_addresses: (0..rng.gen_range(0..3))
                .map(|_| rng.gen::<validator::Signed<validator::NetAddress>>().build())
                .collect(),
        }
        .encode_to_vec()
    });
    named!(v, "rpc.push_tx.Req", np::gossip::PushTx, |rng| {
        np::gossip::PushTx {
            tx: Some(np::gossip::Transaction {
                tx: Some((0..rng.gen_range(0..40)).map(|_| rng.gen()).collect()),
            }),
        }
        .encode_to_vec()
    });
    named!(v, "rpc.ping.Req", np::ping::PingReq, |rng| {
        np::ping::PingReq { data: Some((0..32).map(|_| rng.gen()).collect()) }.encode_to_vec()
    });
    named!(v, "rpc.ping.Resp", np::ping::PingResp, |rng| {
        np::ping::PingResp { data: Some((0..32).map(|_| rng.gen()).collect()) }.encode_to_vec()
    });
    v
}

fn kind_name(k: &prost_reflect::Kind) -> &'static str {
    use prost_reflect::Kind::*;
    match k {
        Double => "double",
        Float => "float",
        Int32 => "int32",
        Int64 => "int64",
        Uint32 => "uint32",
        Uint64 => "uint64",
        Sint32 => "sint32",
        Sint64 => "sint64",
        Fixed32 => "fixed32",
        Fixed64 => "fixed64",
        Sfixed32 => "sfixed32",
        Sfixed64 => "sfixed64",
        Bool => "bool",
        String => "string",
        Bytes => "bytes",
        Message(_) => "message",
        Enum(_) => "enum",
    }
}

fn dump_schema(reg: &[Ty]) -> Value {
    let mut types = serde_json::Map::new();
    let mut msgs = serde_json::Map::new();
    let mut todo: Vec<prost_reflect::MessageDescriptor> = vec![];
    for t in reg {
        let d = (t.desc)();
        types.insert(t.name.to_string(), json!(d.full_name()));
        todo.push(d);
    }
    while let Some(d) = todo.pop() {
        if msgs.contains_key(d.full_name()) {
            continue;
        }
        let mut fs = vec![];
        for f in d.fields() {
            let k = f.kind();
            let m = if let prost_reflect::Kind::Message(md) = &k {
                todo.push(md.clone());
                json!(md.full_name())
            } else {
                Value::Null
            };
            fs.push(json!({"n": f.number(), "name": f.name(), "k": kind_name(&k), "m": m, "l": f.is_list()}));
        }
        msgs.insert(d.full_name().to_string(), json!(fs));
    }
    json!({"types": types, "messages": msgs})
}

/// decode -> encode -> decode again; every phase under catch_unwind.
fn op_decode(reg: &[Ty], c: &Value) -> Value {
    let name = c["t"].as_str().unwrap();
    let Some(t) = reg.iter().find(|t| t.name == name) else {
        return json!({"r": "unknown-type"});
    };
    let bytes = unhex(&c["hex"]);
    let d = t.dec;
    let b2 = bytes.clone();
    match catch(move || d(&b2)) {
        Err(m) => json!({"r": "panic", "msg": m}),
        Ok(Err(e)) => {
            let mut e = e;
            e.truncate(160);
            json!({"r": "error", "msg": e})
        }
        Ok(Ok(enc)) => {
            // `dec` = decode + encode; a panic there has been reported above. Now the value must
            // survive a second trip: the node re-encodes what it decoded (hashing, relaying).
            let e2 = enc.clone();
            let again = catch(move || d(&e2));
            let rt = match &again {
                Ok(Ok(e)) => {
                    if *e == enc {
                        "same"
                    } else {
                        "differs"
                    }
                }
                Ok(Err(_)) => "rejected",
                Err(_) => "panic",
            };
            let mut o = json!({"r": "value", "enc_len": enc.len(), "canonical": enc == bytes, "rt": rt});
            if let Err(m) = again {
                o["rt_msg"] = json!(m);
            }
            let (nm, b3) = (name.to_string(), bytes.clone());
            match catch(move || post_verify(&nm, &b3)) {
                Ok(Some(v)) => o["verify"] = json!(v),
                Ok(None) => {}
                Err(m) => {
                    o["r"] = json!("panic");
                    o["msg"] = json!(format!("verification of the decoded message: {m}"));
                }
            }
            if c["want_enc"].as_bool().unwrap_or(false) {
                o["enc"] = json!(hex(&enc));
            }
            o
        }
    }
}

// ---------------------------------------------------------------------------
// semantic verification of decoded consensus messages (what the replica runs on a message
// after decoding it): must return Ok / Err, never panic, whatever the field values.

fn schedule_of_len(n: usize) -> validator::Schedule {
    let n = n.clamp(1, 16);
    let keys = vh::keys::validator_pool(16);
    validator::Schedule::new(
        keys[..n].iter().map(|k| validator::ValidatorInfo { key: k.public(), weight: 1, leader: true }),
        validator::LeaderSelection { frequency: 1, mode: validator::LeaderSelectionMode::RoundRobin },
    )
    .unwrap()
}

fn verify_chonky(m: &validator::v2::ChonkyMsg) -> String {
    use validator::v2::ChonkyMsg as C;
    match m {
        C::ReplicaCommit(x) => format!("{:?}", x.verify(x.view.genesis, x.view.epoch).is_ok()),
        C::ReplicaTimeout(x) => {
            let n = x.high_qc.as_ref().map(|q| q.signers.len()).unwrap_or(4);
            format!("{:?}", x.verify(x.view.genesis, x.view.epoch, &schedule_of_len(n)).is_ok())
        }
        C::ReplicaNewView(x) => {
            let v = x.view();
            let n = just_len(&x.justification);
            let s = schedule_of_len(n);
            let r = x.verify(v.genesis, v.epoch, &s).is_ok();
            format!("{r:?}")
        }
        C::LeaderProposal(x) => {
            let v = x.view();
            let s = schedule_of_len(just_len(&x.justification));
            let r = x.verify(v.genesis, v.epoch, &s).is_ok();
            format!("{r:?}")
        }
    }
}

fn just_len(j: &validator::v2::ProposalJustification) -> usize {
    match j {
        validator::v2::ProposalJustification::Commit(q) => q.signers.len(),
        validator::v2::ProposalJustification::Timeout(q) => q.map.values().next().map(|s| s.len()).unwrap_or(4),
    }
}

/// Some(result) for the types that have a semantic verification step.
fn post_verify(name: &str, b: &[u8]) -> Option<String> {
    use validator::v2 as m;
    Some(match name {
        "v2.CommitQC" => {
            let q: m::CommitQC = zp::decode(b).ok()?;
            let s = schedule_of_len(q.signers.len());
            format!("{:?}", q.verify(q.view().genesis, q.view().epoch, &s).is_ok())
        }
        "v2.TimeoutQC" => {
            let q: m::TimeoutQC = zp::decode(b).ok()?;
            let n = q.map.values().next().map(|s| s.len()).unwrap_or(4);
            let s = schedule_of_len(n);
            let r = q.verify(q.view.genesis, q.view.epoch, &s).is_ok();
            // the accessors used by get_implied_block, on a certificate that verified
            if r {
                let _ = (q.high_vote(&s), q.high_qc().is_some(), q.weight(&s));
            }
            format!("{r:?}")
        }
        "v2.ReplicaCommit" | "v2.ReplicaTimeout" | "v2.ReplicaNewView" | "v2.LeaderProposal" | "v2.ChonkyMsg" => {
            let c: m::ChonkyMsg = match name {
                "v2.ReplicaCommit" => m::ChonkyMsg::ReplicaCommit(zp::decode(b).ok()?),
                "v2.ReplicaTimeout" => m::ChonkyMsg::ReplicaTimeout(zp::decode(b).ok()?),
                "v2.ReplicaNewView" => m::ChonkyMsg::ReplicaNewView(zp::decode(b).ok()?),
                "v2.LeaderProposal" => m::ChonkyMsg::LeaderProposal(zp::decode(b).ok()?),
                _ => zp::decode(b).ok()?,
            };
            verify_chonky(&c)
        }
        "v2.FinalBlock" => {
            let f: m::FinalBlock = zp::decode(b).ok()?;
            let s = schedule_of_len(f.justification.signers.len());
            let v = *f.justification.view();
            format!("{:?}", f.verify(v.genesis, v.epoch, &s).is_ok())
        }
        "validator.Signed<ConsensusMsg>" | "rpc.consensus.Req" => {
            let bytes = if name == "rpc.consensus.Req" {
                // ConsensusReq { msg = 1 }: strip the outer field
                let p = <net::proto::consensus::ConsensusReq as zp::build::prost::Message>::decode(b).ok()?;
                p.msg?.encode_to_vec()
            } else {
                b.to_vec()
            };
            let sm: validator::Signed<validator::ConsensusMsg> = zp::decode(&bytes).ok()?;
            let sig = sm.verify().is_ok();
            let validator::ConsensusMsg::V2(c) = &sm.msg;
            let label = sm.msg.label();
            let vn = sm.msg.view_number().0;
            format!("{sig} {label} {vn} {}", verify_chonky(c))
        }
        _ => return None,
    })
}

// ---------------------------------------------------------------------------
// std_conv.rs on explicit proto structs

fn opt_i64(v: &Value) -> Option<i64> {
    if v.is_null() {
        None
    } else {
        Some(i64_of(v))
    }
}
fn opt_u64(v: &Value) -> Option<u64> {
    if v.is_null() {
        None
    } else {
        Some(u64_of(v))
    }
}

fn res<T>(r: Result<anyhow::Result<T>, String>, ok: impl FnOnce(T) -> Value) -> Value {
    match r {
        Err(m) => json!({"panic": m}),
        Ok(Err(e)) => json!({"err": format!("{e:#}")}),
        Ok(Ok(v)) => json!({"ok": ok(v)}),
    }
}

fn build_dur(d: time::Duration) -> Value {
    match catch(move || d.build()) {
        Ok(p) => json!({"ok": [p.seconds.unwrap().to_string(), p.nanos.unwrap()]}),
        Err(m) => json!({"panic": m}),
    }
}

fn op_std(c: &Value) -> Value {
    match c["k"].as_str().unwrap() {
        "dur" => {
            let p = pstd::Duration {
                seconds: opt_i64(&c["s"]),
                nanos: opt_i64(&c["n"]).map(|x| x as i32),
            };
            res(catch(move || time::Duration::read(&p)), |d| {
                json!({"s": d.whole_seconds().to_string(), "n": d.subsec_nanoseconds(), "build": build_dur(d)})
            })
        }
        "ts" => {
            let p = pstd::Timestamp {
                seconds: opt_i64(&c["s"]),
                nanos: opt_i64(&c["n"]).map(|x| x as i32),
            };
            res(catch(move || time::Utc::read(&p)), |t| {
                let d = t - time::UNIX_EPOCH;
                let b = match catch(move || t.build()) {
                    Ok(p) => json!({"ok": [p.seconds.unwrap().to_string(), p.nanos.unwrap()]}),
                    Err(m) => json!({"panic": m}),
                };
                json!({"s": d.whole_seconds().to_string(), "n": d.subsec_nanoseconds(), "build": b})
            })
        }
        "dur_new" => {
            // the constructor used before repair dc190e4 (kept as the refuted twin of the model)
            let (s, n) = (i64_of(&c["s"]), i64_of(&c["n"]) as i32);
            match catch(move || time::Duration::new(s, n)) {
                Ok(d) => json!({"ok": {"s": d.whole_seconds().to_string(), "n": d.subsec_nanoseconds()}}),
                Err(m) => json!({"panic": m}),
            }
        }
        "addr" => {
            let p = pstd::SocketAddr {
                ip: if c["ip"].is_null() { None } else { Some(unhex(&c["ip"])) },
                port: opt_u64(&c["port"]).map(|x| x as u32),
            };
            res(catch(move || std::net::SocketAddr::read(&p)), |a| {
                let b = a.build();
                json!({"iplen": b.ip.unwrap().len(), "port": b.port.unwrap()})
            })
        }
        "bits" => {
            let p = pstd::BitVector {
                size: opt_u64(&c["size"]),
                bytes: if c["nbytes"].is_null() {
                    None
                } else {
                    Some(vec![0xa5u8; u64_of(&c["nbytes"]) as usize])
                },
            };
            res(catch(move || bit_vec::BitVec::read(&p)), |b| {
                let q = b.build();
                json!({"len": b.len(), "size": q.size.unwrap().to_string(), "nbytes": q.bytes.unwrap().len()})
            })
        }
        "rate" => {
            let p = pstd::RateLimit {
                burst: opt_u64(&c["burst"]),
                refresh: if c["s"].is_null() && c["n"].is_null() && c["norefresh"].as_bool().unwrap_or(false) {
                    None
                } else {
                    Some(pstd::Duration {
                        seconds: opt_i64(&c["s"]),
                        nanos: opt_i64(&c["n"]).map(|x| x as i32),
                    })
                },
            };
            res(catch(move || limiter::Rate::read(&p)), |r| {
                let b = match catch(move || r.build()) {
                    Ok(p) => json!({"ok": p.burst.unwrap().to_string()}),
                    Err(m) => json!({"panic": m}),
                };
                json!({"burst": (r.burst as u64).to_string(), "build": b})
            })
        }
        k => json!({"unknown": k}),
    }
}

// ---------------------------------------------------------------------------
// GenesisRaw::read

fn valid_schedule_proto() -> rproto::validator::ValidatorSchedule {
    let keys = vh::keys::validator_pool(4);
    let vals: Vec<_> = keys
        .iter()
        .enumerate()
        .map(|(i, k)| validator::ValidatorInfo {
            key: k.public(),
            weight: 1 + i as u64,
            leader: true,
        })
        .collect();
    validator::Schedule::new(
        vals,
        validator::LeaderSelection {
            frequency: 1,
            mode: validator::LeaderSelectionMode::RoundRobin,
        },
    )
    .unwrap()
    .build()
}

fn op_genesis(c: &Value) -> Value {
    let sched = match c["sched"].as_str().unwrap_or("none") {
        "none" => None,
        "valid" => Some(valid_schedule_proto()),
        _ => {
            let mut s = valid_schedule_proto();
            s.validators.clear(); // Schedule::new rejects an empty committee
            Some(s)
        }
    };
    let p = rproto::validator::Genesis {
        chain_id: opt_u64(&c["chain"]),
        fork_number: opt_u64(&c["fork"]),
        first_block: opt_u64(&c["first"]),
        protocol_version: opt_u64(&c["pv"]).map(|x| x as u32),
        validators_schedule: sched,
    };
    let p2 = p.clone();
    let raw = res(catch(move || validator::GenesisRaw::read(&p2)), |g| {
        let pv = g.protocol_version.0;
        let has = g.validators_schedule.is_some();
        let b = match catch(move || g.build()) {
            Ok(_) => json!("ok"),
            Err(m) => json!({"panic": m}),
        };
        json!({"pv": pv, "sched": has, "build": b})
    });
    // Genesis::read = GenesisRaw::read + with_hash (canonical encoding + keccak)
    let full = res(catch(move || validator::Genesis::read(&p)), |_| json!(1));
    json!({"raw": raw, "full": full})
}

// ---------------------------------------------------------------------------
// justification view guard, next(), selection function

fn view(n: u64) -> validator::v2::View {
    validator::v2::View {
        genesis: validator::GenesisHash::default(),
        epoch: validator::EpochNumber(0),
        number: validator::ViewNumber(n),
    }
}

fn justification_proto(kind: &str, n: u64) -> rproto::validator::ProposalJustificationV2 {
    use rproto::validator::proposal_justification_v2::T;
    let sched: validator::Schedule = ProtoFmt::read(&valid_schedule_proto()).unwrap();
    let t = if kind == "commit" {
        let qc = validator::v2::CommitQC::new(
            validator::v2::ReplicaCommit {
                view: view(n),
                proposal: validator::v2::BlockHeader {
                    number: validator::BlockNumber(7),
                    payload: validator::Payload(vec![]).hash(),
                },
            },
            &sched,
        );
        T::CommitQc(qc.build())
    } else {
        T::TimeoutQc(validator::v2::TimeoutQC::new(view(n)).build())
    };
    rproto::validator::ProposalJustificationV2 { t: Some(t) }
}

fn out_u64(r: Result<u64, String>) -> Value {
    match r {
        Ok(v) => json!({"ok": v.to_string()}),
        Err(m) => json!({"panic": m}),
    }
}

fn op_just(c: &Value) -> Value {
    let kind = c["kind"].as_str().unwrap().to_string();
    let n = u64_of(&c["view"]);
    // the raw successor functions
    let vnext = out_u64(catch(move || validator::ViewNumber(n).next().0));
    let bnext = out_u64(catch(move || validator::BlockNumber(n).next().0));
    let enext = out_u64(catch(move || validator::EpochNumber(n).next().0));
    // decoder guard followed by the unverified call site
    let p = justification_proto(&kind, n);
    let p2 = p.clone();
    let read = res(catch(move || validator::v2::ProposalJustification::read(&p2)), |j| {
        out_u64(catch(move || j.view().number.0))
    });
    // a signed ReplicaNewView / LeaderProposal carrying it, offered twice to the inbound queue
    let sel = {
        let bytes_nv = rproto::validator::ReplicaNewViewV2 { justification: Some(p.clone()) }.encode_to_vec();
        let bytes_lp = rproto::validator::LeaderProposalV2 {
            proposal_payload: Some(vec![1, 2, 3]),
            justification: Some(p),
        }
        .encode_to_vec();
        let r = catch(move || {
            let key = &vh::keys::validator_pool(4)[0];
            let mut out = vec![];
            if let Ok(nv) = zp::decode::<validator::v2::ReplicaNewView>(&bytes_nv) {
                let m = key.sign_msg(validator::ConsensusMsg::V2(validator::v2::ChonkyMsg::ReplicaNewView(nv)));
                out.push(m);
            }
            if let Ok(lp) = zp::decode::<validator::v2::LeaderProposal>(&bytes_lp) {
                let m = key.sign_msg(validator::ConsensusMsg::V2(validator::v2::ChonkyMsg::LeaderProposal(lp)));
                out.push(m);
            }
            let mut sels = vec![];
            for m in &out {
                // through the wire as well: what the rpc server hands to the queue
                let wire = zp::encode(m);
                let m2: validator::Signed<validator::ConsensusMsg> = zp::decode(&wire).expect("own encoding");
                let mk = |m: &validator::Signed<validator::ConsensusMsg>| zksync_consensus_bft::FromNetworkMessage {
                    msg: m.clone(),
                    ack: zksync_concurrency::oneshot::channel().0,
                };
                let (a, b) = (mk(m), mk(&m2));
                let f = zksync_consensus_bft::verif::inbound_filter_predicate(&a);
                let s = zksync_consensus_bft::verif::inbound_selection_function(&a, &b);
                sels.push(json!([f, s]));
            }
            sels
        });
        match r {
            Ok(v) => json!({"ok": v}),
            Err(m) => json!({"panic": m}),
        }
    };
    json!({"vnext": vnext, "bnext": bnext, "enext": enext, "read": read, "sel": sel})
}

fn mk_msg(kind: &str, v: u64) -> validator::ConsensusMsg {
    use validator::v2 as m;
    let sched: validator::Schedule = ProtoFmt::read(&valid_schedule_proto()).unwrap();
    let header = m::BlockHeader {
        number: validator::BlockNumber(7),
        payload: validator::Payload(vec![]).hash(),
    };
    let c = match kind {
        "commit" => m::ChonkyMsg::ReplicaCommit(m::ReplicaCommit { view: view(v), proposal: header }),
        "timeout" => m::ChonkyMsg::ReplicaTimeout(m::ReplicaTimeout { view: view(v), high_vote: None, high_qc: None }),
        "newview" => m::ChonkyMsg::ReplicaNewView(m::ReplicaNewView {
            justification: m::ProposalJustification::Timeout(m::TimeoutQC::new(view(v))),
        }),
        _ => m::ChonkyMsg::LeaderProposal(m::LeaderProposal {
            proposal_payload: None,
            justification: m::ProposalJustification::Commit(m::CommitQC::new(
                m::ReplicaCommit { view: view(v), proposal: header },
                &sched,
            )),
        }),
    };
    validator::ConsensusMsg::V2(c)
}

/// inbound_selection_function on two signed messages built in memory (no decoder in between).
fn op_sel(c: &Value) -> Value {
    let keys = vh::keys::validator_pool(4);
    let same = c["same_key"].as_bool().unwrap();
    let (ko, kn) = (c["ko"].as_str().unwrap().to_string(), c["kn"].as_str().unwrap().to_string());
    let (vo, vn) = (u64_of(&c["vo"]), u64_of(&c["vn"]));
    let old = keys[0].sign_msg(mk_msg(&ko, vo));
    let new = keys[if same { 0 } else { 1 }].sign_msg(mk_msg(&kn, vn));
    let mk = |m: validator::Signed<validator::ConsensusMsg>| zksync_consensus_bft::FromNetworkMessage {
        msg: m,
        ack: zksync_concurrency::oneshot::channel().0,
    };
    let (a, b) = (mk(old), mk(new));
    match catch(std::panic::AssertUnwindSafe(|| zksync_consensus_bft::verif::inbound_selection_function(&a, &b))) {
        Ok(r) => json!({"ok": r}),
        Err(m) => json!({"panic": m}),
    }
}

// ---------------------------------------------------------------------------
// frame::recv_proto

fn op_frame(c: &Value) -> Value {
    let max = u64_of(&c["max"]) as usize;
    let data = unhex(&c["hex"]);
    let chunk = c["chunk"].as_u64().unwrap_or(0) as usize;
    let kind = c["t"].as_str().unwrap_or("std.Duration").to_string();
    // the body decoded on its own (what recv_proto must return when the framing is fine)
    let body: Vec<u8> = data.iter().skip(4).cloned().collect();
    let want = if data.len() >= 4 {
        u32::from_le_bytes([data[0], data[1], data[2], data[3]]) as usize
    } else {
        0
    };
    let body_class = if data.len() >= 4 && body.len() >= want {
        let b = body[..want].to_vec();
        let k = kind.clone();
        match catch(move || match k.as_str() {
            "std.Duration" => zp::decode::<time::Duration>(&b).is_ok(),
            "validator.NetAddress" => zp::decode::<validator::NetAddress>(&b).is_ok(),
            k => net::verif::decode_named(k, &b).is_ok(),
        }) {
            Ok(true) => json!(0),
            Ok(false) => json!(1),
            Err(_) => json!(9),
        }
    } else {
        Value::Null
    };
    let (script, consumed) = Script::new(data, chunk);
    let r = rt();
    let (out, peak) = measure(|| {
        catch(std::panic::AssertUnwindSafe(|| {
            r.block_on(async {
                let ctx = &ctx::root();
                let mut s = script;
                match kind.as_str() {
                    "std.Duration" => net::verif::recv_proto::<time::Duration, _>(ctx, &mut s, max).await.map(|_| ()),
                    "validator.NetAddress" => {
                        net::verif::recv_proto::<validator::NetAddress, _>(ctx, &mut s, max).await.map(|_| ())
                    }
                    k => net::verif::recv_named(ctx, &mut s, k, max).await.map(|_| ()),
                }
            })
        }))
    });
    let o = match out {
        Err(m) => json!({"panic": m}),
        Ok(Ok(())) => json!({"ok": 1}),
        Ok(Err(e)) => json!({"err": format!("{e:#}")}),
    };
    json!({"res": o, "consumed": consumed.load(Relaxed), "peak": peak, "body": body_class})
}

// ---------------------------------------------------------------------------
// the real multiplexer over a scripted transport

fn frame_bytes(body: &[u8]) -> Vec<u8> {
    let mut v = (body.len() as u32).to_le_bytes().to_vec();
    v.extend_from_slice(body);
    v
}

/// Returns (variant name | "panic" | "hang" | "ok", message, bytes consumed after the handshake frame).
fn mux_run(na: u32, nc: u32, rfs: u64, script: &[u8], hs: Option<&[u8]>) -> (String, String, i64) {
    let hs_frame = match hs {
        Some(h) => h.to_vec(),
        None => frame_bytes(&net::verif::mux::encode_handshake(&[(0, 1000)], &[(0, 1000)])),
    };
    let hs_len = hs_frame.len();
    let mut data = hs_frame;
    data.extend_from_slice(script);
    let (transport, consumed) = Script::new(data, 0);
    let r = rt();
    let out = catch(std::panic::AssertUnwindSafe(|| {
        r.block_on(async {
            let ctx = &ctx::root();
            let qa = net::verif::mux::VQueue::new(ctx, na, limiter::Rate::INF);
            let qc = net::verif::mux::VQueue::new(ctx, nc, limiter::Rate::INF);
            let mux = net::verif::mux::VMux::new(
                net::verif::mux::VConfig {
                    read_frame_size: rfs,
                    read_buffer_size: 1 << 20,
                    read_frame_count: 1000,
                    write_frame_size: 1 << 14,
                },
                vec![(0, qa)],
                vec![(0, qc)],
            );
            tokio::time::timeout(std::time::Duration::from_secs(300), mux.run(ctx, transport)).await
        })
    }));
    let used = consumed.load(Relaxed) as i64 - hs_len as i64;
    match out {
        Err(m) => ("panic".into(), m, used),
        Ok(Err(_)) => ("hang".into(), String::new(), used),
        Ok(Ok(Ok(()))) => ("ok".into(), String::new(), used),
        Ok(Ok(Err((name, msg)))) => (name, msg, used),
    }
}

fn mux_code(name: &str, msg: &str) -> i64 {
    match name {
        "Closed" => 0,
        "Protocol" if msg.contains("bad stream id") => 2,
        "Protocol" if msg.contains("bad frame kind") => 3,
        "Protocol" => 4,
        "IO" => 5,
        "Config" => 6,
        "Canceled" => 7,
        "hang" => 8,
        "panic" => 9,
        _ => 10,
    }
}

fn op_mux(c: &Value) -> Value {
    let (na, nc, rfs) = (u64_of(&c["na"]) as u32, u64_of(&c["nc"]) as u32, u64_of(&c["rfs"]));
    let script = unhex(&c["hex"]);
    let hs = if c["hs"].is_null() { None } else { Some(unhex(&c["hs"])) };
    let (name, msg, used) = mux_run(na, nc, rfs, &script, hs.as_deref());
    json!({"code": mux_code(&name, &msg), "name": name, "msg": msg, "consumed": used})
}

fn op_muxsweep(c: &Value) -> Value {
    let (na, nc, rfs) = (u64_of(&c["na"]) as u32, u64_of(&c["nc"]) as u32, u64_of(&c["rfs"]));
    let tail = unhex(&c["tail"]);
    let (from, to) = (u64_of(&c["from"]), u64_of(&c["to"]));
    let mut out = vec![];
    let mut panics = vec![];
    for h in from..to {
        let mut s = (h as u16).to_le_bytes().to_vec();
        s.extend_from_slice(&tail);
        let (name, msg, used) = mux_run(na, nc, rfs, &s, None);
        let code = mux_code(&name, &msg);
        if code >= 4 {
            panics.push(json!([h, name, msg]));
        }
        out.push(json!([code, used]));
    }
    // also the pure header accessors for every header of the range
    let parts: Vec<Value> = if c["parts"].as_bool().unwrap_or(false) {
        (from..to)
            .map(|h| {
                let (f, s, i) = net::verif::mux::header_parts(h as u16);
                json!([f, s, i])
            })
            .collect()
    } else {
        vec![]
    };
    json!({"out": out, "odd": panics, "parts": parts})
}

// ---------------------------------------------------------------------------
// frame::mux_recv_proto on a real transient stream between two real multiplexers

/// Client mux (connect side) and server mux (accept side) over an in-memory pipe; the client opens
/// a transient stream, writes `hex`, and closes its write half (end of stream); the server runs
/// `mux_recv_proto::<time::Duration>` with limit `max` on its read half.
fn op_muxframe(c: &Value) -> Value {
    use net::verif::mux::{VConfig, VMux, VQueue};
    let max = u64_of(&c["max"]) as usize;
    let data = unhex(&c["hex"]);
    let wfs = c["wfs"].as_u64().unwrap_or(16 << 10);
    let rfs = c["rfs"].as_u64().unwrap_or(16 << 10);
    let want = if data.len() >= 4 {
        u32::from_le_bytes([data[0], data[1], data[2], data[3]]) as usize
    } else {
        0
    };
    let body_class = if data.len() >= 4 && data.len() - 4 >= want {
        let b = data[4..4 + want].to_vec();
        match catch(move || zp::decode::<time::Duration>(&b).is_ok()) {
            Ok(true) => json!(0),
            Ok(false) => json!(1),
            Err(_) => json!(9),
        }
    } else {
        Value::Null
    };
    let r = rt();
    let out = catch(std::panic::AssertUnwindSafe(|| {
        r.block_on(async {
            let ctx = &ctx::root();
            let cfg = || VConfig {
                read_frame_size: rfs,
                read_buffer_size: 64 << 10,
                read_frame_count: 100,
                write_frame_size: wfs,
            };
            let qc = VQueue::new(ctx, 1, limiter::Rate::INF);
            let qa = VQueue::new(ctx, 1, limiter::Rate::INF);
            let client = VMux::new(cfg(), vec![], vec![(0, qc.clone())]);
            let server = VMux::new(cfg(), vec![(0, qa.clone())], vec![]);
            let (ta, tb) = tokio::io::duplex(1 << 20);
            let res: anyhow::Result<(Result<usize, String>, usize)> =
                zksync_concurrency::scope::run!(ctx, |ctx, s| async {
                    s.spawn_bg(async {
                        let _ = client.run(ctx, ta).await;
                        Ok(())
                    });
                    s.spawn_bg(async {
                        let _ = server.run(ctx, tb).await;
                        Ok(())
                    });
                    let (sc, ss) = tokio::join!(qc.open(ctx), qa.open(ctx));
                    let (sc, mut ss) = (sc?, ss?);
                    let net::verif::mux::VStream { read: _cr, write: mut cw } = sc;
                    cw.write_all(ctx, &data).await?;
                    cw.flush(ctx).await?;
                    drop(cw); // end of stream
                    let base = CUR.load(Relaxed);
                    PEAK.store(base, Relaxed);
                    let r = ss.read.recv_proto_named(ctx, "std.Duration", max).await;
                    let peak = PEAK.load(Relaxed).saturating_sub(base);
                    Ok((r.map_err(|e| format!("{e:#}")), peak))
                })
                .await;
            res
        })
    }));
    match out {
        Err(m) => json!({"res": {"panic": m}, "body": body_class}),
        Ok(Err(e)) => json!({"res": {"setup_err": format!("{e:#}")}, "body": body_class}),
        Ok(Ok((Ok(n), peak))) => json!({"res": {"ok": n}, "peak": peak, "body": body_class}),
        Ok(Ok((Err(e), peak))) => json!({"res": {"err": e}, "peak": peak, "body": body_class}),
    }
}

// ---------------------------------------------------------------------------
// noise: attacker bytes before and after the handshake

fn op_noise(c: &Value) -> Value {
    let data = unhex(&c["hex"]);
    let server = c["server"].as_bool().unwrap_or(true);
    let (script, consumed) = Script::new(data, c["chunk"].as_u64().unwrap_or(0) as usize);
    let r = rt();
    let (out, peak) = measure(|| {
        catch(std::panic::AssertUnwindSafe(|| {
            r.block_on(async {
                let ctx = &ctx::root();
                let res = if server {
                    net::verif::NoiseStream::server_handshake(ctx, script).await
                } else {
                    net::verif::NoiseStream::client_handshake(ctx, script).await
                };
                match res {
                    Err(e) => Err(format!("{e:#}")),
                    Ok(mut s) => {
                        // handshake completed on attacker bytes (possible: NN has no authentication);
                        // now read the rest as transport frames
                        let mut buf = [0u8; 1024];
                        let mut total = 0usize;
                        loop {
                            match io::read(ctx, &mut s, &mut buf).await {
                                Err(_) => break Err("canceled".to_string()),
                                Ok(Err(e)) => break Err(format!("io: {e}")),
                                Ok(Ok(0)) => break Ok(total),
                                Ok(Ok(n)) => total += n,
                            }
                        }
                    }
                }
            })
        }))
    });
    let o = match out {
        Err(m) => json!({"panic": m}),
        Ok(Ok(n)) => json!({"ok": n}),
        Ok(Err(e)) => {
            let mut e = e;
            e.truncate(120);
            json!({"err": e})
        }
    };
    json!({"res": o, "consumed": consumed.load(Relaxed), "peak": peak})
}

/// A genuine handshake between an honest client and the server through a relay, after which the
/// relay (the attacker on the wire) sends `hex` to the server instead of the client's frames.
fn op_noise_transport(c: &Value) -> Value {
    let tail = unhex(&c["hex"]);
    let r = rt();
    let (out, peak) = measure(|| {
        catch(std::panic::AssertUnwindSafe(|| {
            r.block_on(async {
                use tokio::io::{AsyncReadExt as _, AsyncWriteExt as _};
                let ctx = &ctx::root();
                let (a, mut ra) = tokio::io::duplex(1 << 20);
                let (mut rb, b) = tokio::io::duplex(1 << 20);
                let relay = async {
                    // NN: -> e (2 + 32 bytes), <- e, ee (2 + 48 bytes)
                    let mut m1 = [0u8; 34];
                    ra.read_exact(&mut m1).await.map_err(|e| e.to_string())?;
                    rb.write_all(&m1).await.map_err(|e| e.to_string())?;
                    let mut m2 = [0u8; 50];
                    rb.read_exact(&mut m2).await.map_err(|e| e.to_string())?;
                    ra.write_all(&m2).await.map_err(|e| e.to_string())?;
                    Ok::<_, String>(())
                };
                let (cl, sv, rl) = tokio::join!(
                    net::verif::NoiseStream::client_handshake(ctx, a),
                    net::verif::NoiseStream::server_handshake(ctx, b),
                    relay
                );
                rl?;
                let (_cl, mut sv) = (cl.map_err(|e| format!("{e:#}"))?, sv.map_err(|e| format!("{e:#}"))?);
                rb.write_all(&tail).await.map_err(|e| e.to_string())?;
                rb.shutdown().await.map_err(|e| e.to_string())?;
                let mut buf = [0u8; 1024];
                let mut total = 0usize;
                loop {
                    match io::read(ctx, &mut sv, &mut buf).await {
                        Err(_) => break Err("canceled".to_string()),
                        Ok(Err(e)) => break Err(format!("io: {e}")),
                        Ok(Ok(0)) => break Ok(total),
                        Ok(Ok(n)) => total += n,
                    }
                }
            })
        }))
    });
    let o = match out {
        Err(m) => json!({"panic": m}),
        Ok(Ok(n)) => json!({"ok": n}),
        Ok(Err(e)) => {
            let mut e = e;
            e.truncate(120);
            json!({"err": e})
        }
    };
    json!({"res": o, "peak": peak})
}

fn main() {
    quiet_panics();
    let reg = registry();
    for c in read_cases() {
        let out = match c["op"].as_str().unwrap_or("decode") {
            "schema" => dump_schema(&reg),
            "seeds" => {
                let seed = u64_of(&c["seed"]);
                let count = c["count"].as_u64().unwrap_or(3);
                let mut m = serde_json::Map::new();
                for (i, t) in reg.iter().enumerate() {
                    let mut rng = StdRng::seed_from_u64(seed.wrapping_mul(1000003).wrapping_add(i as u64));
                    let l: Vec<Value> = (0..count).map(|_| json!(hex(&(t.seed)(&mut rng)))).collect();
                    m.insert(t.name.to_string(), json!(l));
                }
                json!({"seeds": m})
            }
            "decode" => op_decode(&reg, &c),
            "std" => op_std(&c),
            "genesis" => op_genesis(&c),
            "just" => op_just(&c),
            "sel" => op_sel(&c),
            "frame" => op_frame(&c),
            "mux" => op_mux(&c),
            "muxsweep" => op_muxsweep(&c),
            "muxframe" => op_muxframe(&c),
            "noise" => op_noise(&c),
            "noise_transport" => op_noise_transport(&c),
            o => json!({"unknown_op": o}),
        };
        write_line(&out);
    }
}
