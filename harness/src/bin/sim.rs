//! C01/C06 (and the history monitors of C02/C03): the cluster simulation over REAL replicas.
//! N `zksync_consensus_bft::verif::Replica`s in one process on one current_thread runtime, each
//! with its own harness engine + EngineManager; the soup holds the real signed messages; the
//! interpreter of schedule operations is the one of Model/Sim.v (same definitions, same
//! observation encoding).  See gen/sim_gen.py for the case schema.
use std::{
    collections::HashMap,
    future::Future,
    sync::{
        atomic::{AtomicUsize, Ordering},
        Arc, Mutex,
    },
};

use serde_json::{json, Value};
use vh::{msgs::*, util::*};
use zksync_concurrency::{ctx, sync, time};
use zksync_consensus_bft::verif::{create_proposal, Replica, StepError};
use zksync_consensus_engine::{BlockStoreState, EngineInterface, EngineManager, Last, Transaction};
use zksync_consensus_roles::validator::{self, v2};

type Msg = validator::Signed<validator::ConsensusMsg>;

// ---------------------------------------------------------------------------------------------
// describe functions (encoding of Model/Sim.v: sobs_*)

struct Shared {
    w: World,
    payload_ids: HashMap<validator::PayloadHash, i64>,
}

impl Shared {
    fn pid(&self, h: &validator::PayloadHash) -> i64 {
        *self.payload_ids.get(h).unwrap_or(&-1)
    }
    fn view(&self, v: &v2::View) -> Value {
        json!([self.w.genesis_id(&v.genesis), v.epoch.0.to_string(), v.number.0.to_string()])
    }
    fn commit(&self, c: &v2::ReplicaCommit) -> Value {
        json!([self.view(&c.view), [c.proposal.number.0.to_string(), self.pid(&c.proposal.payload)]])
    }
    fn cqc(&self, q: &v2::CommitQC) -> Value {
        self.commit(&q.message)
    }
    fn opt<T>(&self, x: &Option<T>, f: impl Fn(&T) -> Value) -> Value {
        match x {
            Some(x) => json!([f(x)]),
            None => json!([]),
        }
    }
    fn timeout(&self, t: &v2::ReplicaTimeout) -> Value {
        json!([self.view(&t.view), self.opt(&t.high_vote, |c| self.commit(c)), self.opt(&t.high_qc, |q| self.cqc(q))])
    }
    /// per signer, sorted by signer index: insensitive to grouping / iteration order of the map
    fn tqc(&self, t: &v2::TimeoutQC) -> Value {
        let mut entries: Vec<(usize, Value)> = vec![];
        for (m, s) in t.map.iter() {
            let tv = self.timeout(m);
            for (i, b) in s.0.iter().enumerate() {
                if b {
                    entries.push((i, json!([i, tv.clone()])));
                }
            }
        }
        entries.sort_by_key(|e| e.0);
        json!([self.view(&t.view), entries.into_iter().map(|e| e.1).collect::<Vec<_>>()])
    }
    fn just(&self, j: &v2::ProposalJustification) -> Value {
        match j {
            v2::ProposalJustification::Commit(q) => json!([0, self.cqc(q)]),
            v2::ProposalJustification::Timeout(t) => json!([1, self.tqc(t)]),
        }
    }
    fn cmsg(&self, m: &validator::ConsensusMsg) -> Value {
        #[allow(irrefutable_let_patterns)]
        let validator::ConsensusMsg::V2(m) = m
        else {
            return json!([99]);
        };
        match m {
            v2::ChonkyMsg::LeaderProposal(p) => json!([0,
                self.opt(&p.proposal_payload, |p| json!(payload_id(p).unwrap_or(-1))), self.just(&p.justification)]),
            v2::ChonkyMsg::ReplicaCommit(c) => json!([1, self.commit(c)]),
            v2::ChonkyMsg::ReplicaTimeout(t) => json!([2, self.timeout(t)]),
            v2::ChonkyMsg::ReplicaNewView(n) => json!([3, self.just(&n.justification)]),
        }
    }
    fn phase(&self, p: v2::Phase) -> i64 {
        match p {
            v2::Phase::Prepare => 0,
            v2::Phase::Commit => 1,
            v2::Phase::Timeout => 2,
        }
    }
    fn snapshot(&self, r: &Replica) -> Value {
        let sh = self;
        let s = r.snapshot();
        json!([
            s.view.0.to_string(), sh.phase(s.phase),
            sh.opt(&s.high_vote, |c| sh.commit(c)), sh.opt(&s.high_commit_qc, |q| sh.cqc(q)),
            sh.opt(&s.high_timeout_qc, |t| sh.tqc(t)),
            s.proposal_cache.iter().map(|(n, hs)| {
                let mut ids: Vec<i64> = hs.iter().map(|h| sh.pid(h)).collect();
                ids.sort();
                json!([n.0.to_string(), ids])
            }).collect::<Vec<_>>(),
            s.commit_views_cache.iter().map(|(k, v)| json!([sh.w.rank(k), v.0.to_string()])).collect::<Vec<_>>(),
            s.commit_qcs_cache.iter().map(|(v, n)| json!([v.0.to_string(), n])).collect::<Vec<_>>(),
            s.timeout_views_cache.iter().map(|(k, v)| json!([sh.w.rank(k), v.0.to_string()])).collect::<Vec<_>>(),
            s.timeout_qcs_cache.iter().map(|v| json!(v.0.to_string())).collect::<Vec<_>>(),
        ])
    }
}

fn msg_kind(m: &Msg) -> i64 {
    #[allow(irrefutable_let_patterns)]
    let validator::ConsensusMsg::V2(m) = &m.msg
    else {
        return 99;
    };
    match m {
        v2::ChonkyMsg::LeaderProposal(_) => 0,
        v2::ChonkyMsg::ReplicaCommit(_) => 1,
        v2::ChonkyMsg::ReplicaTimeout(_) => 2,
        v2::ChonkyMsg::ReplicaNewView(_) => 3,
    }
}

// ---------------------------------------------------------------------------------------------
// harness engine (copied from replica.rs; blocks are persisted as soon as they are queued)

/// The durable state as the storage layer keeps it (encode, then decode).
fn through_codec(state: &validator::ReplicaState) -> ctx::Result<validator::ReplicaState> {
    zksync_protobuf::decode::<validator::ReplicaState>(&zksync_protobuf::encode(state))
        .map_err(|e| anyhow::format_err!("durable replica state does not decode: {e:#}").into())
}

struct EngineInner {
    rank: usize,
    genesis: validator::Genesis,
    persisted: sync::watch::Sender<BlockStoreState>,
    blocks: Mutex<Vec<validator::Block>>,
    state: Mutex<validator::ReplicaState>,
    /// (persists to let through, applied?) for the current operation
    crash: Mutex<Option<(usize, bool)>>,
    crashed: Mutex<bool>,
    out: Mutex<ctx::channel::UnboundedReceiver<zksync_consensus_bft::ToNetworkMessage>>,
}

#[derive(Clone)]
struct Engine(Arc<EngineInner>);

impl std::fmt::Debug for Engine {
    fn fmt(&self, f: &mut std::fmt::Formatter<'_>) -> std::fmt::Result {
        f.write_str("SimEngine")
    }
}

impl Engine {
    fn take_sent(&self) -> Vec<Msg> {
        let mut out = self.0.out.lock().unwrap();
        let mut v = vec![];
        while let Some(m) = out.try_recv() {
            v.push(m.message);
        }
        v
    }
}

#[async_trait::async_trait]
impl EngineInterface for Engine {
    async fn genesis(&self, _ctx: &ctx::Ctx) -> ctx::Result<validator::Genesis> {
        Ok(self.0.genesis.clone())
    }
    async fn get_validator_schedule(
        &self,
        _ctx: &ctx::Ctx,
        _n: validator::BlockNumber,
    ) -> ctx::Result<(validator::Schedule, validator::BlockNumber)> {
        Err(anyhow::format_err!("static schedule").into())
    }
    async fn get_pending_validator_schedule(
        &self,
        _ctx: &ctx::Ctx,
        _n: validator::BlockNumber,
    ) -> ctx::Result<Option<(validator::Schedule, validator::BlockNumber)>> {
        Ok(None)
    }
    fn persisted(&self) -> sync::watch::Receiver<BlockStoreState> {
        self.0.persisted.subscribe()
    }
    async fn get_block(&self, _ctx: &ctx::Ctx, n: validator::BlockNumber) -> ctx::Result<validator::Block> {
        self.0
            .blocks
            .lock()
            .unwrap()
            .iter()
            .find(|b| b.number() == n)
            .cloned()
            .ok_or_else(|| anyhow::format_err!("block not found").into())
    }
    async fn queue_next_block(&self, _ctx: &ctx::Ctx, block: validator::Block) -> ctx::Result<()> {
        self.0.blocks.lock().unwrap().push(block.clone());
        self.0.persisted.send_modify(|p| p.last = Some(Last::from(&block)));
        Ok(())
    }
    async fn verify_pregenesis_block(&self, _ctx: &ctx::Ctx, _b: &validator::PreGenesisBlock) -> ctx::Result<()> {
        Ok(())
    }
    async fn verify_payload(&self, _ctx: &ctx::Ctx, _n: validator::BlockNumber, p: &validator::Payload) -> ctx::Result<()> {
        match payload_id(p) {
            Some(id) if id < 1000 => Ok(()),
            _ => Err(anyhow::format_err!("invalid payload").into()),
        }
    }
    async fn propose_payload(&self, _ctx: &ctx::Ctx, n: validator::BlockNumber) -> ctx::Result<validator::Payload> {
        // depends on the proposer (Model.Sim.propose_payload)
        Ok(payload(100 + (n.0 % 20) as i64 + 20 * (self.0.rank % 16) as i64))
    }
    async fn get_state(&self, _ctx: &ctx::Ctx) -> ctx::Result<validator::ReplicaState> {
        Ok(self.0.state.lock().unwrap().clone())
    }
    async fn set_state(&self, _ctx: &ctx::Ctx, state: &validator::ReplicaState) -> ctx::Result<()> {
        let mut crash = self.0.crash.lock().unwrap();
        if let Some((k, applied)) = *crash {
            if k == 0 {
                if applied {
                    *self.0.state.lock().unwrap() = through_codec(state)?;
                }
                *crash = None;
                *self.0.crashed.lock().unwrap() = true;
                return Err(anyhow::format_err!("crash injected at persist").into());
            }
            *crash = Some((k - 1, applied));
        }
        *self.0.state.lock().unwrap() = through_codec(state)?;
        Ok(())
    }
    async fn push_tx(&self, _ctx: &ctx::Ctx, _tx: Transaction) -> ctx::Result<bool> {
        Ok(true)
    }
}

/// Polls `fut` to quiescence; if it is still pending advances the manual clock once and tries
/// again; None = the future is blocked for good.
async fn bounded<T>(clock: &ctx::ManualClock, advance: Option<time::Duration>, fut: impl Future<Output = T>) -> Option<T> {
    tokio::pin!(fut);
    for round in 0..2 {
        for _ in 0..400 {
            tokio::select! {
                biased;
                r = &mut fut => return Some(r),
                _ = tokio::task::yield_now() => {}
            }
        }
        match (round, advance) {
            (0, Some(a)) => clock.advance(a),
            _ => break,
        }
    }
    None
}

fn err_obs(e: &StepError) -> Value {
    match e {
        StepError::Old => json!([1]),
        StepError::InvalidLeader => json!([2]),
        StepError::InvalidSignature => json!([3]),
        StepError::InvalidProposal(v2::LeaderProposalVerifyError::Justification(e)) => json!([4, just_err(e)]),
        StepError::InvalidNewView(v2::ReplicaNewViewVerifyError::Justification(e)) => json!([4, just_err(e)]),
        StepError::InvalidCommit(e) => json!([4, commit_verify_err(e)]),
        StepError::InvalidTimeout(e) => json!([4, timeout_verify_err(e)]),
        StepError::ProposalAlreadyPruned => json!([5]),
        StepError::ReproposalWithPayload => json!([6]),
        StepError::MissingPayload => json!([7]),
        StepError::OversizedPayload => json!([8]),
        StepError::MissingPreviousPayload => json!([9]),
        StepError::InvalidPayload => json!([10]),
        StepError::NonValidatorSigner => json!([11]),
        StepError::DuplicateSigner => json!([12]),
        StepError::Internal(_) => json!([14]),
        StepError::Canceled => json!([15]),
        StepError::OtherProtocolVersion => json!([16]),
    }
}

/// catch_unwind for futures (single threaded, polled in place).
async fn futures_catch<F: Future>(fut: std::panic::AssertUnwindSafe<F>) -> Result<F::Output, String> {
    use std::{pin::Pin, task::{Context, Poll}};
    struct Catch<F>(Pin<Box<F>>);
    impl<F: Future> Future for Catch<F> {
        type Output = Result<F::Output, String>;
        fn poll(mut self: Pin<&mut Self>, cx: &mut Context<'_>) -> Poll<Self::Output> {
            let inner = &mut self.0;
            match std::panic::catch_unwind(std::panic::AssertUnwindSafe(|| inner.as_mut().poll(cx))) {
                Ok(Poll::Ready(v)) => Poll::Ready(Ok(v)),
                Ok(Poll::Pending) => Poll::Pending,
                Err(e) => {
                    let msg = if let Some(s) = e.downcast_ref::<&str>() { s.to_string() }
                        else if let Some(s) = e.downcast_ref::<String>() { s.clone() } else { "panic".into() };
                    Poll::Ready(Err(msg))
                }
            }
        }
    }
    Catch(Box::pin(fut.0)).await
}

fn terminal(res: &Value) -> bool {
    // panic, blocked, internal, canceled
    res[0] == json!(1) || (res[0] == json!(2) && (res[1][0] == json!(13) || res[1][0] == json!(14) || res[1][0] == json!(15)))
}

const VIEW_TIMEOUT_MS: i64 = 1000;

// ---------------------------------------------------------------------------------------------
// nodes

struct Node {
    rank: usize,
    ctx: ctx::Ctx,
    clock: ctx::ManualClock,
    engine: Engine,
    manager: Arc<EngineManager>,
    cfg: Arc<zksync_consensus_bft::Config>,
    out_send: ctx::channel::UnboundedSender<zksync_consensus_bft::ToNetworkMessage>,
    replica: Option<Replica>,
    dead: bool,
    down: bool,
    seen: Vec<bool>,
    _runner: tokio::task::JoinHandle<anyhow::Result<()>>,
}

impl Node {
    fn up(&self) -> bool {
        !self.dead && !self.down
    }
    fn nblocks(&self) -> usize {
        self.engine.0.blocks.lock().unwrap().len()
    }
    fn view(&self) -> Option<u64> {
        self.replica.as_ref().map(|r| r.snapshot().view.0)
    }

    /// StateMachine::start + prologue of run; returns the result class.
    async fn start_replica(&mut self) -> Value {
        *self.engine.0.crashed.lock().unwrap() = false;
        self.replica = None;
        let r = Replica::start(&self.ctx, self.cfg.clone(), self.out_send.clone()).await;
        let mut r = match r {
            Ok(r) => r,
            Err(_) => {
                self.dead = true;
                return json!([2, [14]]);
            }
        };
        let adv = time::Duration::milliseconds(VIEW_TIMEOUT_MS + 1);
        let res = bounded(&self.clock, Some(adv), r.run_prologue(&self.ctx)).await;
        self.replica = Some(r);
        match res {
            Some(Ok(())) => json!([0]),
            Some(Err(e)) => {
                self.dead = true;
                json!([2, err_obs(&e)])
            }
            None => {
                self.dead = true;
                json!([2, [13]])
            }
        }
    }

    /// One handler invocation (None = the view timer).
    async fn input(&mut self, msg: Option<Msg>) -> Value {
        let adv = time::Duration::milliseconds(VIEW_TIMEOUT_MS + 1);
        let r = self.replica.as_mut().unwrap();
        match msg {
            None => {
                let res = {
                    let fut = std::panic::AssertUnwindSafe(bounded(&self.clock, Some(adv), r.start_timeout(&self.ctx)));
                    futures_catch(fut).await
                };
                match res {
                    Ok(Some(Ok(()))) => json!([0]),
                    Ok(Some(Err(e))) => json!([2, err_obs(&e)]),
                    Ok(None) => json!([2, [13]]),
                    Err(m) => json!([1, panic_code(&m)]),
                }
            }
            Some(msg) => {
                let res = {
                    let fut = std::panic::AssertUnwindSafe(bounded(&self.clock, Some(adv), r.process(&self.ctx, msg)));
                    futures_catch(fut).await
                };
                match res {
                    Ok(Some(Ok(()))) => json!([0]),
                    Ok(Some(Err(e))) => json!([2, err_obs(&e)]),
                    Ok(None) => json!([2, [13]]),
                    Err(m) => json!([1, panic_code(&m)]),
                }
            }
        }
    }
}

struct Sim {
    sh: Arc<Shared>,
    sched: validator::Schedule,
    first_block: validator::BlockNumber,
    nodes: Vec<Node>,
    soup: Vec<Msg>,
}

/// (observations of the steps, messages appended)
#[derive(Default)]
struct Acc {
    steps: Vec<Value>,
    out: Vec<Value>,
}

impl Sim {
    fn append(&mut self, acc: &mut Acc, msgs: Vec<Msg>) {
        for m in msgs {
            acc.out.push(json!([self.sh.w.rank(&m.key), self.sh.cmsg(&m.msg)]));
            self.soup.push(m);
        }
    }

    fn leader_of_next(&self, j: &v2::ProposalJustification) -> Option<validator::PublicKey> {
        let v = match j {
            v2::ProposalJustification::Commit(q) => q.message.view.number.0,
            v2::ProposalJustification::Timeout(t) => t.view.number.0,
        };
        let v = v.checked_add(1)?;
        Some(self.sched.view_leader(validator::ViewNumber(v)))
    }

    /// proposer.rs: run_proposer for the justification the step left in the watch
    async fn proposer(&mut self, k: usize) -> Vec<Msg> {
        let Some(j) = self.nodes[k].replica.as_mut().and_then(|r| r.take_proposer_justification()) else {
            return vec![];
        };
        let nd = &self.nodes[k];
        let me = self.sh.w.pool[nd.rank].clone();
        if self.leader_of_next(&j) != Some(me.public()) {
            return vec![];
        }
        let pctx = nd.ctx.with_timeout(time::Duration::milliseconds(VIEW_TIMEOUT_MS));
        let adv = time::Duration::milliseconds(VIEW_TIMEOUT_MS + 1);
        let res = {
            let fut = std::panic::AssertUnwindSafe(bounded(&nd.clock, Some(adv), create_proposal(&pctx, nd.cfg.clone(), j)));
            futures_catch(fut).await
        };
        match res {
            Ok(Some(Ok(p))) => vec![me.sign_msg(validator::ConsensusMsg::V2(v2::ChonkyMsg::LeaderProposal(p)))],
            _ => vec![],
        }
    }

    /// Model.Sim.node_op with OpIn / OpCrash
    async fn node_step(&mut self, acc: &mut Acc, k: usize, msg: Option<Msg>, crash: Option<(usize, bool)>) {
        if k >= self.nodes.len() || !self.nodes[k].up() {
            return;
        }
        *self.nodes[k].engine.0.crash.lock().unwrap() = crash;
        let mut res = self.nodes[k].input(msg).await;
        let mut crashed = *self.nodes[k].engine.0.crashed.lock().unwrap();
        // after a missed proposal deadline the view timer is the next event of the run loop
        // (Model.ReplicaRun.rstep_t)
        if !crashed && res == json!([2, [9]]) {
            let r2 = self.nodes[k].input(None).await;
            crashed = *self.nodes[k].engine.0.crashed.lock().unwrap();
            if r2 != json!([0]) {
                res = r2;
            }
        }
        *self.nodes[k].engine.0.crash.lock().unwrap() = None;
        let mut sent = self.nodes[k].engine.take_sent();
        if crashed {
            let r1 = self.nodes[k].start_replica().await;
            sent.extend(self.nodes[k].engine.take_sent());
            acc.steps.push(json!([k, [7, r1]]));
            self.append(acc, sent);
            return;
        }
        if terminal(&res) {
            self.nodes[k].dead = true;
        } else {
            sent.extend(self.proposer(k).await);
        }
        acc.steps.push(json!([k, res]));
        self.append(acc, sent);
    }

    async fn restart(&mut self, acc: &mut Acc, k: usize) {
        if k >= self.nodes.len() {
            return;
        }
        self.nodes[k].dead = false;
        self.nodes[k].down = false;
        let r = self.nodes[k].start_replica().await;
        let sent = self.nodes[k].engine.take_sent();
        acc.steps.push(json!([k, r]));
        self.append(acc, sent);
    }

    fn mark_seen(&mut self, k: usize, i: usize) {
        if k < self.nodes.len() && self.nodes[k].up() {
            let s = &mut self.nodes[k].seen;
            if s.len() <= i {
                s.resize(i + 1, false);
            }
            s[i] = true;
        }
    }

    async fn deliver(&mut self, acc: &mut Acc, k: usize, i: usize, crash: Option<(usize, bool)>) {
        if i >= self.soup.len() {
            return;
        }
        let m = self.soup[i].clone();
        self.mark_seen(k, i);
        self.node_step(acc, k, Some(m), crash).await;
    }

    /// Model.Sim.deliver_sel: `keys` = None selects everything
    async fn deliver_all(&mut self, acc: &mut Acc, l: usize, k: usize, keys: Option<&[usize]>) {
        if k >= self.nodes.len() {
            return;
        }
        for i in 0..l {
            if self.nodes[k].seen.get(i).copied().unwrap_or(false) {
                continue;
            }
            if let Some(keys) = keys {
                let r = self.sh.w.rank(&self.soup[i].key);
                if !keys.iter().any(|x| *x as i64 == r) {
                    continue;
                }
            }
            self.deliver(acc, k, i, None).await;
        }
    }

    /// Model.Sim.sync_one: true = a block was handed over
    async fn sync_one(&mut self, acc: &mut Acc, k: usize) -> bool {
        if k >= self.nodes.len() || !self.nodes[k].up() {
            return false;
        }
        let next = validator::BlockNumber(self.first_block.0 + self.nodes[k].nblocks() as u64);
        let mut found = None;
        for (j, nd) in self.nodes.iter().enumerate() {
            if j == k {
                continue;
            }
            if let Some(b) = nd.engine.0.blocks.lock().unwrap().iter().find(|b| b.number() == next) {
                found = Some(b.clone());
                break;
            }
        }
        let Some(b) = found else {
            return false;
        };
        let nd = &self.nodes[k];
        let before = nd.nblocks();
        let mgr = nd.manager.clone();
        let _ = bounded(&nd.clock, None, mgr.queue_block(&nd.ctx, b)).await;
        for _ in 0..400 {
            if nd.nblocks() > before {
                break;
            }
            tokio::task::yield_now().await;
        }
        acc.steps.push(json!([k, [0]]));
        // a block that did not arrive would make sync_all spin: report it as a mismatch instead
        nd.nblocks() > before
    }

    async fn sync_all(&mut self, acc: &mut Acc, k: usize) {
        let fuel: usize = self.nodes.iter().map(|n| n.nblocks()).sum::<usize>() + 1;
        for _ in 0..fuel {
            if !self.sync_one(acc, k).await {
                break;
            }
        }
    }

    async fn byz_send(&mut self, acc: &mut Acc, m: Msg, targets: &[usize]) {
        let i = self.soup.len();
        self.append(acc, vec![m]);
        for &k in targets {
            self.deliver(acc, k, i, None).await;
        }
    }

    fn explicit(&self, op: &Value) -> Msg {
        let w = &self.sh.w;
        let key = op["key"].as_u64().unwrap() as usize;
        let m = &op["m"];
        let msg = if let Some(p) = m.get("proposal") {
            v2::ChonkyMsg::LeaderProposal(v2::LeaderProposal {
                proposal_payload: if p["payload"].is_null() { None } else { Some(payload(p["payload"].as_i64().unwrap())) },
                justification: w.justification(&p["j"]).0,
            })
        } else if let Some(c) = m.get("commit") {
            v2::ChonkyMsg::ReplicaCommit(w.commit(c))
        } else if let Some(t) = m.get("timeout") {
            v2::ChonkyMsg::ReplicaTimeout(w.timeout(t))
        } else {
            v2::ChonkyMsg::ReplicaNewView(v2::ReplicaNewView {
                justification: w.justification(&m["new_view"]["j"]).0,
            })
        };
        let signer = if op["sig_ok"].as_bool().unwrap_or(true) { key } else { (key + 1) % w.pool.len() };
        let mut s = w.pool[signer].sign_msg(validator::ConsensusMsg::V2(msg));
        s.key = w.pool[key].public();
        s
    }

    fn byz_proposal(&self, key: usize, pid: i64, mode: i64) -> Option<Msg> {
        let pk = self.sh.w.pool[key].public();
        let mut best = None;
        for m in &self.soup {
            #[allow(irrefutable_let_patterns)]
            let validator::ConsensusMsg::V2(inner) = &m.msg
            else {
                continue;
            };
            let j = match inner {
                v2::ChonkyMsg::LeaderProposal(p) => &p.justification,
                v2::ChonkyMsg::ReplicaNewView(n) => &n.justification,
                _ => continue,
            };
            if self.leader_of_next(j) == Some(pk.clone()) {
                best = Some(j.clone());
            }
        }
        let j = best?;
        let p = match mode {
            1 => Some(payload(pid)),
            2 => None,
            _ => match std::panic::catch_unwind(std::panic::AssertUnwindSafe(|| j.get_implied_block(&self.sched, self.first_block))) {
                Ok((_, Some(_))) => None,
                _ => Some(payload(pid)),
            },
        };
        Some(self.sh.w.pool[key].sign_msg(validator::ConsensusMsg::V2(v2::ChonkyMsg::LeaderProposal(
            v2::LeaderProposal { proposal_payload: p, justification: j },
        ))))
    }

    fn byz_echo(&self, key: usize, kind: i64, back: usize, alt: Option<i64>) -> Option<Msg> {
        let cands: Vec<&Msg> = self.soup.iter().filter(|m| msg_kind(m) == kind).collect();
        if back >= cands.len() {
            return None;
        }
        let m = cands[cands.len() - 1 - back];
        #[allow(irrefutable_let_patterns)]
        let validator::ConsensusMsg::V2(inner) = &m.msg
        else {
            return None;
        };
        let mut inner = inner.clone();
        if let Some(p) = alt {
            match &mut inner {
                v2::ChonkyMsg::ReplicaCommit(c) => c.proposal.payload = payload_hash(p),
                v2::ChonkyMsg::ReplicaTimeout(t) => {
                    if let Some(v) = t.high_vote.as_mut() {
                        v.proposal.payload = payload_hash(p);
                    }
                }
                _ => {}
            }
        }
        Some(self.sh.w.pool[key].sign_msg(validator::ConsensusMsg::V2(inner)))
    }

    async fn round(&mut self, acc: &mut Acc) {
        let l = self.soup.len();
        let views: Vec<Option<u64>> = self.nodes.iter().map(|n| n.view()).collect();
        let ups: Vec<bool> = self.nodes.iter().map(|n| n.up()).collect();
        for k in 0..self.nodes.len() {
            self.deliver_all(acc, l, k, None).await;
        }
        for k in 0..self.nodes.len() {
            self.sync_all(acc, k).await;
        }
        for k in 0..self.nodes.len() {
            // the model compares the view of the (possibly not up) node; a node that is not up
            // does nothing anyway
            if ups[k] && self.nodes[k].up() && self.nodes[k].view() == views[k] {
                self.node_step(acc, k, None, None).await;
            }
        }
    }

    fn obs_node(&self, k: usize) -> Value {
        if k >= self.nodes.len() {
            return json!([k, -1]);
        }
        let nd = &self.nodes[k];
        if nd.down {
            json!([k, 2, nd.nblocks()])
        } else if nd.dead {
            json!([k, 0, nd.nblocks()])
        } else {
            json!([k, 1, nd.nblocks(), self.sh.snapshot(nd.replica.as_ref().unwrap())])
        }
    }

    fn obs_op(&self, acc: Acc, touched: &[usize]) -> Value {
        json!([acc.steps, touched.iter().map(|k| self.obs_node(*k)).collect::<Vec<_>>(), acc.out])
    }

    fn blocks(&self) -> Value {
        Value::Array(self.nodes.iter().map(|nd| {
            Value::Array(nd.engine.0.blocks.lock().unwrap().iter().map(|b| match b {
                validator::Block::FinalV2(b) => json!([b.number().0.to_string(), self.sh.pid(&b.header().payload)]),
                _ => json!([b.number().0.to_string(), -2]),
            }).collect())
        }).collect())
    }
}

fn usizes(v: &Value) -> Vec<usize> {
    v.as_array().map(|a| a.iter().map(|x| x.as_u64().unwrap() as usize).collect()).unwrap_or_default()
}

/// `next_op` yields the operations (None = end of the case); `emit` receives the observation of
/// the start and of every operation as soon as it is known.
async fn run_case(c: &Value, progress: Arc<AtomicUsize>, next_op: &mut dyn FnMut() -> Option<Value>,
                  emit: &mut dyn FnMut(&Value)) -> Value {
    let mut w = World::new(16);
    let sched = w.schedule(&c["committee"]);
    let first_block = validator::BlockNumber(u64_of(&c["first_block"]));
    let genesis = validator::GenesisRaw {
        chain_id: validator::ChainId(1337),
        fork_number: validator::ForkNumber(0),
        protocol_version: validator::ProtocolVersion(2),
        first_block,
        validators_schedule: Some(sched.clone()),
    }
    .with_hash();
    w.real_genesis = Some(genesis.hash());
    let mut payload_ids = HashMap::new();
    for id in 0..1200 {
        payload_ids.insert(payload_hash(id), id);
    }
    let sh = Arc::new(Shared { w, payload_ids });
    let mut nodes = vec![];
    for rank in usizes(&c["nodes"]) {
        let clock = ctx::ManualClock::new();
        let nctx = ctx::test_root(&clock);
        let (out_send, out_recv) = ctx::channel::unbounded();
        let engine = Engine(Arc::new(EngineInner {
            rank,
            genesis: genesis.clone(),
            persisted: sync::watch::channel(BlockStoreState { first: first_block, last: None }).0,
            blocks: Mutex::default(),
            state: Mutex::new(validator::ReplicaState::default()),
            crash: Mutex::new(None),
            crashed: Mutex::new(false),
            out: Mutex::new(out_recv),
        }));
        let (manager, runner) = EngineManager::new(&nctx, Box::new(engine.clone()), time::Duration::seconds(100))
            .await
            .expect("engine manager");
        let bg = nctx.with_deadline(time::Deadline::Infinite);
        let runner_task = tokio::spawn(async move { runner.run(&bg).await });
        let me = sh.w.pool[rank].clone();
        let cfg = Arc::new(
            zksync_consensus_bft::Config::new(
                me,
                c["max_payload"].as_u64().unwrap_or(100) as usize,
                time::Duration::milliseconds(VIEW_TIMEOUT_MS),
                manager.clone(),
                validator::EpochNumber(0),
            )
            .expect("config"),
        );
        nodes.push(Node {
            rank, ctx: nctx, clock, engine, manager, cfg, out_send, replica: None, dead: false, down: false,
            seen: vec![], _runner: runner_task,
        });
    }
    let mut sim = Sim { sh: sh.clone(), sched, first_block, nodes, soup: vec![] };
    let all: Vec<usize> = (0..sim.nodes.len()).collect();
    let mut obs = vec![];
    {
        let mut acc = Acc::default();
        for k in 0..sim.nodes.len() {
            sim.restart(&mut acc, k).await;
        }
        let o = sim.obs_op(acc, &all);
        emit(&o);
        obs.push(o);
    }
    while let Some(op) = next_op() {
        let op = &op;
        let mut acc = Acc::default();
        let k = op["k"].as_u64().unwrap_or(0) as usize;
        let touched: Vec<usize> = match op["t"].as_str().unwrap() {
            "deliver" => {
                sim.deliver(&mut acc, k, op["i"].as_u64().unwrap() as usize, None).await;
                vec![k]
            }
            "timer" => {
                sim.node_step(&mut acc, k, None, None).await;
                vec![k]
            }
            "byz" => {
                let t = usizes(&op["targets"]);
                let m = sim.explicit(op);
                sim.byz_send(&mut acc, m, &t).await;
                t
            }
            "byz_lead" => {
                let t = usizes(&op["targets"]);
                if let Some(m) = sim.byz_proposal(op["key"].as_u64().unwrap() as usize, op["payload"].as_i64().unwrap(), op["mode"].as_i64().unwrap()) {
                    sim.byz_send(&mut acc, m, &t).await;
                }
                t
            }
            "byz_echo" => {
                let t = usizes(&op["targets"]);
                if let Some(m) = sim.byz_echo(op["key"].as_u64().unwrap() as usize, op["kind"].as_i64().unwrap(),
                                              op["back"].as_u64().unwrap() as usize, op["alt"].as_i64()) {
                    sim.byz_send(&mut acc, m, &t).await;
                }
                t
            }
            "crash_deliver" => {
                let cr = Some((op["cp"].as_u64().unwrap() as usize, op["applied"].as_bool().unwrap()));
                sim.deliver(&mut acc, k, op["i"].as_u64().unwrap() as usize, cr).await;
                vec![k]
            }
            "crash_timer" => {
                let cr = Some((op["cp"].as_u64().unwrap() as usize, op["applied"].as_bool().unwrap()));
                sim.node_step(&mut acc, k, None, cr).await;
                vec![k]
            }
            "restart" => {
                sim.restart(&mut acc, k).await;
                vec![k]
            }
            "stop" => {
                if k < sim.nodes.len() && sim.nodes[k].up() {
                    sim.nodes[k].down = true;
                    sim.nodes[k].replica = None;
                    let _ = sim.nodes[k].engine.take_sent();
                }
                vec![k]
            }
            "sync" => {
                sim.sync_one(&mut acc, k).await;
                vec![k]
            }
            "deliver_all" => {
                let l = sim.soup.len();
                sim.deliver_all(&mut acc, l, k, None).await;
                vec![k]
            }
            "lose" => {
                // Model.Sim.lose_all: everything in flight to node k is lost
                for i in 0..sim.soup.len() {
                    sim.mark_seen(k, i);
                }
                vec![k]
            }
            "deliver_from" => {
                let l = sim.soup.len();
                let keys = usizes(&op["keys"]);
                sim.deliver_all(&mut acc, l, k, Some(&keys)).await;
                vec![k]
            }
            "round" => {
                sim.round(&mut acc).await;
                all.clone()
            }
            other => panic!("unknown op {other}"),
        };
        let o = sim.obs_op(acc, &touched);
        emit(&o);
        obs.push(o);
        progress.fetch_add(1, Ordering::SeqCst);
    }
    let blocks = sim.blocks();
    obs.push(blocks.clone());
    let soup: Vec<Value> = sim.soup.iter().map(|m| json!([sh.w.rank(&m.key), m.verify().is_ok() as i64, sh.cmsg(&m.msg)])).collect();
    // parked background tasks (engine runners) are leaked together with the runtime
    std::mem::forget(sim);
    json!({"obs": obs, "soup": soup, "blocks": blocks})
}

// ---------------------------------------------------------------------------------------------
// live mode: the REAL component (`Config::run`: StateMachine::run with its view timer, the
// proposer loop, the inbound queue of lib.rs) of every node on one manual clock, the harness being
// the network.  No model counterpart: only the monitors of gen/sim_gen.py look at these runs.

struct LiveNode {
    rank: usize,
    engine: Engine,
    manager: Arc<EngineManager>,
    out_send: ctx::channel::UnboundedSender<zksync_consensus_bft::ToNetworkMessage>,
    inbound: Option<sync::prunable_mpsc::Sender<zksync_consensus_bft::FromNetworkMessage>>,
    stop: Option<tokio::sync::oneshot::Sender<()>>,
    task: Option<tokio::task::JoinHandle<()>>,
    _runner: tokio::task::JoinHandle<anyhow::Result<()>>,
}

struct Live {
    sh: Arc<Shared>,
    clock: ctx::ManualClock,
    nodes: Vec<LiveNode>,
    /// group id per node (messages pass only inside a group); None = no partition
    groups: Option<Vec<usize>>,
    /// nodes that receive nothing (their own messages still travel)
    deaf: Vec<usize>,
    drop_pct: u64,
    rng: u64,
    forwarded: usize,
    dropped: usize,
    first_block: validator::BlockNumber,
}

impl Live {
    fn rand(&mut self) -> u64 {
        // splitmix64
        self.rng = self.rng.wrapping_add(0x9E3779B97F4A7C15);
        let mut z = self.rng;
        z = (z ^ (z >> 30)).wrapping_mul(0xBF58476D1CE4E5B9);
        z = (z ^ (z >> 27)).wrapping_mul(0x94D049BB133111EB);
        z ^ (z >> 31)
    }

    fn start(&mut self, k: usize) {
        if self.nodes[k].task.is_some() {
            return;
        }
        let nd = &mut self.nodes[k];
        let cfg = zksync_consensus_bft::Config::new(
            self.sh.w.pool[nd.rank].clone(),
            100,
            time::Duration::milliseconds(VIEW_TIMEOUT_MS),
            nd.manager.clone(),
            validator::EpochNumber(0),
        )
        .expect("config");
        let (in_send, in_recv) = zksync_consensus_bft::create_input_channel();
        let (stop_send, stop_recv) = tokio::sync::oneshot::channel::<()>();
        let nctx = ctx::test_root(&self.clock);
        let out = nd.out_send.clone();
        nd.inbound = Some(in_send);
        nd.stop = Some(stop_send);
        nd.task = Some(tokio::spawn(async move {
            let _: Result<(), ctx::Error> = zksync_concurrency::scope::run!(&nctx, |ctx, s| async {
                s.spawn_bg(async {
                    let _ = cfg.run(ctx, out, in_recv).await;
                    Ok(())
                });
                let _ = ctx.wait(stop_recv).await;
                Ok(())
            })
            .await;
        }));
    }

    async fn stop(&mut self, k: usize) {
        let nd = &mut self.nodes[k];
        if let Some(s) = nd.stop.take() {
            let _ = s.send(());
        }
        nd.inbound = None;
        if let Some(t) = nd.task.take() {
            for _ in 0..2000 {
                if t.is_finished() {
                    break;
                }
                tokio::task::yield_now().await;
            }
        }
        // what it had sent before it stopped still travels
    }

    /// forwards everything the nodes have sent; returns the number of messages moved
    fn forward(&mut self) -> usize {
        let mut moved = 0;
        for k in 0..self.nodes.len() {
            for m in self.nodes[k].engine.take_sent() {
                moved += 1;
                for j in 0..self.nodes.len() {
                    if let Some(g) = &self.groups {
                        if g[j] != g[k] {
                            self.dropped += 1;
                            continue;
                        }
                    }
                    if j != k && self.deaf.contains(&j) {
                        self.dropped += 1;
                        continue;
                    }
                    if j != k && self.drop_pct > 0 && self.rand() % 100 < self.drop_pct {
                        self.dropped += 1;
                        continue;
                    }
                    if let Some(inb) = &self.nodes[j].inbound {
                        let (ack, _ack_recv) = zksync_concurrency::oneshot::channel();
                        inb.send(zksync_consensus_bft::FromNetworkMessage { msg: m.clone(), ack });
                        self.forwarded += 1;
                    }
                }
            }
        }
        moved
    }

    /// lets every task run until nothing moves any more
    async fn pump(&mut self) {
        // with instant delivery and honest leaders the cluster never gets quiet (it commits block
        // after block without time passing): the network carries at most 4 * N messages per pump,
        // the rest stays in flight until the next one
        let mut idle = 0;
        let mut total = 0;
        for _ in 0..20000 {
            for _ in 0..20 {
                tokio::task::yield_now().await;
            }
            if total > 4 * self.nodes.len() {
                break;
            }
            let moved = self.forward();
            total += moved;
            if moved > 0 {
                idle = 0;
            } else {
                idle += 1;
                if idle >= 8 {
                    break;
                }
            }
        }
    }

    async fn sync_blocks(&mut self) {
        loop {
            let mut progress = false;
            for k in 0..self.nodes.len() {
                if self.nodes[k].task.is_none() {
                    continue;
                }
                let next = validator::BlockNumber(self.first_block.0 + self.nodes[k].engine.0.blocks.lock().unwrap().len() as u64);
                let mut found = None;
                for (j, nd) in self.nodes.iter().enumerate() {
                    if j != k {
                        if let Some(b) = nd.engine.0.blocks.lock().unwrap().iter().find(|b| b.number() == next) {
                            found = Some(b.clone());
                            break;
                        }
                    }
                }
                if let Some(b) = found {
                    let before = self.nodes[k].engine.0.blocks.lock().unwrap().len();
                    let mgr = self.nodes[k].manager.clone();
                    let sctx = ctx::test_root(&self.clock);
                    let _ = bounded(&self.clock, None, mgr.queue_block(&sctx, b)).await;
                    for _ in 0..400 {
                        if self.nodes[k].engine.0.blocks.lock().unwrap().len() > before {
                            progress = true;
                            break;
                        }
                        tokio::task::yield_now().await;
                    }
                }
            }
            if !progress {
                break;
            }
        }
    }

    fn status(&self) -> Value {
        Value::Array(self.nodes.iter().map(|nd| {
            let validator::ReplicaState::V2(st) = nd.engine.0.state.lock().unwrap().clone();
            json!([nd.task.is_some() as i64, nd.engine.0.blocks.lock().unwrap().len(), st.view_number.0.to_string(), self.sh.phase(st.phase)])
        }).collect())
    }
}

async fn run_live(c: &Value, progress: Arc<AtomicUsize>) -> Value {
    let mut w = World::new(16);
    let sched = w.schedule(&c["committee"]);
    let first_block = validator::BlockNumber(u64_of(&c["first_block"]));
    let genesis = validator::GenesisRaw {
        chain_id: validator::ChainId(1337),
        fork_number: validator::ForkNumber(0),
        protocol_version: validator::ProtocolVersion(2),
        first_block,
        validators_schedule: Some(sched.clone()),
    }
    .with_hash();
    w.real_genesis = Some(genesis.hash());
    let mut payload_ids = HashMap::new();
    for id in 0..1200 {
        payload_ids.insert(payload_hash(id), id);
    }
    let sh = Arc::new(Shared { w, payload_ids });
    let clock = ctx::ManualClock::new();
    let mut nodes = vec![];
    for rank in usizes(&c["nodes"]) {
        let nctx = ctx::test_root(&clock);
        let (out_send, out_recv) = ctx::channel::unbounded();
        let engine = Engine(Arc::new(EngineInner {
            rank,
            genesis: genesis.clone(),
            persisted: sync::watch::channel(BlockStoreState { first: first_block, last: None }).0,
            blocks: Mutex::default(),
            state: Mutex::new(validator::ReplicaState::default()),
            crash: Mutex::new(None),
            crashed: Mutex::new(false),
            out: Mutex::new(out_recv),
        }));
        let (manager, runner) = EngineManager::new(&nctx, Box::new(engine.clone()), time::Duration::seconds(100))
            .await
            .expect("engine manager");
        let runner_task = tokio::spawn(async move { runner.run(&nctx).await });
        nodes.push(LiveNode { rank, engine, manager, out_send, inbound: None, stop: None, task: None, _runner: runner_task });
    }
    let mut live = Live {
        sh: sh.clone(), clock: clock.clone(), nodes, groups: None, deaf: vec![], drop_pct: 0,
        rng: c["live_seed"].as_u64().unwrap_or(1), forwarded: 0, dropped: 0, first_block,
    };
    for k in 0..live.nodes.len() {
        live.start(k);
    }
    live.pump().await;
    let mut obs = vec![live.status()];
    for op in c["script"].as_array().unwrap() {
        match op["t"].as_str().unwrap() {
            "cut" => {
                let mut g = vec![usize::MAX; live.nodes.len()];
                for (gi, members) in op["groups"].as_array().unwrap().iter().enumerate() {
                    for k in usizes(members) {
                        g[k] = gi;
                    }
                }
                // nodes in no group are isolated
                for (k, x) in g.iter_mut().enumerate() {
                    if *x == usize::MAX {
                        *x = 1000 + k;
                    }
                }
                live.groups = Some(g);
            }
            "deaf" => live.deaf = usizes(&op["ks"]),
            "heal" => {
                live.groups = None;
                live.deaf = vec![];
                live.drop_pct = 0;
            }
            "drop" => live.drop_pct = op["pct"].as_u64().unwrap(),
            "tick" => {
                clock.advance(time::Duration::milliseconds(op["ms"].as_i64().unwrap()));
                live.pump().await;
            }
            "stop" => live.stop(op["k"].as_u64().unwrap() as usize).await,
            "start" => {
                live.start(op["k"].as_u64().unwrap() as usize);
                live.pump().await;
            }
            "sync" => {
                live.sync_blocks().await;
                live.pump().await;
            }
            other => panic!("unknown live op {other}"),
        }
        obs.push(live.status());
        progress.fetch_add(1, Ordering::SeqCst);
    }
    let blocks = Value::Array(live.nodes.iter().map(|nd| {
        Value::Array(nd.engine.0.blocks.lock().unwrap().iter().map(|b| match b {
            validator::Block::FinalV2(b) => json!([b.number().0.to_string(), sh.pid(&b.header().payload)]),
            _ => json!([b.number().0.to_string(), -2]),
        }).collect())
    }).collect());
    let res = json!({"live": obs, "blocks": blocks, "forwarded": live.forwarded, "dropped": live.dropped});
    std::mem::forget(live);
    res
}

fn main() {
    quiet_panics();
    if std::env::args().any(|a| a == "--interactive") {
        // line protocol: a case header, then one operation per line ({"t":"end"} closes the case);
        // one output line per input line (the observation; for "end" the case summary)
        use std::io::BufRead;
        let rt = tokio::runtime::Builder::new_current_thread().enable_all().build().unwrap();
        let stdin = std::io::stdin();
        let mut lines = stdin.lock().lines();
        while let Some(Ok(header)) = lines.next() {
            if header.trim().is_empty() {
                continue;
            }
            let c: Value = serde_json::from_str(&header).expect("bad json case");
            let mut next_op = || loop {
                let l = lines.next()?.ok()?;
                if l.trim().is_empty() {
                    continue;
                }
                let v: Value = serde_json::from_str(&l).expect("bad json op");
                return if v["t"] == json!("end") { None } else { Some(v) };
            };
            let mut emit = |o: &Value| write_line(&json!({"obs": o}));
            let v = rt.block_on(run_case(&c, Arc::new(AtomicUsize::new(0)), &mut next_op, &mut emit));
            write_line(&json!({"soup": v["soup"], "blocks": v["blocks"]}));
        }
        std::process::exit(0);
    }
    let watchdog_s: u64 = std::env::var("SIM_WATCHDOG_S").ok().and_then(|s| s.parse().ok()).unwrap_or(120);
    for c in read_cases() {
        // each case on its own thread + runtime, so that a hang can be reported and skipped
        let (tx, rx) = std::sync::mpsc::channel();
        let progress = Arc::new(AtomicUsize::new(0));
        let p2 = progress.clone();
        std::thread::spawn(move || {
            let rt = tokio::runtime::Builder::new_current_thread().enable_all().build().unwrap();
            let v = if c.get("script").is_some() {
                rt.block_on(run_live(&c, p2))
            } else {
                let mut ops = c["ops"].as_array().cloned().unwrap_or_default().into_iter();
                let mut next_op = || ops.next();
                let mut emit = |_: &Value| {};
                rt.block_on(run_case(&c, p2, &mut next_op, &mut emit))
            };
            let _ = tx.send(v);
            // skip destructors of the parked background tasks
            std::mem::forget(rt);
        });
        match rx.recv_timeout(std::time::Duration::from_secs(watchdog_s)) {
            Ok(v) => write_line(&v),
            Err(_) => write_line(&json!({"hang": true, "ops_done": progress.load(Ordering::SeqCst)})),
        }
    }
    std::process::exit(0);
}
