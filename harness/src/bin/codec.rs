//! C09: wire encoding. One JSON case per line, one JSON result per line.
//!
//! ops:
//!  {"op":"schema"}                                   dump of every message descriptor in the global pool
//!  {"op":"pool","n":k}                                key / signature byte strings (valid curve points)
//!  {"op":"canon","pool":"real"|"test","msg":full_name,"hex":..}
//!                                                     zksync_protobuf::canonical_raw with the descriptor
//!  {"op":"prost","pool":..,"msg":..,"hex":..}         prost_reflect DynamicMessage decode + prost field-order encode
//!  {"op":"rt","ty":type name,"hex":..}                decode::<T>, encode, decode again, compare
//!  {"op":"build","ty":..,...}                         typed construction through the public API, then encode/decode
//! argv[1] (optional): path of the translator's JSON view of the synthetic test files.
use serde_json::{json, Value};
use vh::{keys, util::*};
use zksync_concurrency::{limiter, time};
use zksync_consensus_crypto::ByteFmt;
use zksync_consensus_roles::{node, validator};
use zksync_protobuf::build::prost_reflect::{self, prost_types};
use zksync_protobuf::ProtoFmt;

fn hex(b: &[u8]) -> String {
    let mut s = String::with_capacity(b.len() * 2);
    for x in b {
        s.push_str(&format!("{x:02x}"));
    }
    s
}

fn unhex(s: &str) -> Vec<u8> {
    (0..s.len() / 2)
        .map(|i| u8::from_str_radix(&s[2 * i..2 * i + 2], 16).expect("hex"))
        .collect()
}

fn real_pool() -> prost_reflect::DescriptorPool {
    // touching the network descriptor loads std, roles and network files into the global pool
    let d = zksync_consensus_network::proto::DESCRIPTOR
        .get_message_by_name("zksync.network.gossip.Handshake")
        .expect("descriptor");
    d.parent_pool().clone()
}

fn kind_name(k: &prost_reflect::Kind) -> (&'static str, Option<String>) {
    use prost_reflect::Kind::*;
    match k {
        Double => ("KDouble", None),
        Float => ("KFloat", None),
        Int32 => ("KInt32", None),
        Int64 => ("KInt64", None),
        Uint32 => ("KUint32", None),
        Uint64 => ("KUint64", None),
        Sint32 => ("KSint32", None),
        Sint64 => ("KSint64", None),
        Fixed32 => ("KFixed32", None),
        Fixed64 => ("KFixed64", None),
        Sfixed32 => ("KSfixed32", None),
        Sfixed64 => ("KSfixed64", None),
        Bool => ("KBool", None),
        String => ("KString", None),
        Bytes => ("KBytes", None),
        Message(m) => ("KMessage", Some(m.full_name().to_string())),
        Enum(e) => ("KEnum", Some(e.full_name().to_string())),
    }
}

fn dump_pool(pool: &prost_reflect::DescriptorPool) -> Value {
    let mut out = vec![];
    for m in pool.all_messages() {
        let fields: Vec<Value> = m
            .fields()
            .map(|f| {
                let (k, r) = kind_name(&f.kind());
                json!({"name": f.name(), "number": f.number(), "kind": k, "ref": r,
                       "list": f.is_list(), "map": f.is_map(), "presence": f.supports_presence()})
            })
            .collect();
        out.push(json!({
            "name": m.full_name(),
            "proto3": m.parent_file().syntax() == prost_reflect::Syntax::Proto3,
            "fields": fields,
        }));
    }
    json!(out)
}

/// Builds a descriptor pool for the synthetic test files from the translator's JSON view.
fn test_pool(path: &str) -> prost_reflect::DescriptorPool {
    use prost_types::field_descriptor_proto::{Label, Type};
    let v: Value = serde_json::from_str(&std::fs::read_to_string(path).expect("schema json")).unwrap();
    let schema = v["test"].as_array().unwrap();
    let mut files = vec![];
    for (fi, f) in v["test_files"].as_array().unwrap().iter().enumerate() {
        let package = f["package"].as_str().unwrap().to_string();
        let strip = |full: &str| full[package.len() + 1..].to_string();
        let mut fd = prost_types::FileDescriptorProto {
            name: Some(format!("verif_test_{fi}.proto")),
            package: Some(package.clone()),
            syntax: Some(f["syntax"].as_str().unwrap().to_string()),
            ..Default::default()
        };
        for e in f["enums"].as_array().unwrap() {
            fd.enum_type.push(prost_types::EnumDescriptorProto {
                name: Some(strip(e["name"].as_str().unwrap())),
                value: e["values"]
                    .as_array()
                    .unwrap()
                    .iter()
                    .map(|x| prost_types::EnumValueDescriptorProto {
                        name: Some(x[0].as_str().unwrap().to_string()),
                        number: Some(x[1].as_i64().unwrap() as i32),
                        options: None,
                    })
                    .collect(),
                ..Default::default()
            });
        }
        for mname in f["messages"].as_array().unwrap() {
            let mname = mname.as_str().unwrap();
            let m = schema
                .iter()
                .find(|m| m["name"].as_str() == Some(mname))
                .expect("message in schema");
            let mut md = prost_types::DescriptorProto {
                name: Some(strip(mname)),
                ..Default::default()
            };
            for o in m["oneofs"].as_array().unwrap() {
                md.oneof_decl.push(prost_types::OneofDescriptorProto {
                    name: Some(o.as_str().unwrap().to_string()),
                    options: None,
                });
            }
            let real_oneofs = md.oneof_decl.len();
            let mut synthetic = vec![];
            for fl in m["fields"].as_array().unwrap() {
                let kind = fl["kind"].as_str().unwrap();
                let ty = match kind {
                    "KDouble" => Type::Double,
                    "KFloat" => Type::Float,
                    "KInt32" => Type::Int32,
                    "KInt64" => Type::Int64,
                    "KUint32" => Type::Uint32,
                    "KUint64" => Type::Uint64,
                    "KSint32" => Type::Sint32,
                    "KSint64" => Type::Sint64,
                    "KFixed32" => Type::Fixed32,
                    "KFixed64" => Type::Fixed64,
                    "KSfixed32" => Type::Sfixed32,
                    "KSfixed64" => Type::Sfixed64,
                    "KBool" => Type::Bool,
                    "KString" => Type::String,
                    "KBytes" => Type::Bytes,
                    "KMessage" => Type::Message,
                    "KEnum" => Type::Enum,
                    k => panic!("kind {k}"),
                };
                let type_name = match kind {
                    "KMessage" => Some(format!(".{}", fl["msg"].as_str().unwrap())),
                    "KEnum" => Some(format!(".{}", fl["enum"].as_str().unwrap())),
                    _ => None,
                };
                let label = fl["label"].as_str().unwrap();
                let mut p = prost_types::FieldDescriptorProto {
                    name: Some(fl["name"].as_str().unwrap().to_string()),
                    number: Some(fl["number"].as_i64().unwrap() as i32),
                    label: Some(if label == "repeated" { Label::Repeated } else { Label::Optional } as i32),
                    r#type: Some(ty as i32),
                    type_name,
                    ..Default::default()
                };
                match label {
                    "oneof" => p.oneof_index = Some(fl["oneof"].as_i64().unwrap() as i32),
                    // `optional` keyword: protoc marks the field proto3_optional inside a synthetic oneof;
                    // a bare message field became label "optional" in the translator without the keyword.
                    "optional" if !(kind == "KMessage" && fl["keyword"].as_bool() == Some(false)) => {
                        p.proto3_optional = Some(true);
                        p.oneof_index = Some((real_oneofs + synthetic.len()) as i32);
                        synthetic.push(format!("_{}", fl["name"].as_str().unwrap()));
                    }
                    _ => {}
                }
                md.field.push(p);
            }
            for s in synthetic {
                md.oneof_decl.push(prost_types::OneofDescriptorProto {
                    name: Some(s),
                    options: None,
                });
            }
            fd.message_type.push(md);
        }
        files.push(fd);
    }
    prost_reflect::DescriptorPool::from_file_descriptor_set(prost_types::FileDescriptorSet { file: files })
        .expect("test descriptor pool")
}

fn rt<T: ProtoFmt + PartialEq>(bytes: &[u8]) -> Value {
    match zksync_protobuf::decode::<T>(bytes) {
        Err(e) => json!({"err": format!("{e:#}")}),
        Ok(v) => {
            let enc = zksync_protobuf::encode(&v);
            match zksync_protobuf::decode::<T>(&enc) {
                Ok(w) => json!({"ok": hex(&enc), "same": w == v, "enc2": hex(&zksync_protobuf::encode(&w))}),
                Err(e) => json!({"ok": hex(&enc), "same": false, "enc2": Value::Null, "err2": format!("{e:#}")}),
            }
        }
    }
}

fn rt_noeq<T: ProtoFmt>(bytes: &[u8]) -> Value {
    match zksync_protobuf::decode::<T>(bytes) {
        Err(e) => json!({"err": format!("{e:#}")}),
        Ok(v) => {
            let enc = zksync_protobuf::encode(&v);
            match zksync_protobuf::decode::<T>(&enc) {
                Ok(w) => {
                    let enc2 = zksync_protobuf::encode(&w);
                    json!({"ok": hex(&enc), "same": enc2 == enc, "enc2": hex(&enc2)})
                }
                Err(e) => json!({"ok": hex(&enc), "same": false, "enc2": Value::Null, "err2": format!("{e:#}")}),
            }
        }
    }
}

fn rt_named(kind: &str, bytes: &[u8]) -> Value {
    match zksync_consensus_network::verif::decode_named(kind, bytes) {
        Err(e) => json!({"err": format!("{e:#}")}),
        Ok(enc) => match zksync_consensus_network::verif::decode_named(kind, &enc) {
            Ok(enc2) => json!({"ok": hex(&enc), "same": enc2 == enc, "enc2": hex(&enc2)}),
            Err(e) => json!({"ok": hex(&enc), "same": false, "enc2": Value::Null, "err2": format!("{e:#}")}),
        },
    }
}

fn bits_json(b: &bit_vec::BitVec) -> Value {
    json!(b.iter().map(|x| x as u8).collect::<Vec<_>>())
}

fn dur_json(d: &time::Duration) -> Value {
    json!([d.whole_seconds().to_string(), d.subsec_nanoseconds()])
}

fn addr_json(a: &std::net::SocketAddr) -> Value {
    let ip = match a.ip() {
        std::net::IpAddr::V4(ip) => ip.octets().to_vec(),
        std::net::IpAddr::V6(ip) => ip.octets().to_vec(),
    };
    json!([hex(&ip), a.port()])
}

/// Typed view of a decoded std value (independent of the encoder).
fn std_val(ty: &str, bytes: &[u8]) -> Value {
    match ty {
        "std.Duration" => zksync_protobuf::decode::<time::Duration>(bytes).map(|d| dur_json(&d)).unwrap_or(Value::Null),
        "std.Timestamp" => zksync_protobuf::decode::<time::Utc>(bytes)
            .map(|t| dur_json(&(t - time::UNIX_EPOCH)))
            .unwrap_or(Value::Null),
        "std.SocketAddr" => zksync_protobuf::decode::<std::net::SocketAddr>(bytes).map(|a| addr_json(&a)).unwrap_or(Value::Null),
        "std.BitVector" => zksync_protobuf::decode::<bit_vec::BitVec>(bytes).map(|b| bits_json(&b)).unwrap_or(Value::Null),
        _ => Value::Null,
    }
}

fn rt_type(ty: &str, b: &[u8]) -> Value {
    use validator as v;
    match ty {
        "std.Void" => rt::<()>(b),
        "std.Timestamp" => rt::<time::Utc>(b),
        "std.Duration" => rt::<time::Duration>(b),
        "std.SocketAddr" => rt::<std::net::SocketAddr>(b),
        "std.BitVector" => rt::<bit_vec::BitVec>(b),
        "std.RateLimit" => rt::<limiter::Rate>(b),
        "validator.PublicKey" => rt::<v::PublicKey>(b),
        "validator.Signature" => rt::<v::Signature>(b),
        "validator.AggregateSignature" => rt::<v::AggregateSignature>(b),
        "validator.View" => rt::<v::v2::View>(b),
        "validator.BlockHeader" => rt::<v::v2::BlockHeader>(b),
        "validator.ReplicaCommit" => rt::<v::v2::ReplicaCommit>(b),
        "validator.CommitQC" => rt::<v::v2::CommitQC>(b),
        "validator.ReplicaTimeout" => rt::<v::v2::ReplicaTimeout>(b),
        "validator.TimeoutQC" => rt::<v::v2::TimeoutQC>(b),
        "validator.ProposalJustification" => rt::<v::v2::ProposalJustification>(b),
        "validator.LeaderProposal" => rt::<v::v2::LeaderProposal>(b),
        "validator.ReplicaNewView" => rt::<v::v2::ReplicaNewView>(b),
        "validator.ChonkyMsg" => rt::<v::v2::ChonkyMsg>(b),
        "validator.Signers" => rt::<v::v2::Signers>(b),
        "validator.Phase" => rt::<v::v2::Phase>(b),
        "validator.FinalBlock" => rt::<v::v2::FinalBlock>(b),
        "validator.ChonkyV2State" => rt::<v::v2::ChonkyV2State>(b),
        "validator.ConsensusMsg" => rt::<v::ConsensusMsg>(b),
        "validator.Msg" => rt::<v::Msg>(b),
        "validator.MsgHash" => rt::<v::MsgHash>(b),
        "validator.Signed.consensus" => rt::<v::Signed<v::ConsensusMsg>>(b),
        "validator.Signed.net_address" => rt::<v::Signed<v::NetAddress>>(b),
        "validator.Signed.session_id" => rt::<v::Signed<node::SessionId>>(b),
        "validator.PreGenesisBlock" => rt::<v::PreGenesisBlock>(b),
        "validator.Block" => rt::<v::Block>(b),
        "validator.Proposal" => rt::<v::Proposal>(b),
        "validator.ReplicaState" => rt::<v::ReplicaState>(b),
        "validator.GenesisRaw" => rt::<v::GenesisRaw>(b),
        "validator.Genesis" => rt::<v::Genesis>(b),
        "validator.GenesisHash" => rt::<v::GenesisHash>(b),
        "validator.PayloadHash" => rt::<v::PayloadHash>(b),
        "validator.Schedule" => rt::<v::Schedule>(b),
        "validator.ValidatorInfo" => rt::<v::ValidatorInfo>(b),
        "validator.LeaderSelection" => rt::<v::LeaderSelection>(b),
        "validator.LeaderSelectionMode" => rt::<v::LeaderSelectionMode>(b),
        "validator.NetAddress" => rt::<v::NetAddress>(b),
        "node.Msg" => rt_noeq::<node::Msg>(b),
        "node.PublicKey" => rt::<node::PublicKey>(b),
        "node.Signature" => rt::<node::Signature>(b),
        "node.Signed" => rt::<node::Signed<node::SessionId>>(b),
        k => rt_named(k, b),
    }
}

fn parse_bits(v: &Value) -> bit_vec::BitVec {
    let mut b = bit_vec::BitVec::new();
    for x in v.as_array().unwrap() {
        b.push(x.as_u64().unwrap() != 0);
    }
    b
}

fn hash32(v: &Value) -> [u8; 32] {
    let b = unhex(v.as_str().unwrap());
    b.try_into().expect("32 bytes")
}

/// A keccak-hash wrapper type from its 32 bytes, through its ProtoFmt (field 1, 32 bytes).
fn hash_msg<T: ProtoFmt>(h: &[u8; 32]) -> T {
    let mut b = vec![0x0a, 0x20];
    b.extend_from_slice(h);
    zksync_protobuf::decode(&b).expect("hash message")
}

struct Pools {
    vkeys: Vec<validator::SecretKey>,
    aggs: Vec<validator::AggregateSignature>,
}

fn mk_view(v: &Value) -> validator::v2::View {
    validator::v2::View {
        genesis: hash_msg(&hash32(&v["genesis"])),
        number: validator::ViewNumber(u64_of(&v["number"])),
        epoch: validator::EpochNumber(u64_of(&v["epoch"])),
    }
}

fn mk_commit(v: &Value) -> validator::v2::ReplicaCommit {
    validator::v2::ReplicaCommit {
        view: mk_view(&v["view"]),
        proposal: validator::v2::BlockHeader {
            number: validator::BlockNumber(u64_of(&v["proposal"]["number"])),
            payload: hash_msg(&hash32(&v["proposal"]["payload"])),
        },
    }
}

fn mk_commit_qc(p: &Pools, v: &Value) -> validator::v2::CommitQC {
    validator::v2::CommitQC {
        message: mk_commit(&v["msg"]),
        signers: validator::v2::Signers(parse_bits(&v["signers"])),
        signature: p.aggs[v["sig"].as_u64().unwrap() as usize % p.aggs.len()].clone(),
    }
}

fn mk_timeout(p: &Pools, v: &Value) -> validator::v2::ReplicaTimeout {
    validator::v2::ReplicaTimeout {
        view: mk_view(&v["view"]),
        high_vote: if v["high_vote"].is_null() { None } else { Some(mk_commit(&v["high_vote"])) },
        high_qc: if v["high_qc"].is_null() { None } else { Some(mk_commit_qc(p, &v["high_qc"])) },
    }
}

fn built<T: ProtoFmt + PartialEq>(v: &T) -> Value {
    let enc = zksync_protobuf::encode(v);
    match zksync_protobuf::decode::<T>(&enc) {
        Ok(w) => json!({"ok": hex(&enc), "same": &w == v, "enc2": hex(&zksync_protobuf::encode(&w))}),
        Err(e) => json!({"ok": hex(&enc), "same": false, "err2": format!("{e:#}")}),
    }
}

fn build(p: &Pools, c: &Value) -> Value {
    match c["ty"].as_str().unwrap() {
        "std.Duration" | "std.Timestamp" => {
            let secs = i64_of(&c["secs"]);
            let nanos = i64_of(&c["nanos"]) as i32;
            // seconds and nanoseconds of one sign, |nanos| < 10^9: a well-formed time::Duration
            let d = time::Duration::new(secs, nanos);
            if c["ty"] == "std.Duration" {
                let mut o = built(&d);
                o["val"] = std_val("std.Duration", &zksync_protobuf::encode(&d));
                o["in"] = dur_json(&d);
                o
            } else {
                let t = time::UNIX_EPOCH + d;
                let mut o = built(&t);
                o["val"] = std_val("std.Timestamp", &zksync_protobuf::encode(&t));
                o["in"] = dur_json(&d);
                o
            }
        }
        "std.SocketAddr" => {
            let ip = unhex(c["ip"].as_str().unwrap());
            let port = c["port"].as_u64().unwrap() as u16;
            let a: std::net::SocketAddr = if ip.len() == 4 {
                std::net::SocketAddrV4::new(<[u8; 4]>::try_from(&ip[..]).unwrap().into(), port).into()
            } else {
                std::net::SocketAddrV6::new(
                    <[u8; 16]>::try_from(&ip[..]).unwrap().into(),
                    port,
                    c["flow"].as_u64().unwrap_or(0) as u32,
                    c["scope"].as_u64().unwrap_or(0) as u32,
                )
                .into()
            };
            let mut o = built(&a);
            o["val"] = std_val("std.SocketAddr", &zksync_protobuf::encode(&a));
            o["in"] = addr_json(&a);
            o
        }
        "std.BitVector" => {
            let b = parse_bits(&c["bits"]);
            let mut o = built(&b);
            o["val"] = std_val("std.BitVector", &zksync_protobuf::encode(&b));
            o
        }
        "validator.TimeoutQC" => {
            // the map is filled in the order given by the case
            let mut qc = validator::v2::TimeoutQC::new(mk_view(&c["view"]));
            for e in c["entries"].as_array().unwrap() {
                qc.map.insert(mk_timeout(p, &e[0]), validator::v2::Signers(parse_bits(&e[1])));
            }
            qc.signature = p.aggs[c["sig"].as_u64().unwrap() as usize % p.aggs.len()].clone();
            let mut o = built(&qc);
            o["len"] = json!(qc.map.len());
            o
        }
        "validator.Schedule" => {
            let vals: Vec<validator::ValidatorInfo> = c["vals"]
                .as_array()
                .unwrap()
                .iter()
                .map(|v| validator::ValidatorInfo {
                    key: p.vkeys[v[0].as_u64().unwrap() as usize].public(),
                    weight: u64_of(&v[1]),
                    leader: v[2].as_bool().unwrap(),
                })
                .collect();
            let sel = validator::LeaderSelection {
                frequency: u64_of(&c["freq"]),
                mode: if c["mode"] == "rr" {
                    validator::LeaderSelectionMode::RoundRobin
                } else {
                    validator::LeaderSelectionMode::Weighted
                },
            };
            match validator::Schedule::new(vals, sel) {
                Ok(s) => built(&s),
                Err(e) => json!({"err": format!("{e:#}")}),
            }
        }
        t => json!({"err": format!("unknown build type {t}")}),
    }
}

fn main() {
    quiet_panics();
    let args: Vec<String> = std::env::args().collect();
    let real = real_pool();
    let test = args.get(1).map(|p| test_pool(p));
    let mut pools: Option<Pools> = None;
    for c in read_cases() {
        let op = c["op"].as_str().unwrap_or("");
        let pool_of = |c: &Value| -> &prost_reflect::DescriptorPool {
            if c["pool"] == "test" {
                test.as_ref().expect("test pool")
            } else {
                &real
            }
        };
        let out = match op {
            "schema" => json!({"real": dump_pool(&real), "test": test.as_ref().map(dump_pool)}),
            "pool" => {
                let n = c["n"].as_u64().unwrap_or(8) as usize;
                let vk = keys::validator_pool(n);
                let nk = keys::node_pool(n);
                let h = validator::MsgHash::decode(&[7u8; 32]).unwrap();
                let sigs: Vec<_> = vk.iter().map(|k| k.sign_hash(&h)).collect();
                let mut aggs = vec![validator::AggregateSignature::default()];
                for i in 0..n {
                    aggs.push(validator::AggregateSignature::aggregate(sigs[..=i].iter()));
                }
                let nsigs: Vec<_> = nk.iter().map(|k| k.sign_msg(node::SessionId(vec![1, 2, 3])).sig).collect();
                let o = json!({
                    "vpub": vk.iter().map(|k| hex(&ByteFmt::encode(&k.public()))).collect::<Vec<_>>(),
                    "vsig": sigs.iter().map(|s| hex(&ByteFmt::encode(s))).collect::<Vec<_>>(),
                    "vagg": aggs.iter().map(|s| hex(&ByteFmt::encode(s))).collect::<Vec<_>>(),
                    "npub": nk.iter().map(|k| hex(&ByteFmt::encode(&k.public()))).collect::<Vec<_>>(),
                    "nsig": nsigs.iter().map(|s| hex(&ByteFmt::encode(s))).collect::<Vec<_>>(),
                });
                pools = Some(Pools { vkeys: vk, aggs });
                o
            }
            "canon" => {
                let bytes = unhex(c["hex"].as_str().unwrap());
                match pool_of(&c).get_message_by_name(c["msg"].as_str().unwrap()) {
                    None => json!({"err": "no such message"}),
                    Some(desc) => {
                        let r = catch(std::panic::AssertUnwindSafe(|| zksync_protobuf::canonical_raw(&bytes, &desc)));
                        match r {
                            Ok(Ok(b)) => json!({"ok": hex(&b)}),
                            Ok(Err(e)) => json!({"err": format!("{e:#}")}),
                            Err(m) => json!({"panic": m}),
                        }
                    }
                }
            }
            "prost" => {
                use prost::Message as _;
                let bytes = unhex(c["hex"].as_str().unwrap());
                match pool_of(&c).get_message_by_name(c["msg"].as_str().unwrap()) {
                    None => json!({"err": "no such message"}),
                    Some(desc) => match prost_reflect::DynamicMessage::decode(desc, &bytes[..]) {
                        Ok(m) => json!({"ok": hex(&m.encode_to_vec())}),
                        Err(e) => json!({"err": format!("{e:#}")}),
                    },
                }
            }
            "rt" => {
                let bytes = unhex(c["hex"].as_str().unwrap());
                let ty = c["ty"].as_str().unwrap().to_string();
                let r = catch(std::panic::AssertUnwindSafe(|| {
                    let mut o = rt_type(&ty, &bytes);
                    if ty.starts_with("std.") {
                        o["val"] = std_val(&ty, &bytes);
                    }
                    o
                }));
                match r {
                    Ok(o) => o,
                    Err(m) => json!({"panic": m}),
                }
            }
            "build" => {
                if pools.is_none() {
                    let vk = keys::validator_pool(8);
                    let h = validator::MsgHash::decode(&[7u8; 32]).unwrap();
                    let sigs: Vec<_> = vk.iter().map(|k| k.sign_hash(&h)).collect();
                    let mut aggs = vec![validator::AggregateSignature::default()];
                    for i in 0..8 {
                        aggs.push(validator::AggregateSignature::aggregate(sigs[..=i].iter()));
                    }
                    pools = Some(Pools { vkeys: vk, aggs });
                }
                let p = pools.as_ref().unwrap();
                match catch(std::panic::AssertUnwindSafe(|| build(p, &c))) {
                    Ok(o) => o,
                    Err(m) => json!({"panic": m}),
                }
            }
            _ => json!({"err": "unknown op"}),
        };
        write_line(&out);
    }
}
