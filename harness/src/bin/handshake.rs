//! C12: the real handshake functions over real noise sessions (loopback TCP), with the harness
//! as the adversary, and the real `PoolWatch`.
//!
//! Cases (one JSON object per line):
//!  {"t":"script","net":"g"|"c","sessions":[{"role":"in"|"out","key":i,"gen":g,"peer":p,"statics":[..]}..],
//!   "sends":[[i, spec]..]}
//!      spec = {"mal":"drop"|"junk"|"othernet"|"oversize"} |
//!             {"base":j|null,"sid":z?,"key":k?,"sig":{"k":i,"sid":z}|"bad"?,"gen":g?,"static":b?}
//!      session ids: z in 0..n = id of session z; 1000+r = unrelated random id; 2000+j = id of j
//!      cut to 31 bytes; 3000 = empty; 4000+j = id of j plus one byte.
//!  {"t":"pair","net":..,"out":{..},"in":{..}}        two honest ends on one session
//!  {"t":"glue","net":"g"|"c","key":i,"allowed":[..],"limit":"L","out_allowed":[..],
//!   "events":[["conn",spec]|["dial",peer,spec]|["dial2",peer,specA,specB]|["dialdead",peer]|
//!             ["maintain",peer,[spec..]]|["disc",c]..]}
//!      conn = a peer connects (run_inbound_stream); dial = the node's run_outbound_stream dials the
//!      harness expecting `peer`; dial2 = two concurrent dials of one peer; maintain = the validator
//!      network's maintain_connection loop, one answer per round.
//!      a real `Network` (public `Network::new`, in-memory engine) wrapped in `verif::Glue`; the
//!      adversary opens connection c = 0,1,2.. (spec as above, genesis 0 = the node's own) and
//!      closes connections; pools observed after every event.  net "g": allowed = static_inbound,
//!      limit = dynamic_inbound_limit; net "c": allowed = committee (extra limit is the code's).
//!  {"t":"pool","n":N,"allowed":[..],"limit":"L","ops":[["i",k]|["r",k]..]}
//!  {"t":"poolc","n":N,"allowed":[..],"limit":"L","conns":[{"key":k,"pre":a,"hold":b,"rounds":r}..],"workers":w}
use std::collections::{HashMap, HashSet};
use std::sync::atomic::{AtomicI64, AtomicU64, Ordering};
use std::sync::Arc;

use serde_json::{json, Value};
use vh::{keys, util::*};
use zksync_concurrency::{ctx, limiter, net, time};
use zksync_consensus_crypto::{keccak256::Keccak256, ByteFmt, Text};
use zksync_consensus_network::{
    verif::{consensus as vc, gossip as vg, Glue, Pool, TcpNoise},
    Config, GossipConfig, Network, RpcConfig,
};
use zksync_consensus_roles::{node, validator};

const POOL: usize = 8;
const GENS: usize = 4;

struct Env {
    nodes: Vec<node::SecretKey>,
    vals: Vec<validator::SecretKey>,
    gens: Vec<validator::GenesisHash>,
    addr: net::tcp::ListenerAddr,
}

fn hex(b: &[u8]) -> String {
    b.iter().map(|x| format!("{x:02x}")).collect()
}

fn genesis(i: usize) -> validator::GenesisHash {
    let h = Keccak256::new(format!("verif-genesis-{i}").as_bytes());
    Text::new(&format!("genesis_hash:keccak256:{}", hex(h.as_bytes())))
        .decode()
        .expect("genesis hash")
}

fn make_cfg(env: &Env, key: usize, statics: &[usize], outbound: bool) -> Config {
    let keyset: Vec<node::PublicKey> = statics.iter().map(|&i| env.nodes[i].public()).collect();
    Config {
        build_version: None,
        server_addr: env.addr,
        public_addr: (*env.addr).into(),
        ping_timeout: None,
        validator_key: None,
        gossip: GossipConfig {
            key: env.nodes[key].clone(),
            dynamic_inbound_limit: 0,
            static_inbound: if outbound {
                HashSet::new()
            } else {
                keyset.iter().cloned().collect()
            },
            static_outbound: if outbound {
                keyset
                    .iter()
                    .map(|k| (k.clone(), net::Host::from(*env.addr)))
                    .collect::<HashMap<_, _>>()
            } else {
                HashMap::new()
            },
        },
        max_block_size: usize::MAX,
        max_tx_size: usize::MAX,
        tcp_accept_rate: limiter::Rate::INF,
        rpc: RpcConfig::default(),
        max_block_queue_size: 10,
    }
}

/// A handshake message as real objects.
#[derive(Clone)]
enum Msg {
    G(node::Signed<node::SessionId>, validator::GenesisHash, bool),
    C(validator::Signed<node::SessionId>, validator::GenesisHash),
}

async fn establish(
    ctx: &ctx::Ctx,
    env: &Env,
    listener: &mut net::tcp::Listener,
) -> (TcpNoise, TcpNoise) {
    let (c, s) = tokio::join!(
        TcpNoise::connect(ctx, *env.addr),
        TcpNoise::accept(ctx, listener)
    );
    (c.expect("connect"), s.expect("accept"))
}

fn sid_bytes(ids: &[[u8; 32]], z: i64) -> Vec<u8> {
    let n = ids.len() as i64;
    if (0..n).contains(&z) {
        ids[z as usize].to_vec()
    } else if (1000..2000).contains(&z) {
        Keccak256::new(format!("verif-random-sid-{z}").as_bytes())
            .as_bytes()
            .to_vec()
    } else if (2000..2000 + n).contains(&z) {
        ids[(z - 2000) as usize][..31].to_vec()
    } else if z == 3000 {
        vec![]
    } else if (4000..4000 + n).contains(&z) {
        let mut v = ids[(z - 4000) as usize].to_vec();
        v.push(7);
        v
    } else {
        panic!("bad session id reference {z}")
    }
}

fn sid_sym(ids: &[[u8; 32]], b: &[u8]) -> i64 {
    let n = ids.len();
    for (j, id) in ids.iter().enumerate() {
        if b == id {
            return j as i64;
        }
        if b == &id[..31] {
            return 2000 + j as i64;
        }
        if b.len() == 33 && &b[..32] == id && b[32] == 7 {
            return 4000 + j as i64;
        }
    }
    if b.is_empty() {
        return 3000;
    }
    for z in 1000..1000 + 4 * n as i64 + 16 {
        if b == Keccak256::new(format!("verif-random-sid-{z}").as_bytes()).as_bytes() {
            return z;
        }
    }
    -1
}

fn gen_sym(env: &Env, g: &validator::GenesisHash) -> i64 {
    env.gens
        .iter()
        .position(|x| x == g)
        .map(|i| i as i64)
        .unwrap_or(-1)
}

/// Symbolic description of a real message, computed from the real objects (the signature
/// bit is the real verification under the message's own key and id).
fn symbolize(env: &Env, ids: &[[u8; 32]], m: &Msg) -> Value {
    match m {
        Msg::G(s, g, st) => {
            let k = env
                .nodes
                .iter()
                .position(|x| x.public() == s.key)
                .map(|i| i as i64)
                .unwrap_or(-1);
            json!([sid_sym(ids, &s.msg.0), k, s.verify().is_ok(), gen_sym(env, g), st])
        }
        Msg::C(s, g) => {
            let k = keys::rank(&env.vals, &s.key);
            json!([sid_sym(ids, &s.msg.0), k, s.verify().is_ok(), gen_sym(env, g), false])
        }
    }
}

fn bad_hash(tag: &str) -> [u8; 32] {
    *Keccak256::new(format!("verif-not-a-session-{tag}").as_bytes()).as_bytes()
}

/// Builds the adversary's message from the spec. None = it closes the stream instead.
fn build_msg(env: &Env, gossip: bool, ids: &[[u8; 32]], recs: &[Option<Msg>], spec: &Value) -> Option<Msg> {
    let base = match spec.get("base").and_then(|b| b.as_u64()) {
        Some(j) => Some(recs.get(j as usize).cloned().flatten()?),
        None => None,
    };
    let sid_o = spec.get("sid").and_then(|v| v.as_i64()).map(|z| sid_bytes(ids, z));
    let key_o = spec.get("key").and_then(|v| v.as_u64()).map(|k| k as usize);
    let gen_o = spec.get("gen").and_then(|v| v.as_u64()).map(|g| env.gens[g as usize]);
    let st_o = spec.get("static").and_then(|v| v.as_bool());
    let sig_spec = spec.get("sig").filter(|v| !v.is_null());
    if gossip {
        let (mut s, mut g, mut st) = match base {
            Some(Msg::G(s, g, st)) => (s, g, st),
            Some(_) => panic!("base of the other network"),
            None => (
                env.nodes[0].sign_msg(node::SessionId(vec![])),
                env.gens[0],
                false,
            ),
        };
        if let Some(b) = sid_o {
            s.msg = node::SessionId(b);
        }
        if let Some(k) = key_o {
            s.key = env.nodes[k].public();
        }
        if let Some(sp) = sig_spec {
            s.sig = if sp.is_string() {
                let h: node::MsgHash = ByteFmt::decode(&bad_hash("g")).unwrap();
                env.nodes[1].sign(&h)
            } else {
                let k = sp["k"].as_u64().unwrap() as usize;
                let z = sp["sid"].as_i64().unwrap();
                env.nodes[k].sign_msg(node::SessionId(sid_bytes(ids, z))).sig
            };
        }
        if let Some(x) = gen_o {
            g = x;
        }
        if let Some(x) = st_o {
            st = x;
        }
        Some(Msg::G(s, g, st))
    } else {
        let (mut s, mut g) = match base {
            Some(Msg::C(s, g)) => (s, g),
            Some(_) => panic!("base of the other network"),
            None => (env.vals[0].sign_msg(node::SessionId(vec![])), env.gens[0]),
        };
        if let Some(b) = sid_o {
            s.msg = node::SessionId(b);
        }
        if let Some(k) = key_o {
            s.key = env.vals[k].public();
        }
        if let Some(sp) = sig_spec {
            s.sig = if sp.is_string() {
                let h: validator::MsgHash = ByteFmt::decode(&bad_hash("c")).unwrap();
                env.vals[1].sign_hash(&h)
            } else {
                let k = sp["k"].as_u64().unwrap() as usize;
                let z = sp["sid"].as_i64().unwrap();
                env.vals[k].sign_msg(node::SessionId(sid_bytes(ids, z))).sig
            };
        }
        if let Some(x) = gen_o {
            g = x;
        }
        Some(Msg::C(s, g))
    }
}

async fn send_msg(ctx: &ctx::Ctx, st: &mut TcpNoise, m: &Msg) {
    let _ = match m {
        Msg::G(s, g, b) => vg::send_handshake(ctx, st, s.clone(), *g, *b).await,
        Msg::C(s, g) => vc::send_handshake(ctx, st, s.clone(), *g).await,
    };
}

async fn recv_msg(ctx: &ctx::Ctx, gossip: bool, st: &mut TcpNoise) -> Option<Msg> {
    let ctx = &ctx.with_timeout(time::Duration::seconds(3));
    if gossip {
        vg::recv_handshake(ctx, st).await.ok().map(|(s, g, b)| Msg::G(s, g, b))
    } else {
        vc::recv_handshake(ctx, st).await.ok().map(|(s, g)| Msg::C(s, g))
    }
}

struct Victim {
    gossip: bool,
    out: bool,
    key: usize,
    gen: usize,
    peer: usize,
    statics: Vec<usize>,
}

fn victim_of(gossip: bool, v: &Value) -> Victim {
    Victim {
        gossip,
        out: v["role"].as_str().unwrap() == "out",
        key: v["key"].as_u64().unwrap() as usize,
        gen: v["gen"].as_u64().unwrap() as usize,
        peer: v.get("peer").and_then(|p| p.as_u64()).unwrap_or(0) as usize,
        statics: v
            .get("statics")
            .and_then(|s| s.as_array())
            .map(|a| a.iter().map(|x| x.as_u64().unwrap() as usize).collect())
            .unwrap_or_default(),
    }
}

/// Runs the real handshake function of the victim on its end of the session.
/// Ok(index of the key the connection is attributed to) or Err(error variant name).
async fn run_victim(env: Arc<Env>, v: Victim, mut st: TcpNoise) -> Result<i64, String> {
    let ctx = &ctx::root();
    let g = env.gens[v.gen];
    if v.gossip {
        let cfg = make_cfg(&env, v.key, &v.statics, v.out);
        let r = if v.out {
            vg::handshake_outbound(ctx, &cfg, g, &mut st, &env.nodes[v.peer].public()).await
        } else {
            vg::handshake_inbound(ctx, &cfg, g, &mut st).await
        };
        r.map(|k| {
            env.nodes
                .iter()
                .position(|x| x.public() == k)
                .map(|i| i as i64)
                .unwrap_or(-1)
        })
    } else if v.out {
        vc::handshake_outbound(ctx, &env.vals[v.key], g, &mut st, &env.vals[v.peer].public())
            .await
            .map(|()| v.peer as i64)
    } else {
        vc::handshake_inbound(ctx, &env.vals[v.key], g, &mut st)
            .await
            .map(|k| keys::rank(&env.vals, &k))
    }
}

fn res_json(r: &Result<i64, String>) -> Value {
    match r {
        Ok(k) => json!({ "ok": k }),
        Err(e) => json!({ "err": e }),
    }
}

async fn run_script(env: Arc<Env>, listener: &mut net::tcp::Listener, c: &Value) -> Value {
    let ctx = &ctx::root();
    let gossip = c["net"].as_str().unwrap() == "g";
    let sess = c["sessions"].as_array().unwrap();
    let n = sess.len();
    let mut ids: Vec<[u8; 32]> = vec![];
    let mut adv: Vec<Option<TcpNoise>> = vec![];
    let mut handles = vec![];
    let mut recs: Vec<Option<Msg>> = vec![None; n];
    let mut outs: Vec<bool> = vec![];
    // H-SID, observed: both ends of a session see one id, different sessions different ids
    let mut sid_ok = true;
    // phase 1: open every session; outbound victims send at once and the adversary records it
    for s in sess {
        let v = victim_of(gossip, s);
        let (client, server) = establish(ctx, &env, listener).await;
        if client.id() != server.id() || ids.contains(&client.id()) {
            sid_ok = false;
        }
        ids.push(client.id());
        let (vs, a) = if v.out { (client, server) } else { (server, client) };
        outs.push(v.out);
        handles.push(Some(tokio::task::spawn_local(run_victim(env.clone(), v, vs))));
        adv.push(Some(a));
    }
    for i in 0..n {
        if outs[i] {
            recs[i] = recv_msg(ctx, gossip, adv[i].as_mut().unwrap()).await;
        }
    }
    // phase 2
    let mut results: Vec<Value> = vec![Value::Null; n];
    let mut delivered: Vec<Value> = vec![Value::Null; n];
    for snd in c["sends"].as_array().unwrap() {
        let i = snd[0].as_u64().unwrap() as usize;
        let spec = &snd[1];
        let Some(mut a) = adv[i].take() else { continue };
        let h = handles[i].take().unwrap();
        if let Some(kind) = spec.get("mal").and_then(|m| m.as_str()) {
            match kind {
                "drop" => {}
                "junk" => {
                    let _ = a.send_proto(ctx, &env.gens[0]).await;
                }
                "othernet" => {
                    let m = if gossip {
                        Msg::C(
                            env.vals[0].sign_msg(node::SessionId(ids[i].to_vec())),
                            env.gens[0],
                        )
                    } else {
                        Msg::G(
                            env.nodes[0].sign_msg(node::SessionId(ids[i].to_vec())),
                            env.gens[0],
                            false,
                        )
                    };
                    send_msg(ctx, &mut a, &m).await;
                }
                "oversize" => {
                    let big = node::SessionId(vec![1u8; 20_000]);
                    let m = if gossip {
                        Msg::G(env.nodes[0].sign_msg(big), env.gens[0], false)
                    } else {
                        Msg::C(env.vals[0].sign_msg(big), env.gens[0])
                    };
                    send_msg(ctx, &mut a, &m).await;
                }
                _ => panic!("unknown malformed kind {kind}"),
            }
            if kind == "drop" {
                drop(a);
                results[i] = res_json(&h.await.expect("victim task"));
                continue;
            }
        } else {
            match build_msg(&env, gossip, &ids, &recs, spec) {
                Some(m) => {
                    delivered[i] = symbolize(&env, &ids, &m);
                    send_msg(ctx, &mut a, &m).await;
                }
                None => {
                    drop(a);
                    results[i] = res_json(&h.await.expect("victim task"));
                    continue;
                }
            }
        }
        let r = h.await.expect("victim task");
        results[i] = res_json(&r);
        if !outs[i] {
            // does the accepting end answer?
            recs[i] = recv_msg(ctx, gossip, &mut a).await;
        }
    }
    let sessions: Vec<Value> = (0..n)
        .map(|i| {
            json!({
                "res": results[i],
                "em": recs[i].as_ref().map(|m| symbolize(&env, &ids, m)),
                "delivered": delivered[i],
            })
        })
        .collect();
    json!({ "sessions": sessions, "sid_ok": sid_ok })
}

async fn run_pair(env: Arc<Env>, listener: &mut net::tcp::Listener, c: &Value) -> Value {
    let ctx = &ctx::root();
    let gossip = c["net"].as_str().unwrap() == "g";
    let (client, server) = establish(ctx, &env, listener).await;
    let ho = tokio::task::spawn_local(run_victim(env.clone(), victim_of(gossip, &c["out"]), client));
    let hi = tokio::task::spawn_local(run_victim(env.clone(), victim_of(gossip, &c["in"]), server));
    let ro = ho.await.expect("out task");
    let ri = hi.await.expect("in task");
    json!({ "out": res_json(&ro), "in": res_json(&ri) })
}


/// The adversary's move on an established session: a malformed input or a handshake message built
/// from `spec`. Returns (the delivered message as symbolised from the real objects, was a
/// well-formed handshake sent).
async fn adv_act(
    ctx: &ctx::Ctx,
    env: &Env,
    gossip: bool,
    ids: &[[u8; 32]],
    recs: &[Option<Msg>],
    cix: usize,
    spec: &Value,
    a: &mut TcpNoise,
) -> (Value, bool) {
    if let Some(kind) = spec.get("mal").and_then(|m| m.as_str()) {
        match kind {
            "junk" => {
                let _ = a.send_proto(ctx, &env.gens[0]).await;
            }
            "oversize" => {
                let big = node::SessionId(vec![1u8; 20_000]);
                let m = if gossip {
                    Msg::G(env.nodes[0].sign_msg(big), env.gens[0], false)
                } else {
                    Msg::C(env.vals[0].sign_msg(big), env.gens[0])
                };
                send_msg(ctx, a, &m).await;
            }
            "othernet" => {
                let m = if gossip {
                    Msg::C(env.vals[0].sign_msg(node::SessionId(ids[cix].to_vec())), env.gens[0])
                } else {
                    Msg::G(env.nodes[0].sign_msg(node::SessionId(ids[cix].to_vec())), env.gens[0], false)
                };
                send_msg(ctx, a, &m).await;
            }
            _ => {} // "drop": say nothing, the caller closes the stream
        }
        (Value::Null, false)
    } else if let Some(m) = build_msg(env, gossip, ids, recs, spec) {
        let d = symbolize(env, ids, &m);
        send_msg(ctx, a, &m).await;
        (d, true)
    } else {
        (Value::Null, false)
    }
}

/// Server side of the preface; a dead connection left in the backlog (a dial cancelled half way)
/// is skipped.
async fn accept_retry(ctx: &ctx::Ctx, l: &mut net::tcp::Listener) -> ctx::Result<(TcpNoise, &'static str)> {
    let mut last = TcpNoise::accept_preface(&ctx.with_timeout(time::Duration::seconds(8)), l).await;
    for _ in 0..3 {
        if last.is_ok() {
            break;
        }
        last = TcpNoise::accept_preface(&ctx.with_timeout(time::Duration::seconds(8)), l).await;
    }
    last
}

/// Empties a listener's backlog.
async fn drain(ctx: &ctx::Ctx, l: &mut net::tcp::Listener) {
    while let Ok(Ok(Ok(s))) =
        tokio::time::timeout(std::time::Duration::from_millis(20), net::tcp::accept(ctx, l)).await
    {
        drop(s);
    }
}

/// Past the handshake the node either fails the pool insert and closes the stream, or starts the
/// rpc service, whose first frame arrives here. Either way this read returns; then the task of
/// the connection is finished iff the connection was refused (single-threaded runtime).
async fn probe_live<T>(ctx: &ctx::Ctx, a: &mut TcpNoise, h: &tokio::task::JoinHandle<T>) -> bool {
    let _ = a
        .recv_proto::<validator::GenesisHash>(&ctx.with_timeout(time::Duration::seconds(3)), 10_000)
        .await;
    for _ in 0..4 {
        tokio::task::yield_now().await;
    }
    !h.is_finished()
}

/// A real node built with the public constructor; its admission glue of both directions is
/// executed on sessions whose other end is the adversary.
async fn run_glue(
    env0: Arc<Env>,
    listener: &mut net::tcp::Listener,
    listener2: &mut net::tcp::Listener,
    addr2: std::net::SocketAddr,
    c: &Value,
) -> Value {
    use zksync_consensus_roles::validator::testonly::{Setup, SetupSpec};
    let ctx = &ctx::root();
    let gossip = c["net"].as_str().unwrap() == "g";
    let key = c["key"].as_u64().unwrap() as usize;
    let idx_list = |v: &Value| -> Vec<usize> {
        v.as_array()
            .map(|a| a.iter().map(|x| x.as_u64().unwrap() as usize).collect())
            .unwrap_or_default()
    };
    let allowed = idx_list(&c["allowed"]);
    let out_allowed = idx_list(&c["out_allowed"]);
    let limit = u64_of(&c["limit"]) as usize;
    // committee: for the validator network the allowed set, else some fixed committee
    let committee: Vec<usize> = if gossip || allowed.is_empty() { vec![0] } else { allowed.clone() };
    let spec = SetupSpec {
        chain_id: validator::ChainId(1337),
        fork_number: validator::ForkNumber(0),
        first_block: validator::BlockNumber(0),
        first_pregenesis_block: validator::BlockNumber(0),
        protocol_version: validator::ProtocolVersion::CURRENT,
        validator_weights: committee.iter().map(|&i| (env0.vals[i].clone(), 1)).collect(),
        leader_selection: validator::LeaderSelection {
            frequency: 1,
            mode: validator::LeaderSelectionMode::RoundRobin,
        },
        epoch: validator::EpochNumber(0),
    };
    let setup = Setup::from_spec(&mut ctx.rng(), spec);
    // genesis 0 of this case = the node's own chain
    let mut gens = env0.gens.clone();
    gens[0] = setup.genesis_hash();
    let env = Arc::new(Env {
        nodes: env0.nodes.clone(),
        vals: env0.vals.clone(),
        gens,
        addr: env0.addr,
    });
    let engine = zksync_consensus_engine::testonly::TestEngine::new(ctx, &setup).await;
    let mut cfg = make_cfg(&env, key, if gossip { &allowed } else { &[] }, false);
    cfg.gossip.dynamic_inbound_limit = limit;
    cfg.gossip.static_outbound = if gossip {
        out_allowed
            .iter()
            .map(|&i| (env.nodes[i].public(), net::Host::from(*env.addr)))
            .collect()
    } else {
        HashMap::new()
    };
    cfg.validator_key = Some(env.vals[key].clone());
    let (con_send, _con_recv) = zksync_concurrency::sync::prunable_mpsc::unpruned_channel();
    let (_net_send, net_recv) = zksync_concurrency::ctx::channel::unbounded();
    let (net, _runner) = Network::new(cfg, engine.manager.clone(), Some(setup.epoch), con_send, net_recv)
        .expect("Network::new");
    let glue = Arc::new(Glue(net));
    // the engine's background runner is not needed by the admission path and is not started
    let _engine_runner = engine.runner;

    let pools = |glue: &Glue| -> Value {
        let nk = |k: &node::PublicKey| env.nodes.iter().position(|x| &x.public() == k).map(|i| i as i64).unwrap_or(-1);
        let mut gi: Vec<i64> = glue.gossip_inbound().iter().map(nk).collect();
        gi.sort();
        let mut go: Vec<i64> = glue.gossip_outbound().iter().map(nk).collect();
        go.sort();
        let mut ci: Vec<i64> = glue.consensus_inbound().iter().map(|k| keys::rank(&env.vals, k)).collect();
        ci.sort();
        let mut co: Vec<i64> = glue.consensus_outbound().iter().map(|k| keys::rank(&env.vals, k)).collect();
        co.sort();
        json!({"g": gi, "c": ci, "go": go, "co": co})
    };
    // the node dials `peer` at `addr` through its real outbound runner
    let spawn_dial = |peer: usize, addr: std::net::SocketAddr| {
        let g2 = glue.clone();
        let env = env.clone();
        tokio::task::spawn_local(async move {
            let ctx = ctx::root();
            if gossip {
                g2.gossip_run_outbound_stream(&ctx, &env.nodes[peer].public(), addr).await.is_ok()
            } else {
                g2.consensus_run_outbound_stream(&ctx, &env.vals[peer].public(), addr).await.is_ok()
            }
        })
    };

    let mut ids: Vec<[u8; 32]> = vec![];
    let mut recs: Vec<Option<Msg>> = vec![];
    let mut advs: Vec<Option<TcpNoise>> = vec![];
    let mut handles: Vec<Option<tokio::task::JoinHandle<bool>>> = vec![];
    let mut out = vec![];
    let mut stuck = false;
    let want_ep = if gossip { "gossip" } else { "consensus" };
    for ev in c["events"].as_array().unwrap() {
        match ev[0].as_str().unwrap() {
            "conn" => {
                let spec = &ev[1];
                let (mut a, server) = establish(ctx, &env, listener).await;
                ids.push(a.id());
                recs.push(None);
                let cix = ids.len() - 1;
                let g2 = glue.clone();
                let mut h = tokio::task::spawn_local(async move {
                    let ctx = ctx::root();
                    if gossip {
                        g2.gossip_run_inbound_stream(&ctx, server).await.is_ok()
                    } else {
                        g2.consensus_run_inbound_stream(&ctx, server).await.is_ok()
                    }
                });
                let (delivered, sent) = adv_act(ctx, &env, gossip, &ids, &recs, cix, spec, &mut a).await;
                let mut responded = false;
                let mut live = false;
                if sent {
                    if let Some(m) = recv_msg(ctx, gossip, &mut a).await {
                        responded = true;
                        recs[cix] = Some(m);
                        live = probe_live(ctx, &mut a, &h).await;
                    }
                }
                if live {
                    advs.push(Some(a));
                    handles.push(Some(h));
                } else {
                    drop(a); // closes the adversary's end
                    if tokio::time::timeout(std::time::Duration::from_secs(8), &mut h).await.is_err() {
                        stuck = true; // (the task is left behind: scope tasks must not be aborted)
                    }
                    advs.push(None);
                    handles.push(None);
                }
                out.push(json!({"ev": "conn", "c": cix, "responded": responded, "live": live,
                                "delivered": delivered, "pools": pools(&glue)}));
            }
            "dialdead" => {
                // the node dials; the other end accepts the TCP connection and closes it at once
                let peer = ev[1].as_u64().unwrap() as usize;
                let mut h = spawn_dial(peer, *env.addr);
                if let Ok(Ok(s)) = net::tcp::accept(ctx, listener).await {
                    drop(s);
                }
                ids.push(*Keccak256::new(format!("verif-dead-{}", ids.len()).as_bytes()).as_bytes());
                recs.push(None);
                if tokio::time::timeout(std::time::Duration::from_secs(8), &mut h).await.is_err() {
                    stuck = true;
                }
                advs.push(None);
                handles.push(None);
                out.push(json!({"ev": "dialdead", "c": ids.len() - 1, "live": false, "pools": pools(&glue)}));
            }
            "dial" | "dial2" => {
                // "dial":  [peer, spec]; "dial2": [peer, specA, specB] = two concurrent dials of one
                // peer (second listener), both handshakes in flight before either is answered
                let peer = ev[1].as_u64().unwrap() as usize;
                let two = ev[0].as_str().unwrap() == "dial2";
                let mut pending = vec![];
                let h1 = spawn_dial(peer, *env.addr);
                let r1 = accept_retry(ctx, listener).await;
                pending.push((h1, r1, &ev[2]));
                if two {
                    let h2 = spawn_dial(peer, addr2);
                    let r2 = accept_retry(ctx, listener2).await;
                    pending.push((h2, r2, &ev[3]));
                }
                // record what the node sent on each session before answering any
                let mut open = vec![];
                for (mut h, r, spec) in pending {
                    match r {
                        Ok((mut a, ep)) => {
                            ids.push(a.id());
                            let em = recv_msg(ctx, gossip, &mut a).await;
                            recs.push(em);
                            open.push((ids.len() - 1, h, a, ep, spec));
                        }
                        Err(_) => {
                            ids.push(*Keccak256::new(format!("verif-dead-{}", ids.len()).as_bytes()).as_bytes());
                            recs.push(None);
                            if tokio::time::timeout(std::time::Duration::from_secs(8), &mut h).await.is_err() {
                                stuck = true;
                            }
                            advs.push(None);
                            handles.push(None);
                            out.push(json!({"ev": "dial", "c": ids.len() - 1, "peer": peer, "em": Value::Null,
                                            "preface_failed": true, "live": false, "pools": pools(&glue)}));
                        }
                    }
                }
                for (cix, mut h, mut a, ep, spec) in open {
                    let em = recs[cix].as_ref().map(|m| symbolize(&env, &ids, m));
                    let (delivered, sent) = adv_act(ctx, &env, gossip, &ids, &recs, cix, spec, &mut a).await;
                    let live = if sent { probe_live(ctx, &mut a, &h).await } else { false };
                    while advs.len() <= cix {
                        advs.push(None);
                        handles.push(None);
                    }
                    if live {
                        advs[cix] = Some(a);
                        handles[cix] = Some(h);
                    } else {
                        drop(a);
                        if tokio::time::timeout(std::time::Duration::from_secs(8), &mut h).await.is_err() {
                            stuck = true;
                        }
                    }
                    out.push(json!({"ev": "dial", "c": cix, "peer": peer, "em": em, "endpoint_ok": ep == want_ep,
                                    "live": live, "delivered": delivered, "pools": pools(&glue)}));
                }
            }
            "maintain" => {
                // ["maintain", peer, [spec..]]: the validator network's real reconnect loop
                // (`maintain_connection`) for `peer`; each round the harness publishes a fresh
                // address of `peer` (alternating listeners), the loop dials it, the adversary answers
                // with the round's spec and, if registered, closes the connection again.
                let peer = ev[1].as_u64().unwrap() as usize;
                let specs = ev[2].as_array().unwrap().clone();
                let peer_pk = env.vals[peer].public();
                let in_out_pool = |glue: &Glue| glue.consensus_outbound().contains(&peer_pk);
                let (glue_r, env_r) = (&glue, &env);
                let (ids_r, recs_r, out_r) = (&mut ids, &mut recs, &mut out);
                let (l1, l2) = (&mut *listener, &mut *listener2);
                let stuck_here = zksync_concurrency::scope::run!(ctx, |ctx, s| async {
                    s.spawn_bg(async {
                        glue_r.consensus_maintain_connection(ctx, &peer_pk).await;
                        Ok(())
                    });
                    let mut bad = false;
                    for (round, spec) in specs.iter().enumerate() {
                        let (l, addr) = if round % 2 == 0 { (&mut *l1, *env_r.addr) } else { (&mut *l2, addr2) };
                        glue_r.announce_validator_addr(&env_r.vals[peer], addr, ctx.now_utc()).await;
                        let acc = accept_retry(ctx, l).await;
                        let Ok((mut a, ep)) = acc else {
                            out_r.push(json!({"ev": "dial", "c": ids_r.len(), "peer": peer, "no_dial": true,
                                              "live": false, "pools": pools(glue_r)}));
                            bad = true;
                            break;
                        };
                        let was = in_out_pool(glue_r); // someone else holds this peer's slot
                        ids_r.push(a.id());
                        let em = recv_msg(ctx, gossip, &mut a).await;
                        recs_r.push(em);
                        let cix = ids_r.len() - 1;
                        let em = recs_r[cix].as_ref().map(|m| symbolize(env_r, ids_r, m));
                        let (delivered, sent) = adv_act(ctx, env_r, gossip, ids_r, recs_r, cix, spec, &mut a).await;
                        if sent {
                            let _ = a
                                .recv_proto::<validator::GenesisHash>(&ctx.with_timeout(time::Duration::seconds(3)), 10_000)
                                .await;
                            for _ in 0..4 {
                                tokio::task::yield_now().await;
                            }
                        }
                        let live = !was && in_out_pool(glue_r);
                        out_r.push(json!({"ev": "dial", "c": cix, "peer": peer, "em": em, "endpoint_ok": ep == want_ep,
                                          "live": live, "delivered": delivered, "pools": pools(glue_r)}));
                        drop(a);
                        // the loop's connection ends: the peer must leave the pool
                        let mut n = 0;
                        while !was && in_out_pool(glue_r) && n < 300 {
                            tokio::time::sleep(std::time::Duration::from_millis(10)).await;
                            n += 1;
                        }
                        // (a peer that stays in the pool is reported by the pools, not as a hang)
                        out_r.push(json!({"ev": "disc", "c": cix, "pools": pools(glue_r)}));
                    }
                    Ok::<bool, ctx::Error>(bad)
                })
                .await
                .unwrap_or(true);
                // the cancelled loop may have left a half-made dial in a backlog
                for _ in 0..10 {
                    tokio::task::yield_now().await;
                }
                drain(ctx, listener).await;
                drain(ctx, listener2).await;
                while advs.len() < ids.len() {
                    advs.push(None);
                    handles.push(None);
                }
                if stuck_here {
                    stuck = true;
                }
            }
            _ => {
                let cix = ev[1].as_u64().unwrap() as usize;
                if cix < advs.len() {
                    drop(advs[cix].take());
                    if let Some(mut h) = handles[cix].take() {
                        if tokio::time::timeout(std::time::Duration::from_secs(8), &mut h).await.is_err() {
                            stuck = true;
                        }
                    }
                }
                out.push(json!({"ev": "disc", "c": cix, "pools": pools(&glue)}));
            }
        }
        if stuck {
            break;
        }
    }
    // end of case: close every remaining connection and let the node's tasks finish
    advs.clear();
    for h in handles.iter_mut() {
        if let Some(mut h) = h.take() {
            if tokio::time::timeout(std::time::Duration::from_secs(8), &mut h).await.is_err() {
                stuck = true;
            }
        }
    }
    json!({ "events": out, "stuck": stuck })
}

fn pool_of(env: &Env, c: &Value) -> (Arc<Pool<node::PublicKey>>, HashSet<usize>, usize) {
    let allowed: HashSet<usize> = c["allowed"]
        .as_array()
        .unwrap()
        .iter()
        .map(|x| x.as_u64().unwrap() as usize)
        .collect();
    let limit = u64_of(&c["limit"]) as usize;
    let p = Pool::new(
        allowed.iter().map(|&i| env.nodes[i].public()).collect(),
        limit,
    );
    (Arc::new(p), allowed, limit)
}

fn current_sorted(env: &Env, p: &Pool<node::PublicKey>) -> Vec<i64> {
    let mut v: Vec<i64> = p
        .current()
        .iter()
        .map(|k| {
            env.nodes
                .iter()
                .position(|x| &x.public() == k)
                .map(|i| i as i64)
                .unwrap_or(-1)
        })
        .collect();
    v.sort();
    v
}

async fn run_pool(env: Arc<Env>, c: &Value) -> Value {
    let (p, _, _) = pool_of(&env, c);
    let mut out = vec![];
    for op in c["ops"].as_array().unwrap() {
        let k = env.nodes[op[1].as_u64().unwrap() as usize].public();
        let ins = op[0].as_str().unwrap() == "i";
        let p2 = p.clone();
        let h = tokio::spawn(async move {
            if ins {
                p2.insert(k).await.map_err(|e| format!("{e:#}"))
            } else {
                p2.remove(&k).await;
                Ok(())
            }
        });
        let r = match h.await {
            Ok(Ok(())) => json!("ok"),
            Ok(Err(e)) => json!({ "err": e }),
            Err(e) => json!({ "panic": format!("{e}") }),
        };
        out.push(json!({"r": r, "cur": current_sorted(&env, &p)}));
    }
    json!({ "steps": out })
}

/// Concurrent connection lifecycles against one pool on a multi-thread runtime.
/// Each connection: insert(key)?; [live]; remove(key) — the glue of run_*_stream.
fn run_poolc(env: Arc<Env>, c: &Value) -> Value {
    let workers = c["workers"].as_u64().unwrap_or(4) as usize;
    let rt = tokio::runtime::Builder::new_multi_thread()
        .worker_threads(workers)
        .enable_all()
        .build()
        .unwrap();
    let (p, allowed, limit) = pool_of(&env, c);
    let nkeys = env.nodes.len();
    let live: Arc<Vec<AtomicI64>> = Arc::new((0..nkeys).map(|_| AtomicI64::new(0)).collect());
    let extras = Arc::new(AtomicI64::new(0));
    let viol: Arc<std::sync::Mutex<Vec<String>>> = Arc::default();
    let stats: Arc<[AtomicU64; 4]> = Arc::new([0, 0, 0, 0].map(AtomicU64::new));
    let max_extras = Arc::new(AtomicI64::new(0));
    let res = rt.block_on(async {
        let mut hs = vec![];
        for conn in c["conns"].as_array().unwrap() {
            let k = conn["key"].as_u64().unwrap() as usize;
            let pre = conn["pre"].as_u64().unwrap();
            let hold = conn["hold"].as_u64().unwrap();
            let rounds = conn["rounds"].as_u64().unwrap();
            let (p, live, extras, viol, stats, env, max_extras) = (
                p.clone(),
                live.clone(),
                extras.clone(),
                viol.clone(),
                stats.clone(),
                env.clone(),
                max_extras.clone(),
            );
            let is_allowed = allowed.contains(&k);
            hs.push(tokio::spawn(async move {
                let key = env.nodes[k].public();
                for _ in 0..rounds {
                    for _ in 0..pre {
                        tokio::task::yield_now().await;
                    }
                    match p.insert(key.clone()).await {
                        Ok(()) => {
                            stats[0].fetch_add(1, Ordering::SeqCst);
                            let l = live[k].fetch_add(1, Ordering::SeqCst) + 1;
                            if l > 1 {
                                viol.lock().unwrap().push(format!(
                                    "identity {k} holds {l} connections in one pool at the same time"
                                ));
                            }
                            if !is_allowed {
                                let e = extras.fetch_add(1, Ordering::SeqCst) + 1;
                                max_extras.fetch_max(e, Ordering::SeqCst);
                                if e as u128 > limit as u128 {
                                    viol.lock().unwrap().push(format!(
                                        "{e} non-configured peers connected, quota is {limit}"
                                    ));
                                }
                            }
                            for _ in 0..hold {
                                tokio::task::yield_now().await;
                            }
                            if !p.current().contains(&key) {
                                viol.lock().unwrap().push(format!(
                                    "live connection of identity {k} is missing from the pool"
                                ));
                            }
                            if !is_allowed {
                                extras.fetch_sub(1, Ordering::SeqCst);
                            }
                            live[k].fetch_sub(1, Ordering::SeqCst);
                            p.remove(&key).await;
                        }
                        Err(e) => {
                            let m = format!("{e:#}");
                            if m.contains("already exists") {
                                stats[1].fetch_add(1, Ordering::SeqCst);
                            } else if m.contains("limit exceeded") {
                                stats[2].fetch_add(1, Ordering::SeqCst);
                            } else {
                                stats[3].fetch_add(1, Ordering::SeqCst);
                            }
                        }
                    }
                }
            }));
        }
        let mut panics = vec![];
        for h in hs {
            if let Err(e) = h.await {
                panics.push(format!("{e}"));
            }
        }
        panics
    });
    let fin = current_sorted(&env, &p);
    json!({
        "violations": *viol.lock().unwrap(),
        "panics": res,
        "inserted": stats[0].load(Ordering::SeqCst),
        "rej_exists": stats[1].load(Ordering::SeqCst),
        "rej_limit": stats[2].load(Ordering::SeqCst),
        "rej_other": stats[3].load(Ordering::SeqCst),
        "max_extras": max_extras.load(Ordering::SeqCst),
        "final": fin,
    })
}

fn main() {
    quiet_panics();
    let cases = read_cases();
    let addr = net::tcp::testonly::reserve_listener();
    let env = Arc::new(Env {
        nodes: keys::node_pool(POOL),
        vals: keys::validator_pool(POOL),
        gens: (0..GENS).map(genesis).collect(),
        addr,
    });
    let rt = tokio::runtime::Builder::new_current_thread()
        .enable_all()
        .build()
        .unwrap();
    let local = tokio::task::LocalSet::new();
    let addr2 = net::tcp::testonly::reserve_listener();
    let (mut listener, mut listener2) = {
        let _g = rt.enter();
        (addr.bind(false).expect("bind"), addr2.bind(false).expect("bind"))
    };
    for c in cases {
        let out = match c["t"].as_str().unwrap() {
            "script" => local.block_on(&rt, run_script(env.clone(), &mut listener, &c)),
            "pair" => local.block_on(&rt, run_pair(env.clone(), &mut listener, &c)),
            "glue" => local.block_on(&rt, async {
                // per-case watchdog: a case can never hang the check
                match tokio::time::timeout(
                    std::time::Duration::from_secs(60),
                    run_glue(env.clone(), &mut listener, &mut listener2, *addr2, &c),
                )
                .await
                {
                    Ok(v) => v,
                    Err(_) => json!({"events": [], "stuck": true, "watchdog": true}),
                }
            }),
            "pool" => local.block_on(&rt, run_pool(env.clone(), &c)),
            "poolc" => run_poolc(env.clone(), &c),
            t => panic!("unknown case type {t}"),
        };
        write_line(&out);
    }
}
