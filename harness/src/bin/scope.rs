//! C17: random task-tree programs executed with the real `scope::run!` / `scope::run_blocking!`
//! on a multi-thread tokio runtime under seeded perturbation schedules.
//!
//! input (one JSON object per line):
//!   {"tasks":[{"scope":s,"main":b,"blocking":b,"acts":[["spawn",c],["nested",r,dl],["await"],
//!              ["join",c],["cancel"],["fail",e],["panic"]]},...],
//!    "seeds":[..], "ext_after":k|-1, "stall_ms":n, "hang_ms":n}
//! Task 0 is the root task of the top scope; a task's id is its index; the id of a scope is the
//! id of its root task.
//! output: {"runs":[{"log":[[kind,a,b,c],...],"res":[k,e],"stall":b,"hang":b},...]}
//! Every event is appended to one global log under a mutex, which gives the total order.
//!   [1,t,c,0] SPAWN   logged by t after `s.spawn*(..)` returned (child c is held until then)
//!   [2,t,r,0] NESTED  logged by t before it calls run!/run_blocking! for nested scope r
//!   [3,t,0,0] OBS     logged by t after `ctx.canceled()` completed
//!   [4,t,c,o] JOIN    logged by t after `handle.join(ctx)` completed; o: 0 Ok, 1 Canceled, 2 panicked
//!   [5,t,0,0] CANCEL  logged by t before `s.cancel()`
//!   [6,t,k,e] END     logged by t immediately before its body returns (k: 0 Ok, 1 Err(e), 2 panic)
//!   [7,r,k,e] RET     logged by the caller after run!/run_blocking! of scope r returned / unwound
//!   [8,0,0,0] EXT     logged by the driver before it advances the manual clock past the deadline
//!   [0,t,0,0] START   logged by t when its body starts
//!   [9,t,0,0] HOOK    logged by the hook waker when it is woken (diagnostic, not part of the model)
//!
//! Directed family (atomicity of TerminateGuard::set_err): two extra actions
//!   ["hook",k,ms]  polls one `ctx.canceled()` future with a custom std::task::Wake waker. tokio's
//!                  Semaphore::close calls wake() synchronously on the cancelling thread, i.e. inside
//!                  the first failing task's set_err -> ctx.cancel(). The waker releases every task
//!                  parked in ["held"], waits until k of them passed, and stalls that thread for ms.
//!   ["held"]       parks the task until the hook fired; logged as OBS (the release happens after the
//!                  context's cancelled flag was set), so the held tasks fail strictly after the first.
use serde_json::json;
use std::collections::HashMap;
use std::future::Future;
use std::pin::Pin;
use std::sync::atomic::{AtomicBool, Ordering};
use std::sync::{Arc, Mutex};
use vh::util::*;
use zksync_concurrency::{ctx, scope, time};

type E = i64;
type R = Result<(), E>;

enum Act {
    Spawn(usize),
    Nested(usize, bool),
    AwaitCancel,
    Join(usize),
    Cancel,
    Fail(i64),
    Panic,
    Hook(usize, u64),
    Held,
}

struct TaskDef {
    main: bool,
    blocking: bool,
    acts: Vec<Act>,
}

struct Shared {
    tasks: Vec<TaskDef>,
    log: Mutex<Vec<[i64; 4]>>,
    released: Vec<AtomicBool>,
    seed: u64,
    deadline: time::Deadline,
    hook_released: AtomicBool,
    held_passed: std::sync::atomic::AtomicUsize,
}

type Callback = Box<dyn FnOnce() + Send>;
/// Waker that runs a callback synchronously on the thread that calls wake().
struct HookWaker(Mutex<Option<Callback>>);
impl std::task::Wake for HookWaker {
    fn wake(self: Arc<Self>) {
        let f = self.0.lock().unwrap().take();
        if let Some(f) = f {
            f();
        }
    }
}

/// Registers the hook on `ctx.canceled()`. The polled future (a waiter node of the context's
/// semaphore) is leaked on purpose: it must stay registered after the registering task's body has
/// returned (the task may itself be the first to fail), and it is unlinked by the first close().
fn register_hook<'env>(
    ctx: &'env ctx::Ctx,
    sh: &Arc<Shared>,
    tid: usize,
    k: usize,
    stall_ms: u64,
) {
    let sh2 = sh.clone();
    let waker: std::task::Waker = Arc::new(HookWaker(Mutex::new(Some(Box::new(move || {
        sh2.log([9, tid as i64, 0, 0]);
        sh2.hook_released.store(true, Ordering::SeqCst);
        let t0 = std::time::Instant::now();
        while sh2.held_passed.load(Ordering::SeqCst) < k && t0.elapsed().as_millis() < 1000 {
            std::thread::yield_now();
        }
        std::thread::sleep(std::time::Duration::from_millis(stall_ms));
    })))))
    .into();
    let mut fut: Pin<Box<dyn Future<Output = ()> + Send + 'env>> = Box::pin(ctx.canceled());
    if fut
        .as_mut()
        .poll(&mut std::task::Context::from_waker(&waker))
        .is_ready()
    {
        // already cancelled: nothing will call the waker
        sh.hook_released.store(true, Ordering::SeqCst);
    }
    std::mem::forget(fut);
}

impl Shared {
    fn log(&self, ev: [i64; 4]) {
        self.log.lock().unwrap().push(ev);
    }
    /// seeded perturbation choice for (task, pc): 0 nothing, 1 yield, n>=2 sleep n*20 us
    fn pert(&self, tid: usize, pc: usize) -> u64 {
        let mut z = self
            .seed
            .wrapping_add(0x9E3779B97F4A7C15u64.wrapping_mul((tid as u64) * 64 + pc as u64 + 1));
        z = (z ^ (z >> 30)).wrapping_mul(0xBF58476D1CE4E5B9);
        z = (z ^ (z >> 27)).wrapping_mul(0x94D049BB133111EB);
        z ^= z >> 31;
        match z % 8 {
            0..=3 => 0,
            4 | 5 => 1,
            _ => 2 + (z >> 8) % 12,
        }
    }
}

/// Logs `ev` when dropped during unwinding (a panic passing through the owner), unless disarmed.
struct UnwindLog {
    sh: Arc<Shared>,
    ev: [i64; 4],
    armed: bool,
}
impl Drop for UnwindLog {
    fn drop(&mut self) {
        if self.armed && std::thread::panicking() {
            self.sh.log(self.ev);
        }
    }
}
fn unwind_log(sh: &Arc<Shared>, ev: [i64; 4]) -> UnwindLog {
    UnwindLog {
        sh: sh.clone(),
        ev,
        armed: true,
    }
}

fn res_code(r: &R) -> (i64, i64) {
    match r {
        Ok(()) => (0, 0),
        Err(e) => (1, *e),
    }
}

fn run_async<'env>(
    ctx: &'env ctx::Ctx,
    s: &'env scope::Scope<'env, E>,
    sh: Arc<Shared>,
    tid: usize,
) -> Pin<Box<dyn Future<Output = R> + Send + 'env>> {
    Box::pin(async move {
        while !sh.released[tid].load(Ordering::SeqCst) {
            tokio::task::yield_now().await;
        }
        let t = tid as i64;
        let mut end_guard = unwind_log(&sh, [6, t, 2, 0]);
        sh.log([0, t, 0, 0]);
        let mut handles: HashMap<usize, scope::JoinHandle<'env, ()>> = HashMap::new();
        let n = sh.tasks[tid].acts.len();
        for pc in 0..n {
            match sh.pert(tid, pc) {
                0 => {}
                1 => tokio::task::yield_now().await,
                k => tokio::time::sleep(std::time::Duration::from_micros(k * 20)).await,
            }
            match &sh.tasks[tid].acts[pc] {
                Act::Spawn(c) => {
                    let c = *c;
                    let (main, blocking) = (sh.tasks[c].main, sh.tasks[c].blocking);
                    let sh2 = sh.clone();
                    let h = match (main, blocking) {
                        (true, false) => s.spawn(run_async(ctx, s, sh2, c)),
                        (false, false) => s.spawn_bg(run_async(ctx, s, sh2, c)),
                        (true, true) => s.spawn_blocking(move || run_blocking(ctx, s, sh2, c)),
                        (false, true) => s.spawn_bg_blocking(move || run_blocking(ctx, s, sh2, c)),
                    };
                    sh.log([1, t, c as i64, 0]);
                    sh.released[c].store(true, Ordering::SeqCst);
                    handles.insert(c, h);
                }
                Act::Nested(r, dl) => {
                    let r = *r;
                    sh.log([2, t, r as i64, 0]);
                    sh.released[r].store(true, Ordering::SeqCst);
                    let dctx;
                    let pctx = if *dl {
                        dctx = ctx.with_deadline(sh.deadline);
                        &dctx
                    } else {
                        ctx
                    };
                    let mut g = unwind_log(&sh, [7, r as i64, 2, 0]);
                    let sh2 = sh.clone();
                    let res: R = scope::run!(pctx, |ctx, s| run_async(ctx, s, sh2, r)).await;
                    g.armed = false;
                    let (k, e) = res_code(&res);
                    sh.log([7, r as i64, k, e]);
                    if let Err(e) = res {
                        end_guard.armed = false;
                        sh.log([6, t, 1, e]);
                        return Err(e);
                    }
                }
                Act::AwaitCancel => {
                    ctx.canceled().await;
                    sh.log([3, t, 0, 0]);
                }
                Act::Join(c) => {
                    let h = handles.remove(c).expect("join of a task not spawned by this task");
                    let mut g = unwind_log(&sh, [4, t, *c as i64, 2]);
                    let r = h.join(ctx).await;
                    g.armed = false;
                    sh.log([4, t, *c as i64, if r.is_ok() { 0 } else { 1 }]);
                }
                Act::Cancel => {
                    sh.log([5, t, 0, 0]);
                    s.cancel();
                }
                Act::Fail(e) => {
                    end_guard.armed = false;
                    sh.log([6, t, 1, *e]);
                    return Err(*e);
                }
                Act::Panic => {
                    panic!("verif: scripted panic");
                }
                Act::Hook(k, ms) => register_hook(ctx, &sh, tid, *k, *ms),
                Act::Held => {
                    while !sh.hook_released.load(Ordering::SeqCst) {
                        tokio::time::sleep(std::time::Duration::from_micros(50)).await;
                    }
                    sh.log([3, t, 0, 0]);
                    sh.held_passed.fetch_add(1, Ordering::SeqCst);
                }
            }
        }
        end_guard.armed = false;
        sh.log([6, t, 0, 0]);
        Ok(())
    })
}

fn run_blocking<'env>(
    ctx: &'env ctx::Ctx,
    s: &'env scope::Scope<'env, E>,
    sh: Arc<Shared>,
    tid: usize,
) -> R {
    while !sh.released[tid].load(Ordering::SeqCst) {
        std::thread::yield_now();
    }
    let t = tid as i64;
    let mut end_guard = unwind_log(&sh, [6, t, 2, 0]);
    sh.log([0, t, 0, 0]);
    let mut handles: HashMap<usize, scope::JoinHandle<'env, ()>> = HashMap::new();
    let n = sh.tasks[tid].acts.len();
    for pc in 0..n {
        match sh.pert(tid, pc) {
            0 => {}
            1 => std::thread::yield_now(),
            k => std::thread::sleep(std::time::Duration::from_micros(k * 20)),
        }
        match &sh.tasks[tid].acts[pc] {
            Act::Spawn(c) => {
                let c = *c;
                let (main, blocking) = (sh.tasks[c].main, sh.tasks[c].blocking);
                let sh2 = sh.clone();
                let h = match (main, blocking) {
                    (true, false) => s.spawn(run_async(ctx, s, sh2, c)),
                    (false, false) => s.spawn_bg(run_async(ctx, s, sh2, c)),
                    (true, true) => s.spawn_blocking(move || run_blocking(ctx, s, sh2, c)),
                    (false, true) => s.spawn_bg_blocking(move || run_blocking(ctx, s, sh2, c)),
                };
                sh.log([1, t, c as i64, 0]);
                sh.released[c].store(true, Ordering::SeqCst);
                handles.insert(c, h);
            }
            Act::Nested(r, dl) => {
                let r = *r;
                sh.log([2, t, r as i64, 0]);
                sh.released[r].store(true, Ordering::SeqCst);
                let dctx;
                let pctx = if *dl {
                    dctx = ctx.with_deadline(sh.deadline);
                    &dctx
                } else {
                    ctx
                };
                let mut g = unwind_log(&sh, [7, r as i64, 2, 0]);
                let sh2 = sh.clone();
                let res: R = scope::run_blocking!(pctx, move |ctx, s| run_blocking(ctx, s, sh2, r));
                g.armed = false;
                let (k, e) = res_code(&res);
                sh.log([7, r as i64, k, e]);
                if let Err(e) = res {
                    end_guard.armed = false;
                    sh.log([6, t, 1, e]);
                    return Err(e);
                }
            }
            Act::AwaitCancel => {
                ctx.canceled().block();
                sh.log([3, t, 0, 0]);
            }
            Act::Join(c) => {
                let h = handles.remove(c).expect("join of a task not spawned by this task");
                let mut g = unwind_log(&sh, [4, t, *c as i64, 2]);
                let r = h.join(ctx).block();
                g.armed = false;
                sh.log([4, t, *c as i64, if r.is_ok() { 0 } else { 1 }]);
            }
            Act::Cancel => {
                sh.log([5, t, 0, 0]);
                s.cancel();
            }
            Act::Fail(e) => {
                end_guard.armed = false;
                sh.log([6, t, 1, *e]);
                return Err(*e);
            }
            Act::Panic => {
                panic!("verif: scripted panic");
            }
            Act::Hook(k, ms) => register_hook(ctx, &sh, tid, *k, *ms),
            Act::Held => {
                while !sh.hook_released.load(Ordering::SeqCst) {
                    std::thread::sleep(std::time::Duration::from_micros(50));
                }
                sh.log([3, t, 0, 0]);
                sh.held_passed.fetch_add(1, Ordering::SeqCst);
            }
        }
    }
    end_guard.armed = false;
    sh.log([6, t, 0, 0]);
    Ok(())
}

fn parse_tasks(c: &serde_json::Value) -> Vec<TaskDef> {
    c["tasks"]
        .as_array()
        .unwrap()
        .iter()
        .map(|t| TaskDef {
            main: t["main"].as_bool().unwrap(),
            blocking: t["blocking"].as_bool().unwrap(),
            acts: t["acts"]
                .as_array()
                .unwrap()
                .iter()
                .map(|a| {
                    let arg = |i: usize| a[i].as_u64().unwrap() as usize;
                    match a[0].as_str().unwrap() {
                        "spawn" => Act::Spawn(arg(1)),
                        "nested" => Act::Nested(arg(1), a[2].as_bool().unwrap()),
                        "await" => Act::AwaitCancel,
                        "join" => Act::Join(arg(1)),
                        "cancel" => Act::Cancel,
                        "fail" => Act::Fail(a[1].as_i64().unwrap()),
                        "panic" => Act::Panic,
                        "hook" => Act::Hook(arg(1), a[2].as_u64().unwrap()),
                        "held" => Act::Held,
                        k => panic!("bad act {k}"),
                    }
                })
                .collect(),
        })
        .collect()
}

fn new_runtime() -> tokio::runtime::Runtime {
    tokio::runtime::Builder::new_multi_thread()
        .worker_threads(4)
        .enable_all()
        .build()
        .unwrap()
}

fn main() {
    quiet_panics();
    let mut rt = new_runtime();
    for c in read_cases() {
        let ext_after = c["ext_after"].as_i64().unwrap_or(-1);
        let stall_ms = c["stall_ms"].as_u64().unwrap_or(300) as u128;
        let hang_ms = c["hang_ms"].as_u64().unwrap_or(5000) as u128;
        let mut runs = vec![];
        for seed in c["seeds"].as_array().unwrap() {
            let seed = u64_of(seed);
            let tasks = parse_tasks(&c);
            let n = tasks.len();
            let root_blocking = tasks[0].blocking;
            let clock = ctx::ManualClock::new();
            let deadline = time::Deadline::Finite(clock.now() + time::Duration::seconds(1));
            let sh = Arc::new(Shared {
                tasks,
                log: Mutex::new(vec![]),
                released: (0..n).map(|i| AtomicBool::new(i == 0)).collect(),
                seed,
                deadline,
                hook_released: AtomicBool::new(false),
                held_passed: std::sync::atomic::AtomicUsize::new(0),
            });
            let sh2 = sh.clone();
            let clock2 = clock.clone();
            let handle = rt.spawn(async move {
                let root = ctx::test_root(&clock2);
                let dctx = root.with_deadline(deadline);
                let sh3 = sh2.clone();
                let _g = unwind_log(&sh2, [7, 0, 2, 0]);
                let res: R = if root_blocking {
                    let r = tokio::task::spawn_blocking(move || {
                        let _g = unwind_log(&sh3, [7, 0, 2, 0]);
                        let sh4 = sh3.clone();
                        let res: R =
                            scope::run_blocking!(&dctx, move |ctx, s| run_blocking(ctx, s, sh4, 0));
                        let (k, e) = res_code(&res);
                        sh3.log([7, 0, k, e]);
                        res
                    })
                    .await;
                    match r {
                        Ok(r) => r,
                        Err(_) => return (2i64, 0i64),
                    }
                } else {
                    let res: R = scope::run!(&dctx, |ctx, s| run_async(ctx, s, sh3, 0)).await;
                    let (k, e) = res_code(&res);
                    sh2.log([7, 0, k, e]);
                    res
                };
                res_code(&res)
            });
            let (mut last_len, mut last_change) = (0usize, std::time::Instant::now());
            let (mut ext_fired, mut stall, mut hang) = (false, false, false);
            loop {
                if handle.is_finished() {
                    break;
                }
                let len = sh.log.lock().unwrap().len();
                if len != last_len {
                    last_len = len;
                    last_change = std::time::Instant::now();
                }
                let mut fire = false;
                if !ext_fired && ext_after >= 0 && len as i64 >= ext_after {
                    fire = true;
                }
                if !ext_fired && !fire && last_change.elapsed().as_millis() > stall_ms {
                    stall = true;
                    fire = true;
                }
                if fire {
                    ext_fired = true;
                    sh.log([8, 0, 0, 0]);
                    clock.advance(time::Duration::seconds(2));
                    last_change = std::time::Instant::now();
                    last_len += 1;
                }
                if ext_fired && last_change.elapsed().as_millis() > hang_ms {
                    hang = true;
                    break;
                }
                std::thread::sleep(std::time::Duration::from_micros(100));
            }
            let res = if hang {
                // the scope never returned: abandon the runtime (its futures must not be dropped,
                // the must-complete guard would abort the process) and continue on a fresh one.
                std::mem::forget(std::mem::replace(&mut rt, new_runtime()));
                (3i64, 0i64)
            } else {
                match rt.block_on(handle) {
                    Ok(r) => r,
                    Err(_) => (2, 0),
                }
            };
            let log = sh.log.lock().unwrap().clone();
            runs.push(json!({"log": log, "res": [res.0, res.1], "stall": stall, "hang": hang}));
            if hang {
                // one hang is a verdict; do not spend the hang timeout on every other schedule
                break;
            }
        }
        write_line(&json!({ "runs": runs }));
    }
}
