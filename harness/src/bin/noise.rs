//! C13: noise::bytes::Buffer and the framing logic of noise::Stream over a scripted transport.
//!
//! stream case: {"kind":"stream","dir":0|1,"salt":n,"ops":[["w",len,[script]],["f",[script]],
//!   ["s",[script]],["r",cap,[script]],["t",kind,a,b,c]]}
//!   script items: -1 = Pending, -2 = error, k >= 0 = accept / deliver at most k bytes (flush: ok).
//!   An exhausted script accepts / delivers everything.
//! buf case: {"kind":"buf","cap":n,"ops":[["push",[..]],["wcap",off,[..]],["ext",n],["take",n],
//!   ["pre"],["setpre",a,b],["shift"],["reset"]]}
use std::{
    collections::VecDeque,
    panic::AssertUnwindSafe,
    pin::Pin,
    sync::{Arc, Mutex, MutexGuard},
    task::{Context, Poll, RawWaker, RawWakerVTable, Waker},
};

use serde_json::{json, Value};
use tokio::io::{AsyncRead, AsyncWrite, ReadBuf};
use vh::util::*;
use zksync_concurrency::ctx;
use zksync_consensus_network::verif::{ByteBuffer, NoiseStream};

const PATK: u64 = 1103515245;
const ERR_TAG: &str = "scripted-transport";

fn pat(salt: u64, i: u64) -> u8 {
    (((i * PATK + salt) >> 16) & 255) as u8
}

fn hash_bytes(b: &[u8]) -> u64 {
    let mut h: u64 = 0;
    for x in b {
        h = (h * 33 + *x as u64 + 1) & 0xFFFF_FFFF;
    }
    h
}

fn hex(b: &[u8]) -> String {
    let mut s = String::with_capacity(b.len() * 2);
    for x in b {
        s.push_str(&format!("{x:02x}"));
    }
    s
}

/// State shared by the two endpoints of the in-memory link.
struct Link {
    scripted: bool,
    /// endpoint that writes in scripted mode
    wdir: usize,
    /// q[e] = bytes readable by endpoint e
    q: [VecDeque<u8>; 2],
    wakers: [Option<Waker>; 2],
    wscript: VecDeque<i64>,
    rscript: VecDeque<i64>,
    /// every byte the writer's transport accepted (scripted mode)
    hist: Vec<u8>,
    /// bytes handed to the reader (scripted mode)
    consumed: usize,
    cut: bool,
    closed: bool,
    log: Vec<Value>,
}

#[derive(Clone)]
struct Ep {
    id: usize,
    l: Arc<Mutex<Link>>,
}

fn lock(l: &Arc<Mutex<Link>>) -> MutexGuard<'_, Link> {
    l.lock().unwrap_or_else(|e| e.into_inner())
}

fn terr() -> std::io::Error {
    std::io::Error::other(ERR_TAG)
}

impl AsyncWrite for Ep {
    fn poll_write(
        self: Pin<&mut Self>,
        _cx: &mut Context<'_>,
        buf: &[u8],
    ) -> Poll<std::io::Result<usize>> {
        let mut l = lock(&self.l);
        let peer = 1 - self.id;
        if !l.scripted {
            l.q[peer].extend(buf.iter());
            if let Some(w) = l.wakers[peer].take() {
                w.wake();
            }
            return Poll::Ready(Ok(buf.len()));
        }
        assert_eq!(self.id, l.wdir, "write on the reader endpoint");
        let m = match l.wscript.pop_front() {
            None => buf.len(),
            Some(-1) => {
                l.log.push(json!([0, buf.len(), -1]));
                return Poll::Pending;
            }
            Some(k) if k < 0 => {
                l.log.push(json!([0, buf.len(), -2]));
                return Poll::Ready(Err(terr()));
            }
            Some(k) => (k as usize).min(buf.len()),
        };
        l.hist.extend_from_slice(&buf[..m]);
        if !l.cut {
            l.q[peer].extend(buf[..m].iter());
        }
        l.log.push(json!([0, buf.len(), m]));
        Poll::Ready(Ok(m))
    }

    fn poll_flush(self: Pin<&mut Self>, _cx: &mut Context<'_>) -> Poll<std::io::Result<()>> {
        self.ctl(1)
    }

    fn poll_shutdown(self: Pin<&mut Self>, _cx: &mut Context<'_>) -> Poll<std::io::Result<()>> {
        let r = self.ctl(2);
        if let Poll::Ready(Ok(())) = r {
            let mut l = lock(&self.l);
            if l.scripted {
                l.closed = true;
            }
        }
        r
    }
}

impl Ep {
    fn ctl(&self, code: i64) -> Poll<std::io::Result<()>> {
        let mut l = lock(&self.l);
        if !l.scripted {
            return Poll::Ready(Ok(()));
        }
        assert_eq!(self.id, l.wdir, "flush on the reader endpoint");
        match l.wscript.pop_front() {
            Some(-1) => {
                l.log.push(json!([code, -1]));
                Poll::Pending
            }
            Some(k) if k < 0 => {
                l.log.push(json!([code, -2]));
                Poll::Ready(Err(terr()))
            }
            _ => {
                l.log.push(json!([code, 0]));
                Poll::Ready(Ok(()))
            }
        }
    }
}

impl AsyncRead for Ep {
    fn poll_read(
        self: Pin<&mut Self>,
        cx: &mut Context<'_>,
        buf: &mut ReadBuf<'_>,
    ) -> Poll<std::io::Result<()>> {
        let mut l = lock(&self.l);
        let id = self.id;
        if !l.scripted {
            if l.q[id].is_empty() {
                l.wakers[id] = Some(cx.waker().clone());
                return Poll::Pending;
            }
            let n = buf.remaining().min(l.q[id].len());
            let v: Vec<u8> = l.q[id].drain(..n).collect();
            buf.put_slice(&v);
            return Poll::Ready(Ok(()));
        }
        assert_eq!(id, 1 - l.wdir, "read on the writer endpoint");
        let cap = buf.remaining();
        let m = match l.rscript.pop_front() {
            None => cap,
            Some(-1) => {
                l.log.push(json!([3, cap, -1]));
                return Poll::Pending;
            }
            Some(k) if k < 0 => {
                l.log.push(json!([3, cap, -2]));
                return Poll::Ready(Err(terr()));
            }
            Some(k) => k as usize,
        };
        if l.q[id].is_empty() {
            if l.closed {
                l.log.push(json!([3, cap, 0]));
                return Poll::Ready(Ok(()));
            }
            l.log.push(json!([3, cap, -1]));
            return Poll::Pending;
        }
        let n = m.min(cap).min(l.q[id].len());
        let v: Vec<u8> = l.q[id].drain(..n).collect();
        buf.put_slice(&v);
        l.consumed += n;
        l.log.push(json!([3, cap, n]));
        Poll::Ready(Ok(()))
    }
}

fn noop_waker() -> Waker {
    fn clone(_: *const ()) -> RawWaker {
        RawWaker::new(std::ptr::null(), &VT)
    }
    fn noop(_: *const ()) {}
    static VT: RawWakerVTable = RawWakerVTable::new(clone, noop, noop, noop);
    unsafe { Waker::from_raw(RawWaker::new(std::ptr::null(), &VT)) }
}

fn err_code(e: &std::io::Error) -> i64 {
    match e.kind() {
        std::io::ErrorKind::WriteZero => 1,
        std::io::ErrorKind::InvalidData => 3,
        _ if e.to_string().contains(ERR_TAG) => 2,
        _ => 4,
    }
}

fn script_of(v: &Value) -> VecDeque<i64> {
    v.as_array()
        .map(|a| a.iter().map(i64_of).collect())
        .unwrap_or_default()
}

/// (start offset, body length) of the complete frames of `hist`.
fn frame_table(hist: &[u8]) -> (Vec<(usize, usize)>, usize) {
    let mut t = vec![];
    let mut o = 0;
    loop {
        if o + 2 > hist.len() {
            break;
        }
        let n = u16::from_le_bytes([hist[o], hist[o + 1]]) as usize;
        if o + 2 + n > hist.len() {
            break;
        }
        t.push((o, n));
        o += 2 + n;
    }
    (t, hist.len() - o)
}

fn junk(mut seed: u64, len: usize) -> Vec<u8> {
    let mut v = vec![];
    for _ in 0..len {
        v.push((seed & 255) as u8);
        seed = seed.wrapping_mul(5).wrapping_add(7);
    }
    v
}

/// The single-point tamperings of Model/Noise.v `tamper_of`, on the real bytes in flight.
fn tamper(l: &mut Link, op: &Value) {
    let rd = 1 - l.wdir;
    let kind = op[1].as_str().unwrap().to_string();
    let a = u64_of(&op[2]) as usize;
    let b = u64_of(&op[3]) as usize;
    let c = u64_of(&op[4]);
    let (tbl, _) = frame_table(&l.hist);
    let chan: Vec<u8> = l.q[rd].iter().copied().collect();
    let hl = l.hist.len();
    let consumed = l.consumed;
    let get = |i: usize| -> Option<(usize, usize)> {
        let (st, n) = *tbl.get(i)?;
        if consumed <= st && st + 2 + n <= hl && chan.len() == hl - consumed {
            Some((st - consumed, n))
        } else {
            None
        }
    };
    let mut out = chan.clone();
    let mut cut = false;
    match kind.as_str() {
        "flipbody" => {
            if let Some((o, n)) = get(a) {
                if n > 0 {
                    out[o + 2 + b % n] ^= c as u8;
                }
            }
        }
        "fliplen" => {
            if let Some((o, _)) = get(a) {
                out[o + b % 2] ^= c as u8;
            }
        }
        "trunc" => {
            if let Some((o, n)) = get(a) {
                out.truncate(o + b % (2 + n));
                cut = true;
            }
        }
        "swap" => {
            if let (Some((oi, ni)), Some((oj, nj))) = (get(a), get(b)) {
                if oi < oj {
                    let mut v = chan[..oi].to_vec();
                    v.extend_from_slice(&chan[oj..oj + 2 + nj]);
                    v.extend_from_slice(&chan[oi + 2 + ni..oj]);
                    v.extend_from_slice(&chan[oi..oi + 2 + ni]);
                    v.extend_from_slice(&chan[oj + 2 + nj..]);
                    out = v;
                }
            }
        }
        "dup" => {
            if let Some((o, n)) = get(a) {
                let mut v = chan[..o + 2 + n].to_vec();
                v.extend_from_slice(&chan[o..o + 2 + n]);
                v.extend_from_slice(&chan[o + 2 + n..]);
                out = v;
            }
        }
        "drop" => {
            if let Some((o, n)) = get(a) {
                let mut v = chan[..o].to_vec();
                v.extend_from_slice(&chan[o + 2 + n..]);
                out = v;
            }
        }
        "insert" => {
            if let Some((o, _)) = get(a) {
                let mut v = chan[..o].to_vec();
                v.extend_from_slice(&(b as u16).to_le_bytes());
                v.extend_from_slice(&junk(c, b));
                v.extend_from_slice(&chan[o..]);
                out = v;
            }
        }
        "dropbyte" => {
            if let Some((o, n)) = get(a) {
                if n > 0 {
                    out.remove(o + 2 + b % n);
                }
            }
        }
        "addbyte" => {
            if let Some((o, n)) = get(a) {
                if n > 0 {
                    out.insert(o + 2 + b % n, c as u8);
                }
            }
        }
        k => panic!("unknown tamper kind {k}"),
    }
    l.q[rd] = out.into();
    l.wscript.clear();
    l.rscript.clear();
    if cut {
        l.cut = true;
        l.closed = true;
    }
}

fn stream_case(rt: &tokio::runtime::Runtime, c: &Value) -> Value {
    let link = Arc::new(Mutex::new(Link {
        scripted: false,
        wdir: 0,
        q: [VecDeque::new(), VecDeque::new()],
        wakers: [None, None],
        wscript: VecDeque::new(),
        rscript: VecDeque::new(),
        hist: vec![],
        consumed: 0,
        cut: false,
        closed: false,
        log: vec![],
    }));
    let (e0, e1) = (
        Ep {
            id: 0,
            l: link.clone(),
        },
        Ep {
            id: 1,
            l: link.clone(),
        },
    );
    let ctx = ctx::root();
    let (client, server) = rt.block_on(async {
        tokio::join!(
            NoiseStream::client_handshake(&ctx, e0),
            NoiseStream::server_handshake(&ctx, e1)
        )
    });
    let (client, server) = (client.expect("client handshake"), server.expect("server handshake"));
    let same_session = client.id() == server.id();
    let dir = c["dir"].as_u64().unwrap_or(0) as usize;
    let (mut w, mut r) = if dir == 0 {
        (client, server)
    } else {
        (server, client)
    };
    {
        let mut l = lock(&link);
        assert!(l.q[0].is_empty() && l.q[1].is_empty(), "handshake left bytes in flight");
        l.scripted = true;
        l.wdir = dir;
    }
    let salt = u64_of(&c["salt"]);
    let waker = noop_waker();
    let mut accepted: u64 = 0;
    let mut outs = vec![];
    for op in c["ops"].as_array().unwrap() {
        let link2 = link.clone();
        let res = catch(AssertUnwindSafe(|| {
            let mut cx = Context::from_waker(&waker);
            let kind = op[0].as_str().unwrap();
            {
                let mut l = lock(&link2);
                l.log.clear();
                l.wscript.clear();
                l.rscript.clear();
            }
            let mut extra = json!(null);
            let res: Value = match kind {
                "w" => {
                    let len = u64_of(&op[1]);
                    lock(&link2).wscript = script_of(&op[2]);
                    let data: Vec<u8> = (0..len).map(|i| pat(salt, accepted + i)).collect();
                    match Pin::new(&mut w).poll_write(&mut cx, &data) {
                        Poll::Ready(Ok(n)) => {
                            accepted += n as u64;
                            json!([0, n])
                        }
                        Poll::Pending => json!([1]),
                        Poll::Ready(Err(e)) => json!([2, err_code(&e)]),
                    }
                }
                "f" | "s" => {
                    lock(&link2).wscript = script_of(&op[1]);
                    let p = if kind == "f" {
                        Pin::new(&mut w).poll_flush(&mut cx)
                    } else {
                        Pin::new(&mut w).poll_shutdown(&mut cx)
                    };
                    match p {
                        Poll::Ready(Ok(())) => json!([0]),
                        Poll::Pending => json!([1]),
                        Poll::Ready(Err(e)) => json!([2, err_code(&e)]),
                    }
                }
                "r" => {
                    let cap = u64_of(&op[1]) as usize;
                    lock(&link2).rscript = script_of(&op[2]);
                    let mut storage = vec![0u8; cap];
                    let mut rb = ReadBuf::new(&mut storage);
                    match Pin::new(&mut r).poll_read(&mut cx, &mut rb) {
                        Poll::Ready(Ok(())) => {
                            let f = rb.filled();
                            extra = json!(hex(f));
                            json!([0, f.len(), hash_bytes(f)])
                        }
                        Poll::Pending => json!([1]),
                        Poll::Ready(Err(e)) => json!([2, err_code(&e)]),
                    }
                }
                "t" => {
                    let mut l = lock(&link2);
                    tamper(&mut l, op);
                    let n = l.q[1 - l.wdir].len();
                    json!([0, n])
                }
                k => panic!("unknown op {k}"),
            };
            let log = std::mem::take(&mut lock(&link2).log);
            json!({"res": res, "log": log, "data": extra})
        }));
        match res {
            Ok(v) => outs.push(v),
            Err(m) => {
                outs.push(json!({ "panic": m }));
                break;
            }
        }
    }
    let l = lock(&link);
    let (tbl, trailing) = frame_table(&l.hist);
    let frames: Vec<usize> = tbl.iter().map(|x| x.1).collect();
    json!({"ops": outs, "frames": frames, "trailing": trailing, "wire_len": l.hist.len(),
           "same_session": same_session, "accepted": accepted})
}

fn bytes_of(v: &Value) -> Vec<u8> {
    v.as_array()
        .unwrap()
        .iter()
        .map(|x| u64_of(x) as u8)
        .collect()
}

fn buf_case(c: &Value) -> Value {
    let mut b = ByteBuffer::new(u64_of(&c["cap"]) as usize);
    let mut outs = vec![];
    for op in c["ops"].as_array().unwrap() {
        let r = catch(AssertUnwindSafe(|| {
            let mut extra: Vec<Value> = vec![];
            match op[0].as_str().unwrap() {
                "push" => extra.push(json!(b.push(&bytes_of(&op[1])))),
                "wcap" => {
                    let off = u64_of(&op[1]) as usize;
                    let d = bytes_of(&op[2]);
                    b.as_mut_capacity()[off..off + d.len()].copy_from_slice(&d);
                }
                "ext" => b.extend(u64_of(&op[1]) as usize),
                "take" => b.take(u64_of(&op[1]) as usize),
                "pre" => {
                    let p = b.prefix2();
                    extra.push(json!(p[0]));
                    extra.push(json!(p[1]));
                }
                "setpre" => b.set_prefix2([u64_of(&op[1]) as u8, u64_of(&op[2]) as u8]),
                "shift" => b.shift(),
                "reset" => b.reset(),
                k => panic!("unknown buffer op {k}"),
            }
            let mut o = vec![json!(0), json!(b.len()), json!(b.capacity()), json!(b.as_slice())];
            o.extend(extra);
            Value::Array(o)
        }));
        match r {
            Ok(v) => outs.push(v),
            Err(m) => {
                outs.push(json!({ "panic": m }));
                break;
            }
        }
    }
    json!({ "ops": outs })
}

fn main() {
    quiet_panics();
    let rt = tokio::runtime::Builder::new_current_thread()
        .enable_all()
        .build()
        .unwrap();
    for c in read_cases() {
        let out = match c["kind"].as_str().unwrap() {
            "stream" => stream_case(&rt, &c),
            "buf" => buf_case(&c),
            k => panic!("unknown case kind {k}"),
        };
        write_line(&out);
    }
}
