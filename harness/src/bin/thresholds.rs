//! C07: evaluates the three threshold functions of the library on given totals.
//! input line: {"n": "<u64>"}; output: {"f":..,"q":..,"s":..} as decimal strings or {"panic":msg}.
use serde_json::json;
use vh::util::*;
use zksync_consensus_roles::validator;

fn main() {
    quiet_panics();
    let pool = vh::keys::validator_pool(16);
    for c in read_cases() {
        if let Some(ws) = c.get("weights") {
            // the thresholds as methods of a real Schedule (committee given by weights + leader flags)
            let vals: Vec<_> = ws
                .as_array()
                .unwrap()
                .iter()
                .enumerate()
                .map(|(i, w)| validator::ValidatorInfo {
                    key: pool[i].public(),
                    weight: u64_of(w),
                    leader: c["leaders"][i].as_u64().unwrap_or(1) != 0,
                })
                .collect();
            let show = |r: Result<u64, String>| match r {
                Ok(v) => json!(v.to_string()),
                Err(m) => json!({ "panic": m }),
            };
            match validator::Schedule::new(vals, validator::LeaderSelection::default()) {
                Ok(sch) => {
                    let t = catch(|| sch.total_weight());
                    let f = catch(|| sch.max_faulty_weight());
                    let q = catch(|| sch.quorum_threshold());
                    let s = catch(|| sch.subquorum_threshold());
                    write_line(&json!({"sched": true, "total": show(t), "f": show(f), "q": show(q), "s": show(s)}));
                }
                Err(e) => write_line(&json!({"sched": false, "err": format!("{e:#}")})),
            }
            continue;
        }
        let n = u64_of(&c["n"]);
        let f = catch(|| validator::max_faulty_weight(n));
        let q = catch(|| validator::quorum_threshold(n));
        let s = catch(|| validator::subquorum_threshold(n));
        let show = |r: Result<u64, String>| match r {
            Ok(v) => json!(v.to_string()),
            Err(m) => json!({ "panic": m }),
        };
        write_line(&json!({"n": n.to_string(), "f": show(f), "q": show(q), "s": show(s)}));
    }
}
