//! C07: evaluates the three threshold functions of the library on given totals.
//! input line: {"n": "<u64>"}; output: {"f":..,"q":..,"s":..} as decimal strings or {"panic":msg}.
use serde_json::json;
use vh::util::*;
use zksync_consensus_roles::validator;

fn main() {
    quiet_panics();
    for c in read_cases() {
        let n = u64_of(&c["n"]);
        let f = catch(|| validator::max_faulty_weight(n));
        let q = catch(|| validator::quorum_threshold(n));
        let s = catch(|| validator::subquorum_threshold(n));
        let show = |r: Result<u64, String>| match r {
            Ok(v) => json!(v.to_string()),
            Err(m) => json!({ "panic": m }),
        };
        write_line(&json!({"n": n.to_string(), "f": show(f), "q": show(q), "s": show(s)}));
    }
}
