//! C14: the real multiplexer driven by deterministic scripts.
//!
//! modes (field "mode"):
//!  * "header":  {"raws":[u16..], "news":[[fk,sk,id]..]}  -> header_parts / header_new
//!  * "verify":  {"cfg":[rfs,rbs,rfc,wfs], "accept":[[cap,max]..], "connect":[..]} -> Mux::verify
//!  * "pair":    two real Mux instances over an in-memory duplex pipe
//!  * "raw":     one real Mux (side 1 = B); side 0 is the harness writing arbitrary bytes
//!
//! pair/raw input: {"cfg":[[rfs,rbs,rfc,wfs],[..]], "caps":[{"accept":[[cap,max]..],"connect":[..]},{..}], "ops":[..]}
//! ops: ["open",side,kind,cap,slot] (kind 0 = accept queue, 1 = connect queue)
//!      ["write",slot,n] ["flush",slot] ["read",slot,n] ["dropw",slot] ["dropr",slot]
//!      ["rawframe",hdr,lenfield(-1 = none),nbytes] ["rawbytes",[..]] ["rawrepeat",[pattern],count] ["rawclose"]
//! After the start-up and after every op the runtime is drained to quiescence and one observation is
//! taken: [events, frames written by A, frames written by B, bytes pulled by A, by B, status].
use std::{
    collections::BTreeMap,
    pin::Pin,
    sync::{
        atomic::{AtomicU64, Ordering},
        Arc, Mutex,
    },
    task::{Context, Poll},
};

use serde_json::{json, Value};
use tokio::io::{AsyncRead, AsyncWrite, AsyncWriteExt, DuplexStream, ReadBuf};
use vh::util::*;
use zksync_concurrency::{ctx, limiter, scope};
use zksync_consensus_network::verif::mux::{
    encode_handshake, header_new, header_parts, VConfig, VMux, VQueue, VReadStream, VWriteStream,
};

/// Transport wrapper: counts the bytes the mux pulls and records the bytes it writes.
struct Tee {
    inner: DuplexStream,
    pulled: Arc<AtomicU64>,
    wrote: Arc<Mutex<Vec<u8>>>,
    activity: Arc<AtomicU64>,
}

impl AsyncRead for Tee {
    fn poll_read(
        mut self: Pin<&mut Self>,
        cx: &mut Context<'_>,
        buf: &mut ReadBuf<'_>,
    ) -> Poll<std::io::Result<()>> {
        let before = buf.filled().len();
        let r = Pin::new(&mut self.inner).poll_read(cx, buf);
        let n = (buf.filled().len() - before) as u64;
        if n > 0 {
            self.pulled.fetch_add(n, Ordering::SeqCst);
            self.activity.fetch_add(1, Ordering::SeqCst);
        }
        r
    }
}

impl AsyncWrite for Tee {
    fn poll_write(
        mut self: Pin<&mut Self>,
        cx: &mut Context<'_>,
        buf: &[u8],
    ) -> Poll<std::io::Result<usize>> {
        let r = Pin::new(&mut self.inner).poll_write(cx, buf);
        if let Poll::Ready(Ok(n)) = &r {
            self.wrote.lock().unwrap().extend_from_slice(&buf[..*n]);
            self.activity.fetch_add(1, Ordering::SeqCst);
        }
        r
    }
    fn poll_flush(mut self: Pin<&mut Self>, cx: &mut Context<'_>) -> Poll<std::io::Result<()>> {
        Pin::new(&mut self.inner).poll_flush(cx)
    }
    fn poll_shutdown(mut self: Pin<&mut Self>, cx: &mut Context<'_>) -> Poll<std::io::Result<()>> {
        Pin::new(&mut self.inner).poll_shutdown(cx)
    }
}

/// Byte number `k` of the data written through slot `tag`. Two different tags (mod 256) differ at
/// every offset, so any delivered byte identifies the stream it was written on.
fn data_byte(tag: u64, k: u64) -> u8 {
    (tag.wrapping_mul(37).wrapping_add(k).wrapping_add(k / 256) % 256) as u8
}

fn filler_byte(pos: u64) -> u8 {
    ((pos * 7 + 3) % 256) as u8
}

fn hash(data: &[u8]) -> u64 {
    let mut h = 0u64;
    for b in data {
        h = (h * 31 + *b as u64 + 1) % 1000003;
    }
    h
}

#[derive(Default)]
struct Slot {
    side: usize,
    opened: bool,
    read: Option<VReadStream>,
    write: Option<VWriteStream>,
    read_pending: bool,
    woff: u64,
    roff: u64,
    written: Vec<u8>,
}

#[derive(Default)]
struct Shared {
    slots: BTreeMap<u64, Slot>,
    events: Vec<Vec<i64>>,
    /// extra information for the predicates (not part of the compared observation)
    reads: Vec<Value>,
    status: [Option<(String, String)>; 2],
}

/// Parser of the byte log written by one mux: handshake frame, then mux frames.
#[derive(Default)]
struct WireLog {
    pos: usize,
    hs_len: Option<usize>,
}

impl WireLog {
    /// Returns the frames completed since the last call as [hdr] or [hdr,len].
    fn advance(&mut self, log: &[u8]) -> Vec<Vec<i64>> {
        let mut out = vec![];
        if self.hs_len.is_none() {
            if log.len() < 4 {
                return out;
            }
            let l = u32::from_le_bytes(log[0..4].try_into().unwrap()) as usize;
            if log.len() < 4 + l {
                return out;
            }
            self.hs_len = Some(4 + l);
            self.pos = 4 + l;
        }
        loop {
            if log.len() < self.pos + 2 {
                return out;
            }
            let h = u16::from_le_bytes(log[self.pos..self.pos + 2].try_into().unwrap());
            if h & 0xC000 == 0x4000 {
                if log.len() < self.pos + 4 {
                    return out;
                }
                let l = u16::from_le_bytes(log[self.pos + 2..self.pos + 4].try_into().unwrap())
                    as usize;
                if log.len() < self.pos + 4 + l {
                    return out;
                }
                self.pos += 4 + l;
                out.push(vec![h as i64, l as i64]);
            } else {
                self.pos += 2;
                out.push(vec![h as i64]);
            }
        }
    }
}

fn err_code(name: &str) -> i64 {
    match name {
        "Config" => 1,
        "Canceled" => 2,
        "Closed" => 3,
        "Protocol" => 4,
        "IO" => 5,
        _ => 9,
    }
}

fn caps_of(v: &Value) -> Vec<(u64, u32)> {
    v.as_array()
        .unwrap()
        .iter()
        .map(|e| (u64_of(&e[0]), u64_of(&e[1]) as u32))
        .collect()
}

fn cfg_of(v: &Value) -> VConfig {
    VConfig {
        read_frame_size: u64_of(&v[0]),
        read_buffer_size: u64_of(&v[1]),
        read_frame_count: u64_of(&v[2]),
        write_frame_size: u64_of(&v[3]),
    }
}

async fn settle(activity: &AtomicU64) {
    let mut idle = 0;
    let mut last = activity.load(Ordering::SeqCst);
    while idle < 48 {
        tokio::task::yield_now().await;
        let now = activity.load(Ordering::SeqCst);
        if now != last {
            last = now;
            idle = 0;
        } else {
            idle += 1;
        }
    }
}

const BIG: usize = 1 << 30;

async fn run_script(c: &Value) -> Value {
    let raw_mode = c["mode"].as_str() == Some("raw");
    let ctx = &ctx::test_root(&ctx::RealClock);
    let activity = Arc::new(AtomicU64::new(0));
    let shared = Arc::new(Mutex::new(Shared::default()));
    let (da, db) = tokio::io::duplex(BIG);
    let pulled = [Arc::new(AtomicU64::new(0)), Arc::new(AtomicU64::new(0))];
    let wrote = [
        Arc::new(Mutex::new(Vec::<u8>::new())),
        Arc::new(Mutex::new(Vec::<u8>::new())),
    ];
    // queues[side][kind][cap]
    let mut queues: Vec<[BTreeMap<u64, VQueue>; 2]> = vec![];
    let mut muxes = vec![];
    for side in 0..2 {
        let caps = &c["caps"][side];
        let mut qs = [BTreeMap::new(), BTreeMap::new()];
        let mut lists = [vec![], vec![]];
        if !(raw_mode && side == 0) {
            for (kind, name) in [(0usize, "accept"), (1usize, "connect")] {
                for (cap, max) in caps_of(&caps[name]) {
                    let q = VQueue::new(ctx, max, limiter::Rate::INF);
                    qs[kind].insert(cap, q.clone());
                    lists[kind].push((cap, q));
                }
            }
            let [l0, l1] = lists;
            muxes.push(Some(VMux::new(cfg_of(&c["cfg"][side]), l0, l1)));
        } else {
            muxes.push(None);
        }
        queues.push(qs);
    }
    let mut raw_end: Option<DuplexStream> = None;
    let mut raw_hs_len = 0usize;
    let mut transports = vec![];
    if raw_mode {
        raw_end = Some(da);
        transports.push(None);
    } else {
        transports.push(Some(Tee {
            inner: da,
            pulled: pulled[0].clone(),
            wrote: wrote[0].clone(),
            activity: activity.clone(),
        }));
    }
    transports.push(Some(Tee {
        inner: db,
        pulled: pulled[1].clone(),
        wrote: wrote[1].clone(),
        activity: activity.clone(),
    }));

    let mut obs: Vec<Value> = vec![];
    let mut reads_info: Vec<Value> = vec![];
    let ops: Vec<Value> = c["ops"].as_array().cloned().unwrap_or_default();
    let shared_out = shared.clone();
    let res: Result<(Vec<Value>, Vec<Value>), ctx::Canceled> = scope::run!(ctx, |ctx, s| async move {
        for side in 0..2 {
            if let (Some(m), Some(t)) = (muxes[side].take(), transports[side].take()) {
                let shared = shared.clone();
                let activity = activity.clone();
                s.spawn_bg(async move {
                    let r = m.run(ctx, t).await;
                    if let Err(e) = r {
                        shared.lock().unwrap().status[side] = Some(e);
                    } else {
                        shared.lock().unwrap().status[side] = Some(("Ok".into(), "".into()));
                    }
                    activity.fetch_add(1, Ordering::SeqCst);
                    Ok(())
                });
            }
        }
        if raw_mode {
            let hs = encode_handshake(
                &caps_of(&c["caps"][0]["accept"]),
                &caps_of(&c["caps"][0]["connect"]),
            );
            let mut bytes = (hs.len() as u32).to_le_bytes().to_vec();
            bytes.extend_from_slice(&hs);
            raw_hs_len = bytes.len();
            raw_end.as_mut().unwrap().write_all(&bytes).await.unwrap();
        }
        let mut logs = [WireLog::default(), WireLog::default()];
        let mut step = 0usize;
        loop {
            settle(&activity).await;
            // ---- observe ----
            let mut frames = vec![];
            for side in 0..2 {
                let log = wrote[side].lock().unwrap();
                frames.push(logs[side].advance(&log));
            }
            let hs_of_peer = |side: usize| -> Option<usize> {
                if raw_mode {
                    if side == 1 {
                        Some(raw_hs_len)
                    } else {
                        None
                    }
                } else {
                    logs[1 - side].hs_len
                }
            };
            let mut pl = vec![];
            for side in 0..2 {
                let p = pulled[side].load(Ordering::SeqCst) as usize;
                pl.push(match hs_of_peer(side) {
                    Some(h) => p.saturating_sub(h) as i64,
                    None => 0,
                });
            }
            let (mut events, status) = {
                let mut sh = shared.lock().unwrap();
                reads_info.append(&mut sh.reads);
                let ev = std::mem::take(&mut sh.events);
                let st: Vec<Value> = (0..2)
                    .filter_map(|i| {
                        sh.status[i]
                            .as_ref()
                            .map(|(n, _)| json!([i as i64, err_code(n)]))
                    })
                    .collect();
                (ev, st)
            };
            events.sort();
            let dead = !status.is_empty();
            obs.push(json!([events, frames[0], frames[1], pl[0], pl[1], status]));
            if dead || step >= ops.len() {
                break;
            }
            // ---- next op ----
            let op = &ops[step];
            step += 1;
            let name = op[0].as_str().unwrap();
            match name {
                "open" => {
                    let side = op[1].as_u64().unwrap() as usize;
                    let kind = op[2].as_u64().unwrap() as usize;
                    let cap = u64_of(&op[3]);
                    let slot = u64_of(&op[4]);
                    let q = queues[side][kind].get(&cap).cloned();
                    let mut sh = shared.lock().unwrap();
                    if sh.slots.contains_key(&slot) || q.is_none() || (raw_mode && side == 0) {
                        sh.events.push(vec![slot as i64, -1]);
                        continue;
                    }
                    sh.slots.insert(
                        slot,
                        Slot {
                            side,
                            ..Default::default()
                        },
                    );
                    drop(sh);
                    let q = q.unwrap();
                    let shared = shared.clone();
                    let activity = activity.clone();
                    s.spawn_bg(async move {
                        let Ok(st) = q.open(ctx).await else {
                            return Ok(());
                        };
                        let mut sh = shared.lock().unwrap();
                        let sl = sh.slots.get_mut(&slot).unwrap();
                        sl.opened = true;
                        sl.read = Some(st.read);
                        sl.write = Some(st.write);
                        sh.events.push(vec![slot as i64, 0]);
                        activity.fetch_add(1, Ordering::SeqCst);
                        Ok(())
                    });
                }
                "write" | "flush" | "dropw" => {
                    let slot = u64_of(&op[1]);
                    let w = {
                        let mut sh = shared.lock().unwrap();
                        match sh.slots.get_mut(&slot) {
                            Some(sl) if sl.opened && sl.write.is_some() => sl.write.take(),
                            _ => None,
                        }
                    };
                    let Some(mut w) = w else {
                        shared.lock().unwrap().events.push(vec![slot as i64, -1]);
                        continue;
                    };
                    if name == "dropw" {
                        drop(w);
                        continue;
                    }
                    let r = if name == "write" {
                        let n = u64_of(&op[2]);
                        let off = shared.lock().unwrap().slots[&slot].woff;
                        let data: Vec<u8> = (off..off + n).map(|k| data_byte(slot, k)).collect();
                        {
                            // recorded first: a pending read of the peer may complete while write_all is awaited
                            let mut sh = shared.lock().unwrap();
                            let sl = sh.slots.get_mut(&slot).unwrap();
                            sl.woff += n;
                            sl.written.extend_from_slice(&data);
                        }
                        let r = tokio::time::timeout(
                            std::time::Duration::from_secs(20),
                            w.write_all(ctx, &data),
                        )
                        .await
                        .expect("write_all blocked although the transport is unbounded");
                        r
                    } else {
                        tokio::time::timeout(std::time::Duration::from_secs(20), w.flush(ctx))
                            .await
                            .expect("flush blocked")
                    };
                    let mut sh = shared.lock().unwrap();
                    if r.is_err() {
                        sh.events.push(vec![slot as i64, 3]);
                    }
                    sh.slots.get_mut(&slot).unwrap().write = Some(w);
                }
                "dropr" => {
                    let slot = u64_of(&op[1]);
                    let mut sh = shared.lock().unwrap();
                    let r = match sh.slots.get_mut(&slot) {
                        Some(sl) if sl.opened && sl.read.is_some() => sl.read.take(),
                        _ => None,
                    };
                    if r.is_none() {
                        sh.events.push(vec![slot as i64, -1]);
                    }
                    drop(sh);
                    drop(r);
                }
                "read" => {
                    let slot = u64_of(&op[1]);
                    let n = u64_of(&op[2]) as usize;
                    let r = {
                        let mut sh = shared.lock().unwrap();
                        match sh.slots.get_mut(&slot) {
                            Some(sl) if sl.opened && sl.read.is_some() => {
                                sl.read_pending = true;
                                sl.read.take()
                            }
                            _ => None,
                        }
                    };
                    let Some(mut r) = r else {
                        shared.lock().unwrap().events.push(vec![slot as i64, -1]);
                        continue;
                    };
                    let shared = shared.clone();
                    let activity = activity.clone();
                    s.spawn_bg(async move {
                        let data = match r.read_exact(ctx, n).await {
                            Ok(d) => d,
                            Err(_) => return Ok(()),
                        };
                        let mut sh = shared.lock().unwrap();
                        let (side, roff) = {
                            let sl = sh.slots.get_mut(&slot).unwrap();
                            sl.read = Some(r);
                            sl.read_pending = false;
                            let roff = sl.roff;
                            sl.roff += data.len() as u64;
                            (sl.side, roff as usize)
                        };
                        // which writer slots of the other side wrote exactly these bytes at this offset
                        let srcs: Vec<u64> = sh
                            .slots
                            .iter()
                            .filter(|(_, w)| {
                                w.side != side
                                    && !data.is_empty()
                                    && w.written.len() >= roff + data.len()
                                    && w.written[roff..roff + data.len()] == data[..]
                            })
                            .map(|(k, _)| *k)
                            .collect();
                        sh.reads.push(json!({"slot": slot, "off": roff, "want": n, "len": data.len(), "srcs": srcs}));
                        sh.events.push(vec![
                            slot as i64,
                            1,
                            n as i64,
                            data.len() as i64,
                            hash(&data) as i64,
                        ]);
                        activity.fetch_add(1, Ordering::SeqCst);
                        Ok(())
                    });
                }
                "rawframe" => {
                    let hdr = u64_of(&op[1]) as u16;
                    let lenf = i64_of(&op[2]);
                    let nbytes = u64_of(&op[3]);
                    let mut bytes = hdr.to_le_bytes().to_vec();
                    if lenf >= 0 {
                        bytes.extend_from_slice(&(lenf as u16).to_le_bytes());
                    }
                    bytes.extend((0..nbytes).map(filler_byte));
                    if let Some(e) = raw_end.as_mut() {
                        e.write_all(&bytes).await.unwrap();
                    }
                }
                "rawbytes" => {
                    let bytes: Vec<u8> = op[1]
                        .as_array()
                        .unwrap()
                        .iter()
                        .map(|b| b.as_u64().unwrap() as u8)
                        .collect();
                    if let Some(e) = raw_end.as_mut() {
                        e.write_all(&bytes).await.unwrap();
                    }
                }
                "rawrepeat" => {
                    // ["rawrepeat", [pattern bytes], count]: the pattern written `count` times in one go
                    let pat: Vec<u8> = op[1]
                        .as_array()
                        .unwrap()
                        .iter()
                        .map(|b| b.as_u64().unwrap() as u8)
                        .collect();
                    let n = u64_of(&op[2]) as usize;
                    let bytes: Vec<u8> = pat.iter().cycle().take(pat.len() * n).cloned().collect();
                    if let Some(e) = raw_end.as_mut() {
                        e.write_all(&bytes).await.unwrap();
                    }
                }
                "rawclose" => {
                    raw_end.take();
                }
                other => panic!("unknown op {other}"),
            }
        }
        Ok((obs, reads_info))
    })
    .await;
    let (obs, reads_info) = res.unwrap_or_default();
    let sh = shared_out.lock().unwrap();
    let errs: Vec<Value> = sh
        .status
        .iter()
        .map(|s| json!(s.as_ref().map(|(n, m)| format!("{n}: {m}"))))
        .collect();
    let written: BTreeMap<String, u64> = sh
        .slots
        .iter()
        .map(|(k, v)| (k.to_string(), v.woff))
        .collect();
    json!({"obs": obs, "reads": reads_info, "errors": errs, "written": written})
}

fn main() {
    quiet_panics();
    for c in read_cases() {
        let mode = c["mode"].as_str().unwrap_or("pair").to_string();
        let out = match mode.as_str() {
            "header" => {
                let raws: Vec<Value> = c["raws"]
                    .as_array()
                    .unwrap()
                    .iter()
                    .map(|r| {
                        let (f, s, i) = header_parts(u64_of(r) as u16);
                        json!([f, s, i])
                    })
                    .collect();
                let news: Vec<Value> = c["news"]
                    .as_array()
                    .unwrap()
                    .iter()
                    .map(|t| {
                        let (f, s, i) = (
                            u64_of(&t[0]) as u16,
                            u64_of(&t[1]) as u16,
                            u64_of(&t[2]) as u16,
                        );
                        match catch(move || header_new(f, s, i)) {
                            Ok(b) => json!([0, u16::from_le_bytes(b), b[0], b[1]]),
                            Err(_) => json!([1, 6]),
                        }
                    })
                    .collect();
                json!({"obs": [raws, news]})
            }
            "verify" => {
                let rt = tokio::runtime::Builder::new_current_thread()
                    .enable_all()
                    .build()
                    .unwrap();
                let ok = rt.block_on(async {
                    let ctx = &ctx::test_root(&ctx::RealClock);
                    let mk = |v: &Value| -> Vec<(u64, VQueue)> {
                        caps_of(v)
                            .into_iter()
                            .map(|(cap, m)| (cap, VQueue::new(ctx, m, limiter::Rate::INF)))
                            .collect()
                    };
                    VMux::new(cfg_of(&c["cfg"]), mk(&c["accept"]), mk(&c["connect"]))
                        .verify()
                        .is_ok()
                });
                json!({"obs": [if ok { 1 } else { 0 }]})
            }
            _ => {
                let c2 = c.clone();
                let r = catch(std::panic::AssertUnwindSafe(move || {
                    let rt = tokio::runtime::Builder::new_current_thread()
                        .enable_all()
                        .build()
                        .unwrap();
                    rt.block_on(run_script(&c2))
                }));
                match r {
                    Ok(v) => v,
                    Err(m) => json!({"panic": m}),
                }
            }
        };
        write_line(&out);
    }
}
