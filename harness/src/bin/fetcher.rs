//! C19 (fetcher): the real `gossip::Network::run_block_fetcher` (gossip/mod.rs) of a `Network`
//! built with the public `Network::new`, over the real `EngineManager` + its runner and a scripted
//! persistence layer, on a current_thread runtime.  Needs the hook of
//! /verif/proposed_hooks/C19_fetcher.diff (`Glue::gossip_run_block_fetcher`,
//! `gossip_fetch_queue_blocks`, `gossip_accept_block`).
//!
//! All blocks are pre-genesis blocks (genesis.first_block is far above every number used), so no
//! certificates are involved: `verify_pregenesis_block` of the scripted engine accepts them.
//!
//! input : {"start": s0, "limit": L, "steps": [[op, ...], ...]}
//!   the store initially holds blocks 0..s0-1 (empty if s0 = 0); max_block_queue_size = L
//!   op = ["arrive", n]   block n arrives by another route: queue_block(block n) in a task
//!      | ["persist", k]  the persistence layer completes k more queue_next_block calls
//!      | ["take"]        a connection announcing every block runs accept_block once (given up
//!                        at the end of the step if nothing was queued)
//!      | ["store", i]    the i-th held call fetched its block: queue_block(block).await, then
//!                        send_resp.send(()) (the order of runner.rs)
//!      | ["drop", i]     the i-th held call failed: sender dropped
//! output: {"steps": [{"blocks": [..], "held": [..], "storing": [..], "qnext": q, "pnext": p}, ..]}
use std::sync::{Arc, Mutex};

use serde_json::{json, Value};
use vh::{keys, util::*};
use zksync_concurrency::{ctx, limiter, net, scope, sync, time};
use zksync_consensus_engine::{BlockStoreState, EngineInterface, EngineManager, Last, Transaction};
use zksync_consensus_network::{
    verif::{gossip::BlockCall, Glue},
    Config, GossipConfig, Network, RpcConfig,
};
use zksync_consensus_roles::validator;

const FIRST_BLOCK: u64 = 1_000_000;

#[derive(Debug)]
struct Inner {
    genesis: validator::Genesis,
    persisted: sync::watch::Sender<BlockStoreState>,
    permits: Mutex<u64>,
    notify: tokio::sync::Notify,
}

#[derive(Debug, Clone)]
struct Eng(Arc<Inner>);

fn block(n: u64) -> validator::Block {
    validator::PreGenesisBlock {
        number: validator::BlockNumber(n),
        payload: validator::Payload(format!("b{n}").into_bytes()),
        justification: validator::Justification(b"ok".to_vec()),
    }
    .into()
}

#[async_trait::async_trait]
impl EngineInterface for Eng {
    async fn genesis(&self, _ctx: &ctx::Ctx) -> ctx::Result<validator::Genesis> {
        Ok(self.0.genesis.clone())
    }
    async fn get_validator_schedule(
        &self,
        _ctx: &ctx::Ctx,
        _number: validator::BlockNumber,
    ) -> ctx::Result<(validator::Schedule, validator::BlockNumber)> {
        Err(anyhow::format_err!("static schedule").into())
    }
    async fn get_pending_validator_schedule(
        &self,
        _ctx: &ctx::Ctx,
        _number: validator::BlockNumber,
    ) -> ctx::Result<Option<(validator::Schedule, validator::BlockNumber)>> {
        Ok(None)
    }
    fn persisted(&self) -> sync::watch::Receiver<BlockStoreState> {
        self.0.persisted.subscribe()
    }
    async fn get_block(
        &self,
        _ctx: &ctx::Ctx,
        number: validator::BlockNumber,
    ) -> ctx::Result<validator::Block> {
        Ok(block(number.0))
    }
    async fn queue_next_block(&self, ctx: &ctx::Ctx, b: validator::Block) -> ctx::Result<()> {
        loop {
            let notified = self.0.notify.notified();
            {
                let mut p = self.0.permits.lock().unwrap();
                if *p > 0 {
                    *p -= 1;
                    break;
                }
            }
            ctx.wait(notified).await?;
        }
        self.0.persisted.send_modify(|s| {
            assert_eq!(s.next(), b.number(), "persisted out of order");
            s.last = Some(Last::PreGenesis(b.number()));
        });
        Ok(())
    }
    async fn verify_pregenesis_block(
        &self,
        _ctx: &ctx::Ctx,
        _block: &validator::PreGenesisBlock,
    ) -> ctx::Result<()> {
        Ok(())
    }
    async fn verify_payload(
        &self,
        _ctx: &ctx::Ctx,
        _number: validator::BlockNumber,
        _payload: &validator::Payload,
    ) -> ctx::Result<()> {
        Ok(())
    }
    async fn propose_payload(
        &self,
        _ctx: &ctx::Ctx,
        _number: validator::BlockNumber,
    ) -> ctx::Result<validator::Payload> {
        Ok(validator::Payload(vec![]))
    }
    async fn get_state(&self, _ctx: &ctx::Ctx) -> ctx::Result<validator::ReplicaState> {
        Ok(validator::ReplicaState::default())
    }
    async fn set_state(&self, _ctx: &ctx::Ctx, _state: &validator::ReplicaState) -> ctx::Result<()> {
        Ok(())
    }
    async fn push_tx(&self, _ctx: &ctx::Ctx, _tx: Transaction) -> ctx::Result<bool> {
        Ok(false)
    }
}

async fn drain(k: usize) {
    for _ in 0..k {
        tokio::task::yield_now().await;
    }
}

struct Shared {
    held: Vec<BlockCall>,
    storing: Vec<u64>,
}

async fn run_case(c: &Value, vals: &[validator::SecretKey], nodes: &[zksync_consensus_roles::node::SecretKey]) -> Value {
    let start = u64_of(&c["start"]);
    let limit = u64_of(&c["limit"]) as usize;
    let yields = c["yields"].as_u64().unwrap_or(120) as usize;
    let schedule = validator::Schedule::new(
        vals.iter().map(|k| validator::ValidatorInfo {
            key: k.public(),
            weight: 1,
            leader: true,
        }),
        validator::LeaderSelection {
            frequency: 1,
            mode: validator::LeaderSelectionMode::RoundRobin,
        },
    )
    .unwrap();
    let genesis = validator::GenesisRaw {
        chain_id: validator::ChainId(1337),
        fork_number: validator::ForkNumber(0),
        protocol_version: validator::ProtocolVersion::CURRENT,
        first_block: validator::BlockNumber(FIRST_BLOCK),
        validators_schedule: Some(schedule),
    }
    .with_hash();
    let eng = Eng(Arc::new(Inner {
        genesis,
        persisted: sync::watch::channel(BlockStoreState {
            first: validator::BlockNumber(0),
            last: start.checked_sub(1).map(|l| Last::PreGenesis(validator::BlockNumber(l))),
        })
        .0,
        permits: Mutex::new(0),
        notify: tokio::sync::Notify::new(),
    }));
    let clock = ctx::ManualClock::new();
    let root = ctx::test_root(&clock);
    let (mgr, mgr_runner) = EngineManager::new(&root, Box::new(eng.clone()), time::Duration::seconds(1))
        .await
        .expect("EngineManager::new");
    let addr = net::tcp::testonly::reserve_listener();
    let cfg = Config {
        build_version: None,
        server_addr: addr,
        public_addr: (*addr).into(),
        ping_timeout: None,
        validator_key: None,
        gossip: GossipConfig {
            key: nodes[0].clone(),
            dynamic_inbound_limit: 0,
            static_inbound: Default::default(),
            static_outbound: Default::default(),
        },
        max_block_size: usize::MAX,
        max_tx_size: usize::MAX,
        tcp_accept_rate: limiter::Rate::INF,
        rpc: RpcConfig::default(),
        max_block_queue_size: limit,
    };
    let (con_send, _con_recv) = sync::prunable_mpsc::unpruned_channel();
    let (_net_send, net_recv) = ctx::channel::unbounded();
    let (net, _runner) = Network::new(cfg, mgr.clone(), None, con_send, net_recv).expect("Network::new");
    let glue = Glue(net);
    let sh = Mutex::new(Shared {
        held: vec![],
        storing: vec![],
    });
    // a peer that announces every block
    let avail = sync::watch::channel(BlockStoreState {
        first: validator::BlockNumber(0),
        last: Some(Last::PreGenesis(validator::BlockNumber(FIRST_BLOCK - 1))),
    })
    .0;
    let steps = c["steps"].as_array().unwrap().clone();
    let out: Mutex<Vec<Value>> = Mutex::new(vec![]);
    let (glue, sh, mgr, eng, avail, out_ref) = (&glue, &sh, &mgr, &eng, &avail, &out);
    let res: ctx::OrCanceled<()> = scope::run!(&root, |ctx, s| async move {
        s.spawn_bg(async move {
            let _ = mgr_runner.run(ctx).await;
            Ok(())
        });
        s.spawn_bg(async move {
            glue.gossip_run_block_fetcher(ctx).await;
            Ok(())
        });
        drain(yields).await;
        let observe = || {
            let g = sh.lock().unwrap();
            json!({
                "blocks": glue.gossip_fetch_queue_blocks(),
                "held": g.held.iter().map(|c| c.0 .0).collect::<Vec<_>>(),
                "storing": g.storing.clone(),
                "qnext": mgr.queued().next().0,
                "pnext": mgr.persisted().next().0,
            })
        };
        out_ref.lock().unwrap().push(observe());
        for step in &steps {
            let mut stops = vec![];
            for op in step.as_array().unwrap() {
                match op[0].as_str().unwrap() {
                    "arrive" => {
                        let n = u64_of(&op[1]);
                        s.spawn_bg(async move {
                            let _ = mgr.queue_block(ctx, block(n)).await;
                            Ok(())
                        });
                    }
                    "persist" => {
                        *eng.0.permits.lock().unwrap() += u64_of(&op[1]);
                        eng.0.notify.notify_waiters();
                    }
                    "take" => {
                        let (tx, rx) = tokio::sync::oneshot::channel::<()>();
                        stops.push(tx);
                        s.spawn_bg(async move {
                            let _: ctx::OrCanceled<()> = scope::run!(ctx, |ctx, s| async move {
                                s.spawn_bg(async move {
                                    let state = &mut avail.subscribe();
                                    let call = glue.gossip_accept_block(ctx, state).await?;
                                    sh.lock().unwrap().held.push(call);
                                    Ok(())
                                });
                                let _ = ctx.wait(rx).await;
                                Ok(())
                            })
                            .await;
                            Ok(())
                        });
                    }
                    "store" | "drop" => {
                        let i = op[1].as_u64().unwrap() as usize;
                        let call = {
                            let mut g = sh.lock().unwrap();
                            if i < g.held.len() {
                                Some(g.held.remove(i))
                            } else {
                                None
                            }
                        };
                        let Some(call) = call else { continue };
                        if op[0] == "drop" {
                            drop(call);
                            continue;
                        }
                        let n = call.0 .0;
                        sh.lock().unwrap().storing.push(n);
                        s.spawn_bg(async move {
                            // runner.rs: queue_block(ctx, block).await?; send_resp.send(())
                            let r = mgr.queue_block(ctx, block(n)).await;
                            let mut g = sh.lock().unwrap();
                            if let Some(k) = g.storing.iter().position(|x| *x == n) {
                                g.storing.remove(k);
                            }
                            if r.is_ok() {
                                call.complete();
                            }
                            Ok(())
                        });
                    }
                    _ => panic!("bad op {op}"),
                }
            }
            drain(yields).await;
            if !stops.is_empty() {
                for t in stops {
                    let _ = t.send(());
                }
                drain(yields).await;
            }
            out_ref.lock().unwrap().push(observe());
        }
        Ok(())
    })
    .await;
    let _ = res;
    let steps_out = std::mem::take(&mut *out.lock().unwrap());
    json!({ "steps": steps_out })
}

fn main() {
    quiet_panics();
    let vals = keys::validator_pool(3);
    let nodes = keys::node_pool(1);
    for c in read_cases() {
        let rt = tokio::runtime::Builder::new_current_thread()
            .enable_all()
            .build()
            .unwrap();
        let r = catch(std::panic::AssertUnwindSafe(|| rt.block_on(run_case(&c, &vals, &nodes))));
        match r {
            Ok(v) => write_line(&v),
            Err(m) => write_line(&json!({ "panic": m })),
        }
    }
}
