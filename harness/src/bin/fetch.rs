//! C19: the real `gossip::fetch::Queue` driven by a script, with the glue of gossip/mod.rs
//! (requester = background `request()` inside a scope whose main task ends on a signal) and of
//! gossip/runner.rs (per peer: `reserve` a call slot, `accept_block(ctx, available)`, keep the
//! completion handle) on a current_thread runtime.
//!
//! input : {"peers": P, "reqs": R, "yields": K, "steps": [[op, ...], ...]}
//!   op = ["req", r, n] | ["cancel", r] | ["avail", p, first, last|null] | ["permit", p]
//!      | ["succeed", p, i] | ["fail", p, i] | ["disc", p]
//!   All ops of one step are applied back to back without running any task, then the runtime is
//!   drained to quiescence and the state is observed.
//! output: {"steps": [{"ev": [...], "blocks": [...], "peers": [[alive,in_accept,permits,[held..]],..],
//!                     "reqs": [status,..]}, ...]}
//!   ev = [0,p,n] accept_block of live peer p returned block n | [1,p,n] the same for a peer that
//!        was disconnected meanwhile (handle dropped at once) | [2,r,1] request r returned Ok
//!        | [2,r,0] request r returned Canceled           (in order of occurrence)
//!   reqs status: 0 not started, 1 running, 2 returned Ok, 3 returned Canceled
use std::sync::{Arc, Mutex};

use serde_json::{json, Value};
use vh::util::*;
use zksync_concurrency::{ctx, scope, sync};
use zksync_consensus_engine::{BlockStoreState, Last};
use zksync_consensus_network::verif::gossip::{BlockCall, FetchQueue};
use zksync_consensus_roles::validator::BlockNumber;

struct PeerSh {
    alive: bool,
    in_accept: bool,
    held: Vec<BlockCall>,
}

struct Shared {
    events: Vec<Value>,
    peers: Vec<PeerSh>,
    reqs: Vec<u8>,
}

fn state_of(first: u64, last: Option<u64>) -> BlockStoreState {
    BlockStoreState {
        first: BlockNumber(first),
        last: last.map(|l| Last::PreGenesis(BlockNumber(l))),
    }
}

async fn drain(k: usize) {
    for _ in 0..k {
        tokio::task::yield_now().await;
    }
}

async fn run_case(c: &Value) -> Value {
    let np = c["peers"].as_u64().unwrap() as usize;
    let nr = c["reqs"].as_u64().unwrap() as usize;
    let yields = c["yields"].as_u64().unwrap_or(120) as usize;
    let q = FetchQueue::default();
    let sh = Mutex::new(Shared {
        events: vec![],
        peers: (0..np)
            .map(|_| PeerSh {
                alive: true,
                in_accept: false,
                held: vec![],
            })
            .collect(),
        reqs: vec![0; nr],
    });
    let avail: Vec<sync::watch::Sender<BlockStoreState>> = (0..np)
        .map(|_| sync::watch::channel(state_of(0, None)).0)
        .collect();
    let sems: Vec<Arc<sync::Semaphore>> =
        (0..np).map(|_| Arc::new(sync::Semaphore::new(0))).collect();
    let mut disc_tx = vec![];
    let mut disc_rx = vec![];
    for _ in 0..np {
        let (t, r) = tokio::sync::oneshot::channel::<()>();
        disc_tx.push(Some(t));
        disc_rx.push(Some(r));
    }
    let mut cancel_tx = vec![];
    let mut cancel_rx = vec![];
    for _ in 0..nr {
        let (t, r) = tokio::sync::oneshot::channel::<()>();
        cancel_tx.push(Some(t));
        cancel_rx.push(Some(r));
    }
    let steps = c["steps"].as_array().unwrap().clone();
    let out: Mutex<Vec<Value>> = Mutex::new(vec![]);
    let clock = ctx::ManualClock::new();
    let root = ctx::test_root(&clock);
    let (q, sh, avail, sems, out_ref) = (&q, &sh, &avail, &sems, &out);
    let res: ctx::OrCanceled<()> = scope::run!(&root, |ctx, s| async move {
        // peers: the loop of runner.rs "Perform get_block calls to peer".
        for p in 0..np {
            let rx = disc_rx[p].take().unwrap();
            s.spawn_bg(async move {
                let _: ctx::OrCanceled<()> = scope::run!(ctx, |ctx, s| async move {
                    s.spawn_bg::<()>(async move {
                        let state = &mut avail[p].subscribe();
                        loop {
                            // stands for `get_block_client.reserve(ctx)`
                            sync::acquire(ctx, &sems[p]).await?.forget();
                            if !sh.lock().unwrap().peers[p].alive {
                                return Err(ctx::Canceled);
                            }
                            sh.lock().unwrap().peers[p].in_accept = true;
                            let r = q.accept_block(ctx, state).await;
                            let mut g = sh.lock().unwrap();
                            g.peers[p].in_accept = false;
                            let call = r?;
                            let n = call.0 .0;
                            if g.peers[p].alive {
                                g.events.push(json!([0, p, n]));
                                g.peers[p].held.push(call);
                            } else {
                                g.events.push(json!([1, p, n]));
                                drop(call);
                            }
                        }
                    });
                    // the connection lives until the script disconnects it
                    let _ = ctx.wait(rx).await;
                    Ok(())
                })
                .await;
                Ok(())
            });
        }
        drain(yields).await;
        for step in &steps {
            for op in step.as_array().unwrap() {
                let kind = op[0].as_str().unwrap();
                let a = op[1].as_u64().unwrap() as usize;
                match kind {
                    "req" => {
                        if sh.lock().unwrap().reqs[a] != 0 {
                            continue;
                        }
                        sh.lock().unwrap().reqs[a] = 1;
                        let n = BlockNumber(u64_of(&op[2]));
                        let rx = cancel_rx[a].take().unwrap();
                        // the shape of Network::run_block_fetcher in gossip/mod.rs
                        s.spawn_bg(async move {
                            let _: ctx::OrCanceled<()> = scope::run!(ctx, |ctx, s| async move {
                                s.spawn_bg(async move {
                                    let r = q.request(ctx, n).await;
                                    let mut g = sh.lock().unwrap();
                                    g.reqs[a] = if r.is_ok() { 2 } else { 3 };
                                    g.events.push(json!([2, a, if r.is_ok() { 1 } else { 0 }]));
                                    Ok(())
                                });
                                // "Cancel fetching as soon as block is queued for storage."
                                let _ = ctx.wait(rx).await;
                                Err(ctx::Canceled)
                            })
                            .await;
                            Ok(())
                        });
                    }
                    "cancel" => {
                        if sh.lock().unwrap().reqs[a] == 0 {
                            continue;
                        }
                        if let Some(t) = cancel_tx[a].take() {
                            let _ = t.send(());
                        }
                    }
                    "avail" => {
                        let first = u64_of(&op[2]);
                        let last = if op[3].is_null() { None } else { Some(u64_of(&op[3])) };
                        avail[a].send_replace(state_of(first, last));
                    }
                    "permit" => sems[a].add_permits(1),
                    "succeed" | "fail" => {
                        let i = op[2].as_u64().unwrap() as usize;
                        let call = {
                            let mut g = sh.lock().unwrap();
                            if i < g.peers[a].held.len() {
                                Some(g.peers[a].held.remove(i))
                            } else {
                                None
                            }
                        };
                        if let Some(call) = call {
                            if kind == "succeed" {
                                call.complete();
                            } else {
                                drop(call);
                            }
                        }
                    }
                    "disc" => {
                        let held = {
                            let mut g = sh.lock().unwrap();
                            g.peers[a].alive = false;
                            std::mem::take(&mut g.peers[a].held)
                        };
                        drop(held);
                        if let Some(t) = disc_tx[a].take() {
                            let _ = t.send(());
                        }
                    }
                    _ => panic!("bad op {op}"),
                }
            }
            drain(yields).await;
            let mut g = sh.lock().unwrap();
            let ev = std::mem::take(&mut g.events);
            let peers: Vec<Value> = g
                .peers
                .iter()
                .enumerate()
                .map(|(p, x)| {
                    json!([
                        x.alive as u8,
                        x.in_accept as u8,
                        sems[p].available_permits(),
                        x.held.iter().map(|c| c.0 .0).collect::<Vec<_>>()
                    ])
                })
                .collect();
            out_ref.lock().unwrap().push(json!({
                "ev": ev, "blocks": q.current_blocks(), "peers": peers, "reqs": g.reqs.clone(),
            }));
        }
        Ok(())
    })
    .await;
    let _ = res;
    let steps_out = std::mem::take(&mut *out.lock().unwrap());
    json!({ "steps": steps_out })
}

fn main() {
    quiet_panics();
    for c in read_cases() {
        let rt = tokio::runtime::Builder::new_current_thread()
            .enable_all()
            .build()
            .unwrap();
        let r = catch(std::panic::AssertUnwindSafe(|| rt.block_on(run_case(&c))));
        match r {
            Ok(v) => write_line(&v),
            Err(m) => write_line(&json!({ "panic": m })),
        }
    }
}
