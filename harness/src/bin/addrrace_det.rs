//! C18 (concurrent family, deterministic interleaving).  NEEDS the hook of
//! /verif/proposed_hooks/C18_lock.diff (`AddrBook::hold_lock`); until it is applied this binary does
//! not build and gen/c18.py skips the family (and says so in the evidence).
//!
//! The harness holds the sender lock of the real ValidatorAddrsWatch, starts the given operations as
//! futures and polls each exactly once in the given order - they queue on the lock (tokio's mutex is
//! FIFO) - then releases the lock and runs them to completion.  With atomic critical sections the
//! result is that of executing the operations sequentially in poll order.
//!
//! input:  {"pool": n, "committee": [rank..], "self": rank, "init": [entry..],
//!          "ops": [{"u": [entry..]} | {"a": [addr, ts]}, ..]}        entry as in addrbook.rs
//! output: {"queued": [true if the op was pending after its first poll..], "res": ["ok"|"err"..],
//!          "before": book, "final": book}     book = [[key rank, addr, ver, ts, verifies]..] sorted
use std::{collections::HashMap, future::Future, net, pin::Pin, sync::Arc, task::Poll};

use serde_json::{json, Value};
use vh::{keys, util::*};
use zksync_concurrency::time;
use zksync_consensus_network::verif::gossip::AddrBook;
use zksync_consensus_roles::validator;

type Signed = validator::Signed<validator::NetAddress>;

fn i128_of(v: &Value) -> i128 {
    match v {
        Value::Number(n) => n.as_i64().expect("i64") as i128,
        Value::String(s) => s.parse().expect("i128 string"),
        _ => panic!("i128_of: {v}"),
    }
}

fn addr_of(id: u64) -> net::SocketAddr {
    let ip = net::Ipv4Addr::from((id >> 16) as u32);
    net::SocketAddr::new(net::IpAddr::V4(ip), (id & 0xffff) as u16)
}

fn addr_id(a: &net::SocketAddr) -> u64 {
    match a.ip() {
        net::IpAddr::V4(ip) => ((u32::from(ip) as u64) << 16) | a.port() as u64,
        net::IpAddr::V6(_) => u64::MAX,
    }
}

fn utc_of(t: i128) -> time::Utc {
    time::UNIX_EPOCH + time::Duration::new((t / 1_000_000_000) as i64, (t % 1_000_000_000) as i32)
}

fn msg_of(addr: u64, ver: u64, ts: i128) -> validator::NetAddress {
    validator::NetAddress {
        addr: addr_of(addr),
        version: ver,
        timestamp: utc_of(ts),
    }
}

fn book_json(pool: &[validator::SecretKey], book: &AddrBook) -> Value {
    let mut rows: Vec<(i64, u64, u64, i128, bool)> = book
        .current()
        .iter()
        .map(|(k, v)| {
            (
                keys::rank(pool, &v.key),
                addr_id(&v.msg.addr),
                v.msg.version,
                (v.msg.timestamp - time::UNIX_EPOCH).whole_nanoseconds(),
                v.verify().is_ok() && k == &v.key,
            )
        })
        .collect();
    rows.sort();
    Value::Array(
        rows.iter()
            .map(|(k, a, v, t, ok)| json!([k, a.to_string(), v.to_string(), t.to_string(), ok]))
            .collect(),
    )
}

enum Op {
    Update(Vec<Arc<Signed>>),
    Announce(net::SocketAddr, time::Utc),
}

fn main() {
    quiet_panics();
    let pool = keys::validator_pool(8);
    let mut sigs: HashMap<(usize, u64, u64, i128), validator::Signature> = HashMap::new();
    let rt = tokio::runtime::Builder::new_current_thread().build().unwrap();
    for c in read_cases() {
        let mut entry = |e: &Value| -> Arc<Signed> {
            let k = e[0].as_u64().unwrap() as usize;
            let sk = e[4].as_u64().unwrap() as usize;
            let key = (sk, u64_of(&e[5]), u64_of(&e[6]), i128_of(&e[7]));
            let sig = sigs
                .entry(key)
                .or_insert_with(|| pool[sk].sign_msg(msg_of(key.1, key.2, key.3)).sig)
                .clone();
            Arc::new(Signed {
                msg: msg_of(u64_of(&e[1]), u64_of(&e[2]), i128_of(&e[3])),
                key: pool[k].public(),
                sig,
            })
        };
        let sched = validator::Schedule::new(
            c["committee"].as_array().unwrap().iter().map(|r| validator::ValidatorInfo {
                key: pool[r.as_u64().unwrap() as usize].public(),
                weight: 1,
                leader: true,
            }),
            validator::LeaderSelection {
                frequency: 1,
                mode: validator::LeaderSelectionMode::RoundRobin,
            },
        )
        .expect("schedule");
        let me = pool[c["self"].as_u64().unwrap() as usize].clone();
        let init: Vec<Arc<Signed>> = c["init"].as_array().unwrap().iter().map(&mut entry).collect();
        let ops: Vec<Op> = c["ops"]
            .as_array()
            .unwrap()
            .iter()
            .map(|o| match o.get("u") {
                Some(u) => Op::Update(u.as_array().unwrap().iter().map(&mut entry).collect()),
                None => Op::Announce(addr_of(u64_of(&o["a"][0])), utc_of(i128_of(&o["a"][1]))),
            })
            .collect();
        let book = AddrBook::default();
        let out = rt.block_on(async {
            book.update(&sched, &init).await.expect("init batch");
            let before = book_json(&pool, &book);
            let lock = book.hold_lock().await;
            let mut futs: Vec<Pin<Box<dyn Future<Output = bool> + '_>>> = vec![];
            for op in &ops {
                let (book, sched, me) = (&book, &sched, &me);
                futs.push(match op {
                    Op::Update(d) => Box::pin(async move { book.update(sched, d).await.is_ok() }),
                    Op::Announce(a, t) => Box::pin(async move {
                        book.announce(me, *a, *t).await;
                        true
                    }),
                });
            }
            let mut queued = vec![];
            let mut early: Vec<Option<bool>> = vec![];
            for f in futs.iter_mut() {
                let p = std::future::poll_fn(|cx| Poll::Ready(f.as_mut().poll(cx))).await;
                queued.push(p.is_pending());
                early.push(match p {
                    Poll::Ready(r) => Some(r),
                    Poll::Pending => None,
                });
            }
            drop(lock);
            let mut res = vec![];
            for (f, e) in futs.into_iter().zip(early) {
                let r = match e {
                    Some(r) => r,
                    None => f.await,
                };
                res.push(if r { "ok" } else { "err" });
            }
            json!({"queued": queued, "res": res, "before": before, "final": book_json(&pool, &book)})
        });
        write_line(&out);
    }
}
