//! C05 (black-box tie of the real run loop): starts the real `zksync_consensus_bft::Config::run`
//! (StateMachine::start + StateMachine::run + the proposer task) as a task under a manual clock
//! and feeds it a scenario through the real inbound channel (`create_input_channel`), one
//! operation at a time:
//!   msg     inbound_sender.send(ConsensusReq{msg, ack}); drain; wait for the ack (a handler waiting
//!           for a deadline is released by advancing the clock by the view timeout + 1ms)
//!   burst   several messages pushed before the loop runs (in-queue selection), then drained
//!   timer   the clock advances by the view timeout + 1ms
//!   sync    a finalized block reaches the block store from elsewhere
//!   restart the context of the running instance is cancelled, `run` returns, a fresh `run` starts
//! Per operation: the ordered effects of the replica (persist / send / queue block, one global
//! order, as bin `replica`), the LeaderProposal messages emitted by the proposer task, the durable
//! state, whether the component is still running, and which of the fed messages were acknowledged
//! (a message filtered or pruned by the queue is dropped without acknowledgement).  Model: Model/RunLoop.v.
use std::{
    collections::HashMap,
    sync::{
        atomic::{AtomicUsize, Ordering},
        Arc, Mutex,
    },
};

use serde_json::{json, Value};
use vh::{msgs::*, util::*};
use zksync_concurrency::{ctx, sync, time};
use zksync_consensus_engine::{BlockStoreState, EngineInterface, EngineManager, Last, Transaction};
use zksync_consensus_roles::validator::{self, v2};

type Log = Arc<Mutex<Vec<Value>>>;

struct Shared {
    w: World,
    payload_ids: HashMap<validator::PayloadHash, i64>,
}

impl Shared {
    fn pid(&self, h: &validator::PayloadHash) -> i64 {
        *self.payload_ids.get(h).unwrap_or(&-1)
    }
    fn view(&self, v: &v2::View) -> Value {
        json!([self.w.genesis_id(&v.genesis), v.epoch.0.to_string(), v.number.0.to_string()])
    }
    fn commit(&self, c: &v2::ReplicaCommit) -> Value {
        json!([self.view(&c.view), [c.proposal.number.0.to_string(), self.pid(&c.proposal.payload)]])
    }
    fn cqc(&self, q: &v2::CommitQC) -> Value {
        self.commit(&q.message)
    }
    fn opt<T>(&self, x: &Option<T>, f: impl Fn(&T) -> Value) -> Value {
        match x {
            Some(x) => json!([f(x)]),
            None => json!([]),
        }
    }
    fn timeout(&self, t: &v2::ReplicaTimeout) -> Value {
        json!([self.view(&t.view), self.opt(&t.high_vote, |c| self.commit(c)), self.opt(&t.high_qc, |q| self.cqc(q))])
    }
    fn tqc(&self, t: &v2::TimeoutQC) -> Value {
        let mut entries: Vec<(Vec<bool>, Value)> = t
            .map
            .iter()
            .map(|(m, s)| (s.0.iter().collect::<Vec<bool>>(), self.timeout(m)))
            .collect();
        // sort by the bitmap read as a little-endian number
        entries.sort_by(|a, b| {
            let ka: Vec<bool> = a.0.iter().rev().cloned().collect();
            let kb: Vec<bool> = b.0.iter().rev().cloned().collect();
            (ka.len(), ka).cmp(&(kb.len(), kb))
        });
        let es: Vec<Value> = entries
            .into_iter()
            .map(|(b, t)| json!([b.iter().map(|x| if *x { 1 } else { 0 }).collect::<Vec<i32>>(), t]))
            .collect();
        json!([self.view(&t.view), es])
    }
    fn just(&self, j: &v2::ProposalJustification) -> Value {
        match j {
            v2::ProposalJustification::Commit(q) => json!([0, self.cqc(q)]),
            v2::ProposalJustification::Timeout(t) => json!([1, self.tqc(t)]),
        }
    }
    fn cmsg(&self, m: &validator::ConsensusMsg) -> Value {
        #[allow(irrefutable_let_patterns)]
        let validator::ConsensusMsg::V2(m) = m
        else {
            return json!([99]);
        };
        match m {
            v2::ChonkyMsg::LeaderProposal(p) => json!([0,
                self.opt(&p.proposal_payload, |p| json!(payload_id(p).unwrap_or(-1))), self.just(&p.justification)]),
            v2::ChonkyMsg::ReplicaCommit(c) => json!([1, self.commit(c)]),
            v2::ChonkyMsg::ReplicaTimeout(t) => json!([2, self.timeout(t)]),
            v2::ChonkyMsg::ReplicaNewView(n) => json!([3, self.just(&n.justification)]),
        }
    }
    fn phase(&self, p: v2::Phase) -> i64 {
        match p {
            v2::Phase::Prepare => 0,
            v2::Phase::Commit => 1,
            v2::Phase::Timeout => 2,
        }
    }
    fn durable(&self, s: &validator::ReplicaState) -> Value {
        let validator::ReplicaState::V2(s) = s;
        let mut props: Vec<(u64, i64)> = s
            .proposals
            .iter()
            .map(|p| (p.number.0, payload_id(&p.payload).unwrap_or(-1)))
            .collect();
        props.sort();
        json!([
            s.epoch.0.to_string(), s.view_number.0.to_string(), self.phase(s.phase),
            self.opt(&s.high_vote, |c| self.commit(c)), self.opt(&s.high_commit_qc, |q| self.cqc(q)),
            self.opt(&s.high_timeout_qc, |t| self.tqc(t)),
            props.iter().map(|(n, p)| json!([n.to_string(), p])).collect::<Vec<_>>()
        ])
    }
}

/// The durable state as the storage layer keeps it (encode, then decode).
fn through_codec(state: &validator::ReplicaState) -> ctx::Result<validator::ReplicaState> {
    zksync_protobuf::decode::<validator::ReplicaState>(&zksync_protobuf::encode(state))
        .map_err(|e| anyhow::format_err!("durable replica state does not decode: {e:#}").into())
}

struct EngineInner {
    sh: Arc<Shared>,
    genesis: validator::Genesis,
    persisted: sync::watch::Sender<BlockStoreState>,
    blocks: Mutex<Vec<validator::Block>>,
    state: Mutex<validator::ReplicaState>,
    /// (persists to let through, applied?) for the current operation
    crash: Mutex<Option<(usize, bool)>>,
    crashed: Mutex<bool>,
    log: Log,
    out: Mutex<ctx::channel::UnboundedReceiver<zksync_consensus_bft::ToNetworkMessage>>,
    sent: Mutex<Vec<validator::Signed<validator::ConsensusMsg>>>,
    /// LeaderProposal messages emitted by the proposer task (observations)
    proposed: Mutex<Vec<Value>>,
}

#[derive(Clone)]
struct Engine(Arc<EngineInner>);

impl std::fmt::Debug for Engine {
    fn fmt(&self, f: &mut std::fmt::Formatter<'_>) -> std::fmt::Result {
        f.write_str("HarnessEngine")
    }
}

impl Engine {
    /// Moves the messages sent so far into the ordered event log.
    fn drain_out(&self) {
        let mut out = self.0.out.lock().unwrap();
        while let Some(m) = out.try_recv() {
            // LeaderProposal messages come from the proposer task of `run`, everything else from
            // the replica state machine
            #[allow(irrefutable_let_patterns)]
            let is_proposal = if let validator::ConsensusMsg::V2(v2::ChonkyMsg::LeaderProposal(_)) = &m.message.msg { true } else { false };
            if is_proposal {
                self.0.proposed.lock().unwrap().push(self.0.sh.cmsg(&m.message.msg));
            } else {
                self.0.log.lock().unwrap().push(json!([1, self.0.sh.cmsg(&m.message.msg)]));
            }
            self.0.sent.lock().unwrap().push(m.message);
        }
    }
}

#[async_trait::async_trait]
impl EngineInterface for Engine {
    async fn genesis(&self, _ctx: &ctx::Ctx) -> ctx::Result<validator::Genesis> {
        Ok(self.0.genesis.clone())
    }
    async fn get_validator_schedule(
        &self,
        _ctx: &ctx::Ctx,
        _n: validator::BlockNumber,
    ) -> ctx::Result<(validator::Schedule, validator::BlockNumber)> {
        Err(anyhow::format_err!("static schedule").into())
    }
    async fn get_pending_validator_schedule(
        &self,
        _ctx: &ctx::Ctx,
        _n: validator::BlockNumber,
    ) -> ctx::Result<Option<(validator::Schedule, validator::BlockNumber)>> {
        Ok(None)
    }
    fn persisted(&self) -> sync::watch::Receiver<BlockStoreState> {
        self.0.persisted.subscribe()
    }
    async fn get_block(&self, _ctx: &ctx::Ctx, n: validator::BlockNumber) -> ctx::Result<validator::Block> {
        self.0
            .blocks
            .lock()
            .unwrap()
            .iter()
            .find(|b| b.number() == n)
            .cloned()
            .ok_or_else(|| anyhow::format_err!("block not found").into())
    }
    async fn queue_next_block(&self, _ctx: &ctx::Ctx, block: validator::Block) -> ctx::Result<()> {
        self.drain_out();
        if let validator::Block::FinalV2(b) = &block {
            self.0.log.lock().unwrap().push(json!([2, b.number().0.to_string(), self.0.sh.pid(&b.header().payload)]));
        }
        self.0.blocks.lock().unwrap().push(block.clone());
        self.0.persisted.send_modify(|p| p.last = Some(Last::from(&block)));
        Ok(())
    }
    async fn verify_pregenesis_block(&self, _ctx: &ctx::Ctx, _b: &validator::PreGenesisBlock) -> ctx::Result<()> {
        Ok(())
    }
    async fn verify_payload(&self, _ctx: &ctx::Ctx, _n: validator::BlockNumber, p: &validator::Payload) -> ctx::Result<()> {
        match payload_id(p) {
            Some(id) if id < 1000 => Ok(()),
            _ => Err(anyhow::format_err!("invalid payload").into()),
        }
    }
    async fn propose_payload(&self, _ctx: &ctx::Ctx, n: validator::BlockNumber) -> ctx::Result<validator::Payload> {
        Ok(payload(100 + (n.0 % 100) as i64))
    }
    async fn get_state(&self, _ctx: &ctx::Ctx) -> ctx::Result<validator::ReplicaState> {
        Ok(self.0.state.lock().unwrap().clone())
    }
    async fn set_state(&self, _ctx: &ctx::Ctx, state: &validator::ReplicaState) -> ctx::Result<()> {
        self.drain_out();
        let mut crash = self.0.crash.lock().unwrap();
        if let Some((k, applied)) = *crash {
            if k == 0 {
                if applied {
                    *self.0.state.lock().unwrap() = through_codec(state)?;
                    self.0.log.lock().unwrap().push(json!([0, self.0.sh.durable(state)]));
                }
                *crash = None;
                *self.0.crashed.lock().unwrap() = true;
                return Err(anyhow::format_err!("crash injected at persist").into());
            }
            *crash = Some((k - 1, applied));
        }
        *self.0.state.lock().unwrap() = through_codec(state)?;
        self.0.log.lock().unwrap().push(json!([0, self.0.sh.durable(state)]));
        Ok(())
    }
    async fn push_tx(&self, _ctx: &ctx::Ctx, _tx: Transaction) -> ctx::Result<bool> {
        Ok(true)
    }
}
const VIEW_TIMEOUT_MS: i64 = 1000;
const DRAIN: usize = 300;

async fn drain(n: usize) {
    for _ in 0..n {
        tokio::task::yield_now().await;
    }
}

/// One running instance of the bft component.
struct Inst {
    inbound: sync::prunable_mpsc::Sender<zksync_consensus_bft::FromNetworkMessage>,
    stop: Option<tokio::sync::oneshot::Sender<()>>,
    task: tokio::task::JoinHandle<()>,
    /// Some(result) once `Config::run` has returned
    returned: Arc<Mutex<Option<String>>>,
}

struct Run {
    sh: Arc<Shared>,
    engine: Engine,
    manager: Arc<EngineManager>,
    out_send: ctx::channel::UnboundedSender<zksync_consensus_bft::ToNetworkMessage>,
    clock: ctx::ManualClock,
    me: validator::SecretKey,
    max_payload: usize,
    inst: Option<Inst>,
    dead: bool,
    sched: validator::Schedule,
    sent_checks: Vec<Value>,
    incarnation: usize,
}

#[derive(PartialEq)]
enum Ack {
    Pending,
    Done,
    Dropped,
}

impl Run {
    fn start(&mut self) {
        let cfg = zksync_consensus_bft::Config::new(
            self.me.clone(),
            self.max_payload,
            time::Duration::milliseconds(VIEW_TIMEOUT_MS),
            self.manager.clone(),
            validator::EpochNumber(0),
        )
        .expect("config");
        let (in_send, in_recv) = zksync_consensus_bft::create_input_channel();
        let (stop_send, stop_recv) = tokio::sync::oneshot::channel::<()>();
        let nctx = ctx::test_root(&self.clock);
        let out = self.out_send.clone();
        let returned: Arc<Mutex<Option<String>>> = Arc::default();
        let ret2 = returned.clone();
        let task = tokio::spawn(async move {
            let _: Result<(), ctx::Error> = zksync_concurrency::scope::run!(&nctx, |ctx, s| async {
                s.spawn_bg(async {
                    let r = cfg.run(ctx, out, in_recv).await;
                    *ret2.lock().unwrap() = Some(match r {
                        Ok(()) => "ok".to_string(),
                        Err(e) => format!("err: {e:#}"),
                    });
                    Ok(())
                });
                let _ = ctx.wait(stop_recv).await;
                Ok(())
            })
            .await;
        });
        self.incarnation += 1;
        self.inst = Some(Inst { inbound: in_send, stop: Some(stop_send), task, returned });
    }

    async fn stop(&mut self) {
        if let Some(mut i) = self.inst.take() {
            if let Some(s) = i.stop.take() {
                let _ = s.send(());
            }
            for _ in 0..5000 {
                if i.task.is_finished() {
                    break;
                }
                tokio::task::yield_now().await;
            }
        }
    }

    /// true when `run` has returned or its task is gone (error, panic) without being asked to
    fn stopped(&self) -> bool {
        match &self.inst {
            Some(i) => i.returned.lock().unwrap().is_some() || i.task.is_finished(),
            None => true,
        }
    }

    fn signed(&self, op: &Value) -> validator::Signed<validator::ConsensusMsg> {
        let w = &self.sh.w;
        let key = op["key"].as_u64().unwrap() as usize;
        let m = &op["m"];
        let msg = if let Some(p) = m.get("proposal") {
            v2::ChonkyMsg::LeaderProposal(v2::LeaderProposal {
                proposal_payload: if p["payload"].is_null() { None } else { Some(payload(p["payload"].as_i64().unwrap())) },
                justification: w.justification(&p["j"]).0,
            })
        } else if let Some(c) = m.get("commit") {
            v2::ChonkyMsg::ReplicaCommit(w.commit(c))
        } else if let Some(t) = m.get("timeout") {
            v2::ChonkyMsg::ReplicaTimeout(w.timeout(t))
        } else {
            v2::ChonkyMsg::ReplicaNewView(v2::ReplicaNewView {
                justification: w.justification(&m["new_view"]["j"]).0,
            })
        };
        let signer = if op["sig_ok"].as_bool().unwrap_or(true) { key } else { (key + 1) % w.pool.len() };
        let mut s = w.pool[signer].sign_msg(validator::ConsensusMsg::V2(msg));
        s.key = w.pool[key].public();
        s
    }

    /// Pushes the messages into the inbound queue (no task runs in between), then lets the
    /// component run until every message is acknowledged or dropped.  Returns false when a
    /// handler is blocked for good.
    async fn feed(&mut self, ctx: &ctx::Ctx, msgs: &[Value]) -> (bool, Vec<i32>) {
        let mut acks = vec![];
        for op in msgs {
            let msg = self.signed(op);
            let (ack, ack_recv) = zksync_concurrency::oneshot::channel();
            self.inst.as_ref().unwrap().inbound.send(zksync_consensus_bft::FromNetworkMessage { msg, ack });
            acks.push(Box::pin(ack_recv.recv_or_disconnected(ctx)));
        }
        let mut state: Vec<Ack> = acks.iter().map(|_| Ack::Pending).collect();
        for round in 0..2 {
            for _ in 0..600 {
                for (k, a) in acks.iter_mut().enumerate() {
                    if state[k] != Ack::Pending {
                        continue;
                    }
                    if let std::task::Poll::Ready(r) = futures_poll(a.as_mut()) {
                        state[k] = match r {
                            Ok(Ok(())) => Ack::Done,
                            _ => Ack::Dropped,
                        };
                    }
                }
                if state.iter().all(|s| *s != Ack::Pending) || self.stopped() {
                    let alive = !self.stopped() || state.iter().all(|s| *s != Ack::Pending);
                    return (alive, state.iter().map(|s| if *s == Ack::Done { 1 } else { 0 }).collect());
                }
                tokio::task::yield_now().await;
            }
            if round == 0 {
                // a handler waits for a deadline (proposal whose previous block is missing): time passes
                self.clock.advance(time::Duration::milliseconds(VIEW_TIMEOUT_MS + 1));
            }
        }
        (false, state.iter().map(|s| if *s == Ack::Done { 1 } else { 0 }).collect())
    }

    fn check_sent(&mut self) {
        let sent = std::mem::take(&mut *self.engine.0.sent.lock().unwrap());
        let g = self.engine.0.genesis.hash();
        for m in sent {
            let sig_ok = m.verify().is_ok();
            #[allow(irrefutable_let_patterns)]
            let validator::ConsensusMsg::V2(inner) = &m.msg
            else {
                continue;
            };
            let e = validator::EpochNumber(0);
            let (kind, view, ok) = match inner {
                v2::ChonkyMsg::LeaderProposal(p) => (0, p.view().number.0, p.verify(g, e, &self.sched).is_ok()),
                v2::ChonkyMsg::ReplicaCommit(c) => (1, c.view.number.0, c.verify(g, e).is_ok()),
                v2::ChonkyMsg::ReplicaTimeout(t) => (2, t.view.number.0, t.verify(g, e, &self.sched).is_ok()),
                v2::ChonkyMsg::ReplicaNewView(n) => (3, n.view().number.0, n.verify(g, e, &self.sched).is_ok()),
            };
            self.sent_checks.push(json!({"kind": kind, "view": view.to_string(), "sig_ok": sig_ok, "verifies": ok,
                                         "by_me": m.key == self.me.public(), "incarnation": self.incarnation}));
        }
    }

    /// the observation of one operation
    fn observe(&mut self, acks: Vec<i32>) -> Value {
        self.engine.drain_out();
        let effects = std::mem::take(&mut *self.engine.0.log.lock().unwrap());
        let proposed = std::mem::take(&mut *self.engine.0.proposed.lock().unwrap());
        self.check_sent();
        let durable = self.sh.durable(&self.engine.0.state.lock().unwrap());
        json!([effects, proposed, durable, if self.dead { 1 } else { 0 }, acks])
    }
}

/// polls a pinned future once with a no-op waker
fn futures_poll<F: std::future::Future>(f: std::pin::Pin<&mut F>) -> std::task::Poll<F::Output> {
    use std::task::{Context, RawWaker, RawWakerVTable, Waker};
    fn raw() -> RawWaker {
        fn no(_: *const ()) {}
        fn cl(_: *const ()) -> RawWaker {
            raw()
        }
        static VT: RawWakerVTable = RawWakerVTable::new(cl, no, no, no);
        RawWaker::new(std::ptr::null(), &VT)
    }
    let w = unsafe { Waker::from_raw(raw()) };
    f.poll(&mut Context::from_waker(&w))
}

async fn run_case(c: &Value, progress: Arc<AtomicUsize>) -> Value {
    let clock = ctx::ManualClock::new();
    let ctx = &ctx::test_root(&clock);
    let mut w = World::new(16);
    let sched = w.schedule(&c["committee"]);
    let first_block = validator::BlockNumber(u64_of(&c["first_block"]));
    let genesis = validator::GenesisRaw {
        chain_id: validator::ChainId(1337),
        fork_number: validator::ForkNumber(0),
        protocol_version: validator::ProtocolVersion(2),
        first_block,
        validators_schedule: Some(sched.clone()),
    }
    .with_hash();
    w.real_genesis = Some(genesis.hash());
    let mut payload_ids = HashMap::new();
    for id in 0..1200 {
        payload_ids.insert(payload_hash(id), id);
    }
    let sh = Arc::new(Shared { w, payload_ids });
    let (out_send, out_recv) = ctx::channel::unbounded();
    let store_first = validator::BlockNumber(u64_of(&c["store_first"]));
    let engine = Engine(Arc::new(EngineInner {
        sh: sh.clone(),
        genesis,
        persisted: sync::watch::channel(BlockStoreState { first: store_first, last: None }).0,
        blocks: Mutex::default(),
        state: Mutex::new(validator::ReplicaState::default()),
        crash: Mutex::new(None),
        crashed: Mutex::new(false),
        log: Arc::default(),
        out: Mutex::new(out_recv),
        sent: Mutex::default(),
        proposed: Mutex::default(),
    }));
    let (manager, runner) = EngineManager::new(ctx, Box::new(engine.clone()), time::Duration::seconds(100))
        .await
        .expect("engine manager");
    let bg = ctx.with_deadline(time::Deadline::Infinite);
    let runner_task = tokio::spawn(async move { runner.run(&bg).await });
    let me = sh.w.pool[c["me"].as_u64().unwrap() as usize].clone();
    let mut run = Run {
        sh: sh.clone(), engine, manager: manager.clone(), out_send, clock: clock.clone(), me,
        max_payload: c["max_payload"].as_u64().unwrap_or(100) as usize, inst: None, dead: false,
        sched, sent_checks: vec![], incarnation: 0,
    };
    run.start();
    drain(DRAIN).await;
    if run.stopped() {
        run.dead = true;
    }
    let mut obs = vec![run.observe(vec![])];
    for op in c["ops"].as_array().unwrap() {
        progress.fetch_add(1, Ordering::SeqCst);
        if run.dead {
            obs.push(json!([9]));
            continue;
        }
        let mut acks = vec![];
        match op["t"].as_str().unwrap() {
            "restart" => {
                run.stop().await;
                run.start();
                drain(DRAIN).await;
            }
            "timer" => {
                clock.advance(time::Duration::milliseconds(VIEW_TIMEOUT_MS + 1));
                drain(DRAIN).await;
            }
            "sync" => {
                let b = v2::FinalBlock {
                    payload: payload(op["payload"].as_i64().unwrap()),
                    justification: run.sh.w.cqc(&op["qc"]),
                };
                let mgr = run.manager.clone();
                // a block beyond the queue just stays pending (and is dropped)
                let fut = mgr.queue_block(ctx, b.into());
                tokio::pin!(fut);
                for _ in 0..400 {
                    tokio::select! { biased; _ = &mut fut => break, _ = tokio::task::yield_now() => {} }
                }
                drain(DRAIN).await;
            }
            "burst" => {
                let msgs: Vec<Value> = op["msgs"].as_array().unwrap().clone();
                let (alive, a) = run.feed(ctx, &msgs).await;
                acks = a;
                if !alive {
                    run.dead = true;
                }
                drain(DRAIN).await;
            }
            _ => {
                let (alive, a) = run.feed(ctx, std::slice::from_ref(op)).await;
                acks = a;
                if !alive {
                    run.dead = true;
                }
                drain(DRAIN).await;
            }
        }
        if run.stopped() {
            run.dead = true;
        }
        obs.push(run.observe(acks));
    }
    let returned = run.inst.as_ref().and_then(|i| i.returned.lock().unwrap().clone());
    drop(runner_task);
    json!({"obs": obs, "sent": run.sent_checks, "returned": returned})
}

fn main() {
    quiet_panics();
    let watchdog_s: u64 = std::env::var("RUNLOOP_WATCHDOG_S").ok().and_then(|s| s.parse().ok()).unwrap_or(60);
    for c in read_cases() {
        // each case on its own thread + runtime, so that a hang is reported and skipped
        let (tx, rx) = std::sync::mpsc::channel();
        let progress = Arc::new(AtomicUsize::new(0));
        let p2 = progress.clone();
        std::thread::spawn(move || {
            let rt = tokio::runtime::Builder::new_current_thread().enable_all().build().unwrap();
            let v = rt.block_on(run_case(&c, p2));
            let _ = tx.send(v);
            // skip destructors of the parked background tasks
            std::mem::forget(rt);
        });
        match rx.recv_timeout(std::time::Duration::from_secs(watchdog_s)) {
            Ok(v) => write_line(&v),
            Err(_) => write_line(&json!({"hang": true, "ops_done": progress.load(Ordering::SeqCst)})),
        }
    }
    std::process::exit(0);
}
