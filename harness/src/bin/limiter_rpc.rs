//! C15 (RPC half): the real `rpc::Service` / `Server::serve` / `Client::call` through the hook
//! `zksync_consensus_network::verif::rpc`, under `ctx::ManualClock`.
//!
//! input: {"mode":"pair"|"flood"|"withhold"|"idle", "n":1|2|5 (INFLIGHT), "rs":["burst","refresh_ns"] server rate,
//!         "rc":[..] client rate (pair), "tasks":k client tasks (pair), "hold":"ns" handler hold time,
//!         "rounds":r (raw peer), "warm":["ns"...] (withhold: advances before the requests are sent),
//!         "advs":["ns"...]}
//!  pair    : real client Service with `tasks` tasks calling back to back <-> real server Service.
//!  flood   : the peer is the harness writing bytes: mux handshake, then `rounds` x (OPEN, DATA(request),
//!            CLOSE) on every stream id, never waiting for the server.
//!  withhold: the raw peer first only OPENs every stream, lets the clock run (`warm`), and only then sends
//!            a request on every stream at once, followed by the flood.
//!  idle    : the raw peer sends only the mux handshake, idles for `warm` (the server's streams sit in the OPEN
//!            handshake holding their permits), then answers every OPEN and floods requests at once.
//! The clock only moves by the scripted advances; before each one the runtime is drained (bounded).
//! output: {"events":[[+1|-1,"<ns>"]...] (handler entered / left, from HandlerLog), "done":["<ns>"...]
//!          (client call completions), "status":[..]}
use std::{
    pin::Pin,
    sync::{
        atomic::{AtomicU64, Ordering},
        Arc, Mutex,
    },
    task::{Context, Poll},
};

use serde_json::{json, Value};
use tokio::io::{AsyncRead, AsyncWrite, AsyncWriteExt, DuplexStream, ReadBuf};
use vh::util::*;
use zksync_concurrency::{ctx, limiter, scope, time};
use zksync_consensus_network::verif::{
    mux::{encode_handshake, header_new},
    rpc::{run_client, run_server, HandlerLog},
};

#[path = "../limiter_util.rs"]
mod u;

struct Tee {
    inner: DuplexStream,
    activity: Arc<AtomicU64>,
}

impl AsyncRead for Tee {
    fn poll_read(
        mut self: Pin<&mut Self>,
        cx: &mut Context<'_>,
        buf: &mut ReadBuf<'_>,
    ) -> Poll<std::io::Result<()>> {
        let before = buf.filled().len();
        let r = Pin::new(&mut self.inner).poll_read(cx, buf);
        if buf.filled().len() > before {
            self.activity.fetch_add(1, Ordering::SeqCst);
        }
        r
    }
}

impl AsyncWrite for Tee {
    fn poll_write(
        mut self: Pin<&mut Self>,
        cx: &mut Context<'_>,
        buf: &[u8],
    ) -> Poll<std::io::Result<usize>> {
        let r = Pin::new(&mut self.inner).poll_write(cx, buf);
        if let Poll::Ready(Ok(_)) = &r {
            self.activity.fetch_add(1, Ordering::SeqCst);
        }
        r
    }
    fn poll_flush(mut self: Pin<&mut Self>, cx: &mut Context<'_>) -> Poll<std::io::Result<()>> {
        Pin::new(&mut self.inner).poll_flush(cx)
    }
    fn poll_shutdown(mut self: Pin<&mut Self>, cx: &mut Context<'_>) -> Poll<std::io::Result<()>> {
        Pin::new(&mut self.inner).poll_shutdown(cx)
    }
}

const MAX_SETTLE_YIELDS: usize = 200_000;

/// Yields until 64 consecutive rounds in which neither the transports nor the handler log moved
/// (single threaded runtime, in-memory pipes, manual clock: independent of wall-clock time).
async fn settle(activity: &AtomicU64, log: &HandlerLog) -> bool {
    let mut idle = 0;
    let mut n = 0usize;
    let mut last = (activity.load(Ordering::SeqCst), log.lock().unwrap().len());
    while idle < 64 {
        n += 1;
        if n > MAX_SETTLE_YIELDS {
            return false;
        }
        tokio::task::yield_now().await;
        let now = (activity.load(Ordering::SeqCst), log.lock().unwrap().len());
        if now != last {
            last = now;
            idle = 0;
        } else {
            idle += 1;
        }
    }
    true
}

fn i128_of(v: &Value) -> i128 {
    match v {
        Value::Number(n) => n.as_i64().expect("int") as i128,
        Value::String(s) => s.parse().expect("int string"),
        _ => panic!("i128_of: {v}"),
    }
}

fn dur(ns: i128) -> time::Duration {
    time::Duration::new((ns / 1_000_000_000) as i64, (ns % 1_000_000_000) as i32)
}

fn rate_of(v: &Value) -> limiter::Rate {
    limiter::Rate {
        burst: u64_of(&v[0]) as usize,
        refresh: dur(i128_of(&v[1])),
    }
}

fn durs(v: &Value) -> Vec<time::Duration> {
    v.as_array()
        .map(|a| a.iter().map(|x| dur(i128_of(x))).collect())
        .unwrap_or_default()
}

const BIG: usize = 1 << 26;
const PING_CAP: u64 = 2;

/// OPEN / DATA(one ping request) / CLOSE frames addressed to the server's stream `id`
/// (the server's streams are of kind CONNECT, so the peer writes kind ACCEPT = 0).
fn open_frame(id: u16) -> Vec<u8> {
    header_new(0, 0, id).to_vec()
}
fn request_frames(id: u16, tag: u8) -> Vec<u8> {
    let mut msg = vec![0x0a, 0x20];
    msg.extend_from_slice(&[tag; 32]);
    let mut payload = (msg.len() as u32).to_le_bytes().to_vec();
    payload.extend_from_slice(&msg);
    let mut out = header_new(0x4000, 0, id).to_vec();
    out.extend_from_slice(&(payload.len() as u16).to_le_bytes());
    out.extend_from_slice(&payload);
    out.extend_from_slice(&header_new(0x8000, 0, id));
    out
}

async fn server<S: zksync_concurrency::io::AsyncRead + zksync_concurrency::io::AsyncWrite + Send>(
    ctx: &ctx::Ctx,
    n: u64,
    t: S,
    rate: limiter::Rate,
    hold: time::Duration,
    log: HandlerLog,
) -> Result<(), String> {
    match n {
        1 => run_server::<1, S>(ctx, t, rate, hold, log).await,
        2 => run_server::<2, S>(ctx, t, rate, hold, log).await,
        5 => run_server::<5, S>(ctx, t, rate, hold, log).await,
        _ => panic!("unsupported INFLIGHT {n}"),
    }
}

async fn client<S: zksync_concurrency::io::AsyncRead + zksync_concurrency::io::AsyncWrite + Send>(
    ctx: &ctx::Ctx,
    n: u64,
    t: S,
    rate: limiter::Rate,
    tasks: usize,
    done: Arc<Mutex<Vec<time::Instant>>>,
) -> Result<(), String> {
    match n {
        1 => run_client::<1, S>(ctx, t, rate, tasks, done).await,
        2 => run_client::<2, S>(ctx, t, rate, tasks, done).await,
        5 => run_client::<5, S>(ctx, t, rate, tasks, done).await,
        _ => panic!("unsupported INFLIGHT {n}"),
    }
}

async fn run_case(c: &Value) -> Value {
    if c["test_hang"].as_bool() == Some(true) {
        // self-test of the watchdog only
        std::future::pending::<()>().await;
    }
    let mode = c["mode"].as_str().unwrap_or("pair").to_string();
    let raw = mode != "pair";
    let clock = ctx::ManualClock::new();
    let t0 = clock.now();
    let root = ctx::test_root(&clock);
    let ctx = &root;
    let activity = Arc::new(AtomicU64::new(0));
    let log: HandlerLog = Arc::new(Mutex::new(vec![]));
    let done: Arc<Mutex<Vec<time::Instant>>> = Arc::new(Mutex::new(vec![]));
    let status: Arc<Mutex<Vec<String>>> = Arc::new(Mutex::new(vec![]));
    let n = u64_of(&c["n"]);
    let rs = rate_of(&c["rs"]);
    let hold = dur(i128_of(&c["hold"]));
    let tasks = c["tasks"].as_u64().unwrap_or(1) as usize;
    let rounds = c["rounds"].as_u64().unwrap_or(0);
    let advs = durs(&c["advs"]);
    let warm = durs(&c["warm"]);
    let (da, db) = tokio::io::duplex(BIG);
    let tb = Tee {
        inner: db,
        activity: activity.clone(),
    };
    let mut raw_end = None;
    let mut ta = None;
    if raw {
        raw_end = Some(da);
    } else {
        ta = Some(Tee {
            inner: da,
            activity: activity.clone(),
        });
    }
    let capped = Arc::new(AtomicU64::new(0));
    let (log2, done2, st2, capped2) = (log.clone(), done.clone(), status.clone(), capped.clone());
    let rc = if raw { rs } else { rate_of(&c["rc"]) };
    let _: Result<(), ctx::Canceled> = scope::run!(ctx, |ctx, s| async move {
        {
            let (st, act, log) = (st2.clone(), activity.clone(), log2.clone());
            s.spawn_bg(async move {
                let r = server(ctx, n, tb, rs, hold, log).await;
                st.lock().unwrap().push(format!("server:{:?}", r.err()));
                act.fetch_add(1, Ordering::SeqCst);
                Ok(())
            });
        }
        if let Some(t) = ta {
            let (st, act, done) = (st2.clone(), activity.clone(), done2.clone());
            s.spawn_bg(async move {
                let r = client(ctx, n, t, rc, tasks, done).await;
                st.lock().unwrap().push(format!("client:{:?}", r.err()));
                act.fetch_add(1, Ordering::SeqCst);
                Ok(())
            });
        }
        let mut ok = true;
        if let Some(rawp) = raw_end.as_mut() {
            let hs = encode_handshake(&[(PING_CAP, n as u32)], &[]);
            let mut bytes = (hs.len() as u32).to_le_bytes().to_vec();
            bytes.extend_from_slice(&hs);
            if mode == "withhold" || mode == "idle" {
                // withhold: every stream is OPENed now, its request comes after `warm`;
                // idle: the peer sends nothing but the handshake until `warm` has passed.
                if mode == "withhold" {
                    for id in 0..n as u16 {
                        bytes.extend_from_slice(&open_frame(id));
                    }
                }
                rawp.write_all(&bytes).await.unwrap();
                bytes.clear();
                for d in &warm {
                    ok = ok && settle(&activity, &log2).await;
                    clock.advance(*d);
                    activity.fetch_add(1, Ordering::SeqCst);
                }
                ok = ok && settle(&activity, &log2).await;
                if mode == "withhold" {
                    for id in 0..n as u16 {
                        bytes.extend_from_slice(&request_frames(id, 7));
                    }
                }
            }
            for r in 0..rounds {
                for id in 0..n as u16 {
                    bytes.extend_from_slice(&open_frame(id));
                    bytes.extend_from_slice(&request_frames(id, r as u8));
                }
            }
            rawp.write_all(&bytes).await.unwrap();
        }
        for d in advs {
            if !ok {
                break;
            }
            ok = settle(&activity, &log2).await;
            clock.advance(d);
            activity.fetch_add(1, Ordering::SeqCst);
        }
        ok = ok && settle(&activity, &log2).await;
        if !ok {
            capped2.store(1, Ordering::SeqCst);
        }
        // do not rely on the scope noticing that the root task is done
        s.cancel();
        Ok(())
    })
    .await;
    if capped.load(Ordering::SeqCst) != 0 {
        return json!({"hang": true, "livelock": true, "yields": MAX_SETTLE_YIELDS});
    }
    let ns = |t: &time::Instant| (*t - t0).whole_nanoseconds().to_string();
    let evs: Vec<Value> = log
        .lock()
        .unwrap()
        .iter()
        .map(|(t, k)| json!([*k as i64, ns(t)]))
        .collect();
    let dn: Vec<Value> = done.lock().unwrap().iter().map(|t| json!(ns(t))).collect();
    let st = status.lock().unwrap().clone();
    json!({"events": evs, "done": dn, "status": st})
}

fn case(c: Value) -> u::CaseFut {
    Box::pin(async move { run_case(&c).await })
}

fn main() {
    u::main_loop(case)
}
