//! C15 (RPC half, mux level): real `Mux` instances whose per-capability `StreamQueue`s carry a rate
//! limiter, under `ctx::ManualClock`.  Measures when transient streams are handed to the
//! application (one permit per OPEN) and how many are open at once.
//!
//! input: {"mode":"pair"|"flood", "ma":n, "mb":n, "ra":["burst","refresh_ns"], "rb":[..],
//!         "na":tasks on A, "nb":tasks on B, "hold_a":["ns"...], "hold_b":["ns"...], "advs":["ns"...]}
//!  pair : A (accept queue, rate ra, ma streams) and B (connect queue, rate rb, mb streams), capability 0;
//!         na / nb application tasks per side loop { open; hold; drop } as fast as the mux lets them.
//!  flood: B as above; side A is not a mux but the harness writing a valid handshake followed by
//!         `rounds` x (OPEN, CLOSE) on every stream id, without ever waiting for B. With "warm":["ns"...]
//!         the peer idles first (only the handshake is sent, the clock advances by `warm`), so B's streams
//!         sit in the OPEN handshake, and then answers everything at once.
//! The clock only moves by the scripted advances; before each one the runtime is drained.
//! output: {"events":[[side, +1|-1, "<ns>"]...] in order, "status":[..]}
use std::{
    pin::Pin,
    sync::{
        atomic::{AtomicU64, Ordering},
        Arc, Mutex,
    },
    task::{Context, Poll},
};

use serde_json::{json, Value};
use tokio::io::{AsyncRead, AsyncWrite, AsyncWriteExt, DuplexStream, ReadBuf};
use vh::util::*;
use zksync_concurrency::{ctx, limiter, scope, time};
use zksync_consensus_network::verif::mux::{encode_handshake, header_new, VConfig, VMux, VQueue};

struct Tee {
    inner: DuplexStream,
    activity: Arc<AtomicU64>,
}

impl AsyncRead for Tee {
    fn poll_read(
        mut self: Pin<&mut Self>,
        cx: &mut Context<'_>,
        buf: &mut ReadBuf<'_>,
    ) -> Poll<std::io::Result<()>> {
        let before = buf.filled().len();
        let r = Pin::new(&mut self.inner).poll_read(cx, buf);
        if buf.filled().len() > before {
            self.activity.fetch_add(1, Ordering::SeqCst);
        }
        r
    }
}

impl AsyncWrite for Tee {
    fn poll_write(
        mut self: Pin<&mut Self>,
        cx: &mut Context<'_>,
        buf: &[u8],
    ) -> Poll<std::io::Result<usize>> {
        let r = Pin::new(&mut self.inner).poll_write(cx, buf);
        if let Poll::Ready(Ok(_)) = &r {
            self.activity.fetch_add(1, Ordering::SeqCst);
        }
        r
    }
    fn poll_flush(mut self: Pin<&mut Self>, cx: &mut Context<'_>) -> Poll<std::io::Result<()>> {
        Pin::new(&mut self.inner).poll_flush(cx)
    }
    fn poll_shutdown(mut self: Pin<&mut Self>, cx: &mut Context<'_>) -> Poll<std::io::Result<()>> {
        Pin::new(&mut self.inner).poll_shutdown(cx)
    }
}

/// Bound on the yields of one drain; reaching it is reported as a hang of the case.
const MAX_SETTLE_YIELDS: usize = 200_000;

/// Yields until 64 consecutive rounds without activity (single threaded runtime, in-memory pipes,
/// manual clock: independent of wall-clock time and machine load). Returns false when the bound hit.
async fn settle(activity: &AtomicU64) -> bool {
    let mut idle = 0;
    let mut n = 0usize;
    let mut last = activity.load(Ordering::SeqCst);
    while idle < 64 {
        n += 1;
        if n > MAX_SETTLE_YIELDS {
            return false;
        }
        tokio::task::yield_now().await;
        let now = activity.load(Ordering::SeqCst);
        if now != last {
            last = now;
            idle = 0;
        } else {
            idle += 1;
        }
    }
    true
}

fn i128_of(v: &Value) -> i128 {
    match v {
        Value::Number(n) => n.as_i64().expect("int") as i128,
        Value::String(s) => s.parse().expect("int string"),
        _ => panic!("i128_of: {v}"),
    }
}

fn dur(ns: i128) -> time::Duration {
    time::Duration::new((ns / 1_000_000_000) as i64, (ns % 1_000_000_000) as i32)
}

fn rate_of(v: &Value) -> limiter::Rate {
    limiter::Rate {
        burst: u64_of(&v[0]) as usize,
        refresh: dur(i128_of(&v[1])),
    }
}

fn durs(v: &Value) -> Vec<time::Duration> {
    v.as_array()
        .map(|a| a.iter().map(|x| dur(i128_of(x))).collect())
        .unwrap_or_default()
}

const BIG: usize = 1 << 26;

type Events = Arc<Mutex<Vec<(usize, i64, i128)>>>;

async fn app(
    ctx: &ctx::Ctx,
    q: VQueue,
    side: usize,
    holds: Vec<time::Duration>,
    offset: usize,
    t0: time::Instant,
    events: Events,
    activity: Arc<AtomicU64>,
) -> ctx::OrCanceled<()> {
    let mut i = offset;
    loop {
        let st = q.open(ctx).await?;
        events
            .lock()
            .unwrap()
            .push((side, 1, (ctx.now() - t0).whole_nanoseconds()));
        activity.fetch_add(1, Ordering::SeqCst);
        let h = if holds.is_empty() {
            time::Duration::ZERO
        } else {
            holds[i % holds.len()]
        };
        i += 1;
        if h > time::Duration::ZERO {
            ctx.sleep(h).await?;
        }
        events
            .lock()
            .unwrap()
            .push((side, -1, (ctx.now() - t0).whole_nanoseconds()));
        drop(st);
        activity.fetch_add(1, Ordering::SeqCst);
    }
}

async fn run_case(c: &Value) -> Value {
    if c["test_hang"].as_bool() == Some(true) {
        // self-test of the watchdog only
        std::future::pending::<()>().await;
    }
    let flood = c["mode"].as_str() == Some("flood");
    let clock = ctx::ManualClock::new();
    let t0 = clock.now();
    let root = ctx::test_root(&clock);
    let ctx = &root;
    let activity = Arc::new(AtomicU64::new(0));
    let events: Events = Arc::new(Mutex::new(vec![]));
    let status: Arc<Mutex<Vec<String>>> = Arc::new(Mutex::new(vec![]));
    let ma = u64_of(&c["ma"]) as u32;
    let mb = u64_of(&c["mb"]) as u32;
    let cfg = || VConfig {
        read_frame_size: 1024,
        read_buffer_size: 16 * 1024,
        read_frame_count: 100,
        write_frame_size: 1024,
    };
    let (da, db) = tokio::io::duplex(BIG);
    let qa = VQueue::new(ctx, ma, rate_of(&c["ra"]));
    let qb = VQueue::new(ctx, mb, rate_of(&c["rb"]));
    let mux_a = if flood {
        None
    } else {
        Some(VMux::new(cfg(), vec![(0, qa.clone())], vec![]))
    };
    let mux_b = VMux::new(cfg(), vec![], vec![(0, qb.clone())]);
    let na = if flood { 0 } else { u64_of(&c["na"]) as usize };
    let nb = u64_of(&c["nb"]) as usize;
    let hold_a = durs(&c["hold_a"]);
    let hold_b = durs(&c["hold_b"]);
    let advs = durs(&c["advs"]);
    let warm = durs(&c["warm"]);
    let rounds = c["rounds"].as_u64().unwrap_or(0);
    let mut raw_end = None;
    let mut ta = None;
    if flood {
        raw_end = Some(da);
    } else {
        ta = Some(Tee {
            inner: da,
            activity: activity.clone(),
        });
    }
    let tb = Tee {
        inner: db,
        activity: activity.clone(),
    };
    let ev2 = events.clone();
    let st2 = status.clone();
    let capped = Arc::new(AtomicU64::new(0));
    let capped2 = capped.clone();
    let _: Result<(), ctx::Canceled> = scope::run!(ctx, |ctx, s| async move {
        if let (Some(m), Some(t)) = (mux_a, ta) {
            let st = st2.clone();
            let act = activity.clone();
            s.spawn_bg(async move {
                let r = m.run(ctx, t).await;
                st.lock().unwrap().push(format!("A:{:?}", r.err().map(|e| e.0)));
                act.fetch_add(1, Ordering::SeqCst);
                Ok(())
            });
        }
        {
            let st = st2.clone();
            let act = activity.clone();
            s.spawn_bg(async move {
                let r = mux_b.run(ctx, tb).await;
                st.lock().unwrap().push(format!("B:{:?}", r.err().map(|e| e.0)));
                act.fetch_add(1, Ordering::SeqCst);
                Ok(())
            });
        }
        // raw peer: the mux handshake first; its OPEN / CLOSE frames only after the idle phase `warm`
        if let Some(raw) = raw_end.as_mut() {
            let hs = encode_handshake(&[(0, ma)], &[]);
            let mut bytes = (hs.len() as u32).to_le_bytes().to_vec();
            bytes.extend_from_slice(&hs);
            raw.write_all(&bytes).await.unwrap();
        }
        for i in 0..na {
            s.spawn_bg(app(ctx, qa.clone(), 0, hold_a.clone(), i, t0, ev2.clone(), activity.clone()));
        }
        for i in 0..nb {
            s.spawn_bg(app(ctx, qb.clone(), 1, hold_b.clone(), i, t0, ev2.clone(), activity.clone()));
        }
        let mut warm_ok = true;
        if let Some(raw) = raw_end.as_mut() {
            for d in warm {
                warm_ok = warm_ok && settle(&activity).await;
                clock.advance(d);
                activity.fetch_add(1, Ordering::SeqCst);
            }
            let n = std::cmp::min(ma, mb) as u16;
            let mut bytes = vec![];
            for _ in 0..rounds {
                for id in 0..n {
                    bytes.extend_from_slice(&header_new(0, 0, id)); // OPEN, ACCEPT side
                    bytes.extend_from_slice(&header_new(0x8000, 0, id)); // CLOSE
                }
            }
            raw.write_all(&bytes).await.unwrap();
        }
        if !warm_ok {
            capped2.store(1, Ordering::SeqCst);
        }
        for d in advs {
            if !settle(&activity).await {
                capped2.store(1, Ordering::SeqCst);
                break;
            }
            clock.advance(d);
            activity.fetch_add(1, Ordering::SeqCst);
        }
        if !settle(&activity).await {
            capped2.store(1, Ordering::SeqCst);
        }
        // do not rely on the scope noticing that the root task is done
        s.cancel();
        Ok(())
    })
    .await;
    if capped.load(Ordering::SeqCst) != 0 {
        return json!({"hang": true, "livelock": true, "yields": MAX_SETTLE_YIELDS});
    }
    let evs: Vec<Value> = events
        .lock()
        .unwrap()
        .iter()
        .map(|(s, k, t)| json!([s, k, t.to_string()]))
        .collect();
    let st = status.lock().unwrap().clone();
    json!({"events": evs, "status": st})
}

#[path = "../limiter_util.rs"]
mod u;

fn case(c: Value) -> u::CaseFut {
    Box::pin(async move { run_case(&c).await })
}

fn main() {
    u::main_loop(case)
}
