//! JSON descriptions of consensus messages/certificates <-> real objects with real BLS
//! signatures from the key pool, and canonical observations of errors.
use serde_json::{json, Value};
use zksync_consensus_crypto::{keccak256::Keccak256, Text, TextFmt};
use zksync_consensus_roles::validator::{
    self,
    v2::{
        BlockHeader, CommitQC, ProposalJustification, ReplicaCommit, ReplicaTimeout, Signers,
        TimeoutQC, View,
    },
};

use crate::util::u64_of;

pub struct World {
    pub pool: Vec<validator::SecretKey>,
    /// The genesis hash that case descriptions call genesis 0 (default: a synthetic one).
    pub real_genesis: Option<validator::GenesisHash>,
}

fn hex32(tag: &str, id: i64) -> String {
    let h = Keccak256::new(format!("{tag}-{id}").as_bytes());
    h.as_bytes().iter().map(|b| format!("{b:02x}")).collect()
}

pub fn genesis_hash(id: i64) -> validator::GenesisHash {
    Text::new(&format!("genesis_hash:keccak256:{}", hex32("genesis", id)))
        .decode()
        .unwrap()
}

/// Payload with identifier `id`; its hash is what models call the payload hash `id`.
/// Payloads with id >= 500 are big (300 bytes), the others about 10 bytes.
pub fn payload(id: i64) -> validator::Payload {
    let mut b = format!("payload-{id};").into_bytes();
    if id >= 500 {
        b.extend(std::iter::repeat(0u8).take(300));
    }
    validator::Payload(b)
}

/// Identifier of a payload built by `payload`.
pub fn payload_id(p: &validator::Payload) -> Option<i64> {
    let s = std::str::from_utf8(&p.0).ok().or_else(|| std::str::from_utf8(&p.0[..p.0.len().min(30)]).ok())?;
    let s = s.strip_prefix("payload-")?;
    let end = s.find(';')?;
    s[..end].parse().ok()
}

pub fn payload_hash(id: i64) -> validator::PayloadHash {
    payload(id).hash()
}

impl World {
    pub fn new(n: usize) -> Self {
        Self {
            pool: crate::keys::validator_pool(n),
            real_genesis: None,
        }
    }

    pub fn rank(&self, k: &validator::PublicKey) -> i64 {
        crate::keys::rank(&self.pool, k)
    }

    /// committee: [[rank, "weight"], ...]; everybody is leader eligible, round robin.
    pub fn schedule(&self, c: &Value) -> validator::Schedule {
        let vals: Vec<_> = c
            .as_array()
            .unwrap()
            .iter()
            .map(|v| validator::ValidatorInfo {
                key: self.pool[v[0].as_u64().unwrap() as usize].public(),
                weight: u64_of(&v[1]),
                // optional third component: leader eligibility (default: eligible)
                leader: v.get(2).and_then(|x| x.as_u64()).map(|x| x != 0).unwrap_or(true),
            })
            .collect();
        validator::Schedule::new(vals, validator::LeaderSelection::default()).expect("schedule")
    }

    pub fn genesis(&self, id: i64) -> validator::GenesisHash {
        match (&self.real_genesis, id) {
            (Some(g), 0) => *g,
            _ => genesis_hash(id),
        }
    }

    pub fn genesis_id(&self, g: &validator::GenesisHash) -> i64 {
        (0..64).find(|i| &self.genesis(*i) == g).unwrap_or(-1)
    }

    pub fn view(&self, v: &Value) -> View {
        View {
            genesis: self.genesis(v["g"].as_i64().unwrap()),
            epoch: validator::EpochNumber(u64_of(&v["e"])),
            number: validator::ViewNumber(u64_of(&v["n"])),
        }
    }

    pub fn header(&self, h: &Value) -> BlockHeader {
        BlockHeader {
            number: validator::BlockNumber(u64_of(&h["n"])),
            payload: payload_hash(h["p"].as_i64().unwrap()),
        }
    }

    pub fn commit(&self, c: &Value) -> ReplicaCommit {
        ReplicaCommit {
            view: self.view(&c["v"]),
            proposal: self.header(&c["h"]),
        }
    }

    fn bits(&self, b: &Value) -> Signers {
        let b = b.as_array().unwrap();
        let mut s = Signers::new(b.len());
        for (i, x) in b.iter().enumerate() {
            let on = x.as_bool().unwrap_or_else(|| x.as_i64().unwrap() != 0);
            s.0.set(i, on);
        }
        s
    }

    /// A signature described as {"k": rank, "m": {"commit": c} | {"timeout": t} | {"other": id}}.
    pub fn sig(&self, s: &Value) -> validator::Signature {
        let sk = &self.pool[s["k"].as_u64().unwrap() as usize];
        let m = &s["m"];
        if let Some(c) = m.get("commit") {
            sk.sign_msg(validator::ConsensusMsg::V2(
                validator::v2::ChonkyMsg::ReplicaCommit(self.commit(c)),
            ))
            .sig
        } else if let Some(t) = m.get("timeout") {
            sk.sign_msg(validator::ConsensusMsg::V2(
                validator::v2::ChonkyMsg::ReplicaTimeout(self.timeout(t)),
            ))
            .sig
        } else {
            // some other message: a commit vote in an unrelated chain
            let id = m["other"].as_i64().unwrap();
            sk.sign_msg(validator::ConsensusMsg::V2(
                validator::v2::ChonkyMsg::ReplicaCommit(ReplicaCommit {
                    view: View {
                        genesis: genesis_hash(1_000_000 + id),
                        epoch: validator::EpochNumber(0),
                        number: validator::ViewNumber(0),
                    },
                    proposal: BlockHeader {
                        number: validator::BlockNumber(0),
                        payload: payload_hash(1_000_000 + id),
                    },
                }),
            ))
            .sig
        }
    }

    pub fn agg(&self, a: &Value) -> validator::AggregateSignature {
        let sigs: Vec<_> = a.as_array().unwrap().iter().map(|s| self.sig(s)).collect();
        validator::AggregateSignature::aggregate(sigs.iter())
    }

    pub fn cqc(&self, q: &Value) -> CommitQC {
        CommitQC {
            message: self.commit(&q["msg"]),
            signers: self.bits(&q["signers"]),
            signature: self.agg(&q["agg"]),
        }
    }

    pub fn timeout(&self, t: &Value) -> ReplicaTimeout {
        ReplicaTimeout {
            view: self.view(&t["v"]),
            high_vote: if t["hv"].is_null() {
                None
            } else {
                Some(self.commit(&t["hv"]))
            },
            high_qc: if t["hq"].is_null() {
                None
            } else {
                Some(self.cqc(&t["hq"]))
            },
        }
    }

    /// Returns the certificate and, for each map entry in BTreeMap iteration order, the index
    /// of the JSON entry it came from.
    pub fn tqc(&self, t: &Value) -> (TimeoutQC, Vec<usize>) {
        let mut q = TimeoutQC::new(self.view(&t["v"]));
        let entries: Vec<(ReplicaTimeout, Signers)> = t["map"]
            .as_array()
            .unwrap()
            .iter()
            .map(|e| (self.timeout(&e[0]), self.bits(&e[1])))
            .collect();
        for (m, s) in &entries {
            q.map.insert(m.clone(), s.clone());
        }
        q.signature = self.agg(&t["agg"]);
        let order = q
            .map
            .iter()
            .map(|(m, s)| {
                entries
                    .iter()
                    .rposition(|(m2, s2)| m2 == m && s2 == s)
                    .unwrap()
            })
            .collect();
        (q, order)
    }

    pub fn justification(&self, j: &Value) -> (ProposalJustification, Vec<usize>) {
        if let Some(q) = j.get("commit") {
            (ProposalJustification::Commit(self.cqc(q)), vec![])
        } else {
            let (t, o) = self.tqc(&j["timeout"]);
            (ProposalJustification::Timeout(t), o)
        }
    }

    /// Signed<ReplicaCommit> from {"key": rank, "msg": commit, "sig": sigdesc}
    pub fn signed_commit(&self, s: &Value) -> validator::Signed<ReplicaCommit> {
        validator::Signed {
            msg: self.commit(&s["msg"]),
            key: self.pool[s["key"].as_u64().unwrap() as usize].public(),
            sig: self.sig(&s["sig"]),
        }
    }

    pub fn signed_timeout(&self, s: &Value) -> validator::Signed<ReplicaTimeout> {
        validator::Signed {
            msg: self.timeout(&s["msg"]),
            key: self.pool[s["key"].as_u64().unwrap() as usize].public(),
            sig: self.sig(&s["sig"]),
        }
    }
}

// ---- observations of errors, in the encoding of Model/Msgs.v ----

pub fn view_err(e: &anyhow::Error) -> i64 {
    let s = format!("{e:#}");
    if s.contains("Genesis mismatch") {
        1
    } else if s.contains("Epoch number mismatch") {
        2
    } else {
        99
    }
}

pub fn commit_verify_err(e: &validator::v2::ReplicaCommitVerifyError) -> i64 {
    match e {
        validator::v2::ReplicaCommitVerifyError::BadView(e) => view_err(e),
    }
}

pub fn cqc_verify_err(e: &validator::v2::CommitQCVerifyError) -> Value {
    use validator::v2::CommitQCVerifyError as E;
    match e {
        E::InvalidMessage(e) => json!([1, commit_verify_err(e)]),
        E::BadSignersSet => json!([2]),
        E::NotEnoughWeight { .. } => json!([3]),
        E::BadSignature(_) => json!([4]),
    }
}

pub fn cqc_add_err(e: &validator::v2::CommitQCAddError) -> Value {
    use validator::v2::CommitQCAddError as E;
    match e {
        E::SignerNotInCommittee { .. } => json!([1]),
        E::DuplicateSigner { .. } => json!([2]),
        E::BadSignature(_) => json!([3]),
        E::InconsistentMessages => json!([4]),
        E::InvalidMessage(e) => json!([5, commit_verify_err(e)]),
    }
}

pub fn timeout_verify_err(e: &validator::v2::ReplicaTimeoutVerifyError) -> Value {
    use validator::v2::ReplicaTimeoutVerifyError as E;
    match e {
        E::BadView(e) => json!([1, view_err(e)]),
        E::InvalidHighVote(e) => json!([2, commit_verify_err(e)]),
        E::InvalidHighQC(e) => json!([3, cqc_verify_err(e)]),
    }
}

pub fn tqc_verify_err(e: &validator::v2::TimeoutQCVerifyError) -> Value {
    use validator::v2::TimeoutQCVerifyError as E;
    match e {
        E::BadView(e) => json!([1, view_err(e)]),
        E::InconsistentView(i) => json!([2, i]),
        E::InvalidMessage(i, e) => json!([3, i, timeout_verify_err(e)]),
        E::WrongSignersLength(i) => json!([4, i]),
        E::NoSignersAssigned(i) => json!([5, i]),
        E::OverlappingSignatureSet(i) => json!([6, i]),
        E::NotEnoughWeight { .. } => json!([7]),
        E::BadSignature(_) => json!([8]),
    }
}

pub fn tqc_add_err(e: &validator::v2::TimeoutQCAddError) -> Value {
    use validator::v2::TimeoutQCAddError as E;
    match e {
        E::SignerNotInCommittee { .. } => json!([1]),
        E::DuplicateSigner { .. } => json!([2]),
        E::BadSignature(_) => json!([3]),
        E::InconsistentViews => json!([4]),
        E::InvalidMessage(e) => json!([5, timeout_verify_err(e)]),
    }
}

pub fn just_err(e: &validator::v2::ProposalJustificationVerifyError) -> Value {
    use validator::v2::ProposalJustificationVerifyError as E;
    match e {
        E::Commit(e) => json!([1, cqc_verify_err(e)]),
        E::Timeout(e) => json!([2, tqc_verify_err(e)]),
    }
}

pub fn block_err(e: &validator::v2::BlockValidationError) -> Value {
    use validator::v2::BlockValidationError as E;
    match e {
        E::HashMismatch { .. } => json!([1]),
        E::Justification(e) => json!([2, cqc_verify_err(e)]),
        _ => json!([99]),
    }
}

pub fn panic_code(msg: &str) -> i64 {
    if msg.contains("overflow") {
        1
    } else if msg.contains("divide by zero") {
        2
    } else if msg.contains("index out of bounds") || msg.contains("out of range") {
        3
    } else if msg.contains("unwrap") || msg.contains("expect") || msg.contains("could not add") {
        4
    } else if msg.contains("unreachable") {
        5
    } else if msg.contains("assert") {
        6
    } else {
        99
    }
}

/// Encodes Result<T, E> / panic as the model's `obs_outcome`.
pub fn outcome<T, E>(
    r: Result<Result<T, E>, String>,
    ok: impl FnOnce(T) -> Value,
    err: impl FnOnce(&E) -> Value,
) -> Value {
    match r {
        Ok(Ok(v)) => json!([0, ok(v)]),
        Ok(Err(e)) => json!([2, err(&e)]),
        Err(m) => json!([1, panic_code(&m)]),
    }
}

pub fn bits_obs(s: &Signers) -> Value {
    Value::Array(s.0.iter().map(|b| json!(if b { 1 } else { 0 })).collect())
}
