//! JSON-lines plumbing and panic capture.
use std::io::{BufRead, Write};

/// Reads all JSON lines from stdin.
pub fn read_cases() -> Vec<serde_json::Value> {
    let stdin = std::io::stdin();
    let mut out = vec![];
    for line in stdin.lock().lines() {
        let line = line.expect("stdin");
        let line = line.trim();
        if line.is_empty() {
            continue;
        }
        out.push(serde_json::from_str(line).expect("bad json case"));
    }
    out
}

/// Writes one JSON value per line to stdout.
pub fn write_line(v: &serde_json::Value) {
    let stdout = std::io::stdout();
    let mut l = stdout.lock();
    serde_json::to_writer(&mut l, v).unwrap();
    l.write_all(b"\n").unwrap();
}

/// Runs `f`, mapping a panic to Err(message).
pub fn catch<T>(f: impl FnOnce() -> T + std::panic::UnwindSafe) -> Result<T, String> {
    match std::panic::catch_unwind(f) {
        Ok(v) => Ok(v),
        Err(e) => {
            let msg = if let Some(s) = e.downcast_ref::<&str>() {
                s.to_string()
            } else if let Some(s) = e.downcast_ref::<String>() {
                s.clone()
            } else {
                "panic".to_string()
            };
            Err(msg)
        }
    }
}

/// Silences the default panic hook (panics are observations here).
pub fn quiet_panics() {
    std::panic::set_hook(Box::new(|_| {}));
}

/// u64 from a JSON value that is either a number or a decimal string.
pub fn u64_of(v: &serde_json::Value) -> u64 {
    match v {
        serde_json::Value::Number(n) => n.as_u64().expect("u64"),
        serde_json::Value::String(s) => s.parse().expect("u64 string"),
        _ => panic!("u64_of: {v}"),
    }
}

/// i64 from a JSON number or decimal string.
pub fn i64_of(v: &serde_json::Value) -> i64 {
    match v {
        serde_json::Value::Number(n) => n.as_i64().expect("i64"),
        serde_json::Value::String(s) => s.parse().expect("i64 string"),
        _ => panic!("i64_of: {v}"),
    }
}
