//! Shared helpers for the verification harness binaries.
pub mod keys;
pub mod msgs;
pub mod util;
