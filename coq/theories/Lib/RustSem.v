(* Semantics of the Rust primitives that the source translator gen/rust2coq.py emits
   calls to.  Hand written and small: this file is part of the trusted base of every
   "generated = model" theorem (Properties/C*Gen*.v).  Integers are Z; an unsigned integer
   of width [bits] is a Z in [0, 2^bits).  [chk = true] is the dev profile (overflow-checks
   on), [chk = false] the release profile (wrapping).  64-bit operations are the ones of
   Lib/U64.v so that generated code and hand models share them; usize is 64 bit. *)
From Coq Require Import ZArith List Bool Lia.
From EC Require Import Lib.Outcome Lib.U64.
Import ListNotations.
Open Scope Z_scope.

(* ---------- fixed width unsigned arithmetic ---------- *)
Definition uN_add {E} (bits : Z) (chk : bool) (a b : Z) : outcome E Z :=
  if a + b <? 2 ^ bits then Ok (a + b) else if chk then Panic POverflow else Ok ((a + b) mod 2 ^ bits).
Definition uN_sub {E} (bits : Z) (chk : bool) (a b : Z) : outcome E Z :=
  if b <=? a then Ok (a - b) else if chk then Panic POverflow else Ok ((a - b) mod 2 ^ bits).
Definition uN_mul {E} (bits : Z) (chk : bool) (a b : Z) : outcome E Z :=
  if a * b <? 2 ^ bits then Ok (a * b) else if chk then Panic POverflow else Ok ((a * b) mod 2 ^ bits).
(* a << b, a >> b: the shift amount must be below the width (dev: panic; release: the
   amount is masked to the width) *)
Definition uN_shl {E} (bits : Z) (chk : bool) (a b : Z) : outcome E Z :=
  if b <? bits then Ok (Z.shiftl a b mod 2 ^ bits)
  else if chk then Panic POverflow else Ok (Z.shiftl a (b mod bits) mod 2 ^ bits).
Definition uN_shr {E} (bits : Z) (chk : bool) (a b : Z) : outcome E Z :=
  if b <? bits then Ok (Z.shiftr a b)
  else if chk then Panic POverflow else Ok (Z.shiftr a (b mod bits)).
(* shifts by a literal amount below the width never panic *)
Definition uN_shl_lit (bits a n : Z) : Z := Z.shiftl a n mod 2 ^ bits.
Definition uN_shr_lit (a n : Z) : Z := Z.shiftr a n.
Definition uN_not (bits a : Z) : Z := 2 ^ bits - 1 - a.
(* `as` between unsigned integer types: widening is the identity, narrowing truncates *)
Definition uN_cast (bits a : Z) : Z := a mod 2 ^ bits.

Definition uN_checked_add (bits a b : Z) : option Z := if a + b <? 2 ^ bits then Some (a + b) else None.
Definition uN_checked_sub (a b : Z) : option Z := if b <=? a then Some (a - b) else None.
Definition uN_checked_mul (bits a b : Z) : option Z := if a * b <? 2 ^ bits then Some (a * b) else None.
Definition uN_saturating_add (bits a b : Z) : Z := Z.min (a + b) (2 ^ bits - 1).
Definition uN_saturating_sub (a b : Z) : Z := Z.max (a - b) 0.
Definition uN_saturating_mul (bits a b : Z) : Z := Z.min (a * b) (2 ^ bits - 1).
Definition uN_wrapping_add (bits a b : Z) : Z := (a + b) mod 2 ^ bits.
Definition uN_wrapping_sub (bits a b : Z) : Z := (a - b) mod 2 ^ bits.
Definition uN_max (bits : Z) : Z := 2 ^ bits - 1.
Definition uN_checked_div (a b : Z) : option Z := if b =? 0 then None else Some (a / b).

(* ---------- fixed width signed arithmetic (two's complement range [-2^(bits-1), 2^(bits-1))) ---------- *)
Definition sN_in (bits x : Z) : bool := (- 2 ^ (bits - 1) <=? x) && (x <? 2 ^ (bits - 1)).
Definition sN_wrap (bits x : Z) : Z := (x + 2 ^ (bits - 1)) mod 2 ^ bits - 2 ^ (bits - 1).
Definition sN_arith {E} (bits : Z) (chk : bool) (r : Z) : outcome E Z :=
  if sN_in bits r then Ok r else if chk then Panic POverflow else Ok (sN_wrap bits r).
Definition sN_add {E} (bits : Z) (chk : bool) (a b : Z) : outcome E Z := sN_arith bits chk (a + b).
Definition sN_sub {E} (bits : Z) (chk : bool) (a b : Z) : outcome E Z := sN_arith bits chk (a - b).
Definition sN_mul {E} (bits : Z) (chk : bool) (a b : Z) : outcome E Z := sN_arith bits chk (a * b).
(* signed division truncates towards zero; MIN / -1 overflows (panics in both profiles) *)
Definition sN_div {E} (bits : Z) (chk : bool) (a b : Z) : outcome E Z :=
  if b =? 0 then Panic PDivZero
  else if sN_in bits (Z.quot a b) then Ok (Z.quot a b) else Panic POverflow.
(* TryFrom<signed or unsigned> for an unsigned integer of width bits *)
Definition uN_try_from (bits x : Z) : option Z := if (0 <=? x) && (x <? 2 ^ bits) then Some x else None.

(* u64::to_be_bytes *)
Definition u64_to_be_bytes (x : Z) : list Z :=
  map (fun i => (x / 2 ^ (8 * i)) mod 256) [7; 6; 5; 4; 3; 2; 1; 0].

(* ---------- num_bigint::BigUint as a non-negative Z ---------- *)
(* a % b panics on b = 0 *)
Definition big_rem {E} (a b : Z) : outcome E Z := if b =? 0 then Panic PDivZero else Ok (a mod b).
(* iter_u64_digits: base 2^64 digits, least significant first; zero has no digits *)
Fixpoint big_digits_fuel (n : nat) (x : Z) : list Z :=
  match n with
  | O => []
  | S n' => if x <=? 0 then [] else (x mod 2 ^ 64) :: big_digits_fuel n' (x / 2 ^ 64)
  end.
Definition big_u64_digits (x : Z) : list Z := big_digits_fuel (Z.to_nat (Z.log2 x) + 1) x.

(* u16::to_le_bytes / from_le_bytes *)
Definition u16_to_le_bytes (h : Z) : list Z := [h mod 256; h / 256].
Definition u16_from_le_bytes (b : list Z) : Z := nth 0 b 0 + 256 * nth 1 b 0.

(* ---------- Option ---------- *)
Definition unwrap {E A} (o : option A) : outcome E A :=
  match o with Some a => Ok a | None => Panic PUnwrap end.
Definition is_some {A} (o : option A) : bool := match o with Some _ => true | None => false end.
Definition is_none {A} (o : option A) : bool := match o with Some _ => false | None => true end.
Definition unwrap_or {A} (o : option A) (d : A) : A := match o with Some a => a | None => d end.
(* `e?` inside a function returning Option *)
Definition obind {E A B} (x : option A) (f : A -> outcome E (option B)) : outcome E (option B) :=
  match x with Some a => f a | None => Ok None end.
Definition obind_pure {A B} (x : option A) (f : A -> option B) : option B :=
  match x with Some a => f a | None => None end.

(* Option::ok_or / anyhow Context on an Option *)
Definition ok_or {E A} (o : option A) (e : E) : outcome E A :=
  match o with Some a => Ok a | None => Err e end.
(* Result::map_err *)
Definition rmap_err {E F A} (f : E -> F) (x : outcome E A) : outcome F A :=
  match x with Ok a => Ok a | Err e => Err (f e) | Panic p => Panic p end.

(* Result::expect / unwrap *)
Definition rexpect {E F A} (x : outcome E A) : outcome F A :=
  match x with Ok a => Ok a | Err _ => Panic PUnwrap | Panic p => Panic p end.
(* derived PartialOrd on Option<T>: None < Some(_) *)
Definition opt_ge {A} (ge : A -> A -> bool) (a b : option A) : bool :=
  match a, b with
  | _, None => true
  | None, Some _ => false
  | Some x, Some y => ge x y
  end.

(* Option::map with a closure that may panic *)
Definition option_map_m {E A B} (f : A -> outcome E B) (o : option A) : outcome E (option B) :=
  match o with Some a => let* b := f a in Ok (Some b) | None => Ok None end.

(* ---------- a plain state monad: a `&mut self` method whose state is S (no effect list) ---------- *)
Definition sres (S E A : Type) : Type := (S * outcome E A)%type.
Definition sret {S E A} (s : S) (a : A) : sres S E A := (s, Ok a).
Definition sfail {S E A} (s : S) (e : E) : sres S E A := (s, Err e).
Definition spanic {S E A} (s : S) (p : panic) : sres S E A := (s, Panic p).
Definition slift {S E A} (s : S) (x : outcome E A) : sres S E A := (s, x).
Definition sbind {S E A B} (x : sres S E A) (f : S -> A -> sres S E B) : sres S E B :=
  let '(s, r) := x in
  match r with
  | Ok a => f s a
  | Err e => (s, Err e)
  | Panic p => (s, Panic p)
  end.
Definition sexpect {S E A} (x : sres S E A) : sres S E A :=
  let '(s, r) := x in match r with Err _ => (s, Panic PUnwrap) | _ => (s, r) end.
(* a `for` loop in a state method: the state and the loop's `let mut` locals are threaded through the iterations;
   an error / panic stops the loop and keeps the state reached so far *)
Fixpoint sfold {S E A Acc} (f : S -> Acc -> A -> sres S E Acc) (l : list A) (s : S) (acc : Acc) : sres S E Acc :=
  match l with
  | [] => sret s acc
  | a :: l' => sbind (f s acc a) (fun s' acc' => sfold f l' s' acc')
  end.

(* assert!(b) *)
Definition rassert {E} (b : bool) : outcome E unit := if b then Ok tt else Panic PAssert.

(* debug_assert!(b): checked exactly in the profile that has overflow checks on *)
Definition rdebug_assert {E} (chk b : bool) : outcome E unit := if chk then rassert b else Ok tt.

(* v[i] for a sequence of which only the length and the element are known *)
Definition index_known {E A} (len i : Z) (x : A) : outcome E A :=
  if i <? len then Ok x else Panic PIndex.

(* ---------- iterators / Vec (lists in iteration order) ---------- *)
Fixpoint fold_m {E A S} (f : S -> A -> outcome E S) (l : list A) (s : S) : outcome E S :=
  match l with
  | [] => Ok s
  | a :: l' => let* s' := f s a in fold_m f l' s'
  end.
(* a `for` loop whose body may `return v`: inl v = returned, inr s = ran to the end with state s *)
Fixpoint fold_ret {E A S R} (f : S -> A -> outcome E (R + S)) (l : list A) (s : S) : outcome E (R + S) :=
  match l with
  | [] => Ok (inr s)
  | a :: l' =>
      let* r := f s a in
      match r with
      | inl v => Ok (inl v)
      | inr s' => fold_ret f l' s'
      end
  end.
(* v.get(i), v[i], iter().enumerate() *)
Definition vec_get {A} (l : list A) (i : Z) : option A := nth_error l (Z.to_nat i).
Definition vec_index {E A} (l : list A) (i : Z) : outcome E A :=
  match nth_error l (Z.to_nat i) with Some a => Ok a | None => Panic PIndex end.
Definition vec_enumerate {A} (l : list A) : list (Z * A) :=
  combine (map Z.of_nat (seq 0 (length l))) l.
(* bit_vec::BitVec::none *)
Definition bitvec_none (b : list bool) : bool := negb (existsb (fun x => x) b).
(* Iterator::any with a closure that may panic (stops at the first true) *)
Fixpoint any_m {E A} (f : A -> outcome E bool) (l : list A) : outcome E bool :=
  match l with
  | [] => Ok false
  | a :: l' => let* b := f a in if b then Ok true else any_m f l'
  end.
(* BTreeMap<K, V> as an association list (sorted by key where order matters) *)
(* Iterator::filter with a closure that may panic; Iterator::sum over u64 (overflow as for +) *)
Fixpoint filter_m {E A} (f : A -> outcome E bool) (l : list A) : outcome E (list A) :=
  match l with
  | [] => Ok []
  | a :: l' => let* b := f a in let* r := filter_m f l' in Ok (if b then a :: r else r)
  end.
Fixpoint sum_u64_from {E} (chk : bool) (acc : Z) (l : list Z) : outcome E Z :=
  match l with
  | [] => Ok acc
  | x :: l' => let* s := u64_add chk acc x in sum_u64_from chk s l'
  end.
Definition sum_u64 {E} (chk : bool) (l : list Z) : outcome E Z := sum_u64_from chk 0 l.
(* BTreeMap::insert: sorted by key, an equal key is replaced *)
Fixpoint bt_insert {K V} (ltb eqb : K -> K -> bool) (m : list (K * V)) (k : K) (v : V) : list (K * V) :=
  match m with
  | [] => [(k, v)]
  | (k', v') :: m' =>
      if eqb k' k then (k, v) :: m'
      else if ltb k k' then (k, v) :: m
      else (k', v') :: bt_insert ltb eqb m' k v
  end.
Fixpoint bt_get {K V} (eqb : K -> K -> bool) (m : list (K * V)) (k : K) : option V :=
  match m with
  | [] => None
  | (k', v) :: m' => if eqb k' k then Some v else bt_get eqb m' k
  end.
Definition is_some_and_m {E A} (f : A -> outcome E bool) (o : option A) : outcome E bool :=
  match o with Some a => f a | None => Ok false end.
Definition bt_remove {K V} (eqb : K -> K -> bool) (m : list (K * V)) (k : K) : list (K * V) :=
  filter (fun e => negb (eqb (fst e) k)) m.
Definition bt_contains {K V} (eqb : K -> K -> bool) (m : list (K * V)) (k : K) : bool :=
  existsb (fun kv => eqb (fst kv) k) m.
Fixpoint filter_map {A B} (f : A -> option B) (l : list A) : list B :=
  match l with
  | [] => []
  | a :: l' => match f a with Some b => b :: filter_map f l' | None => filter_map f l' end
  end.
(* Iterator::max_by_key: "if several elements are equally maximum, the last element is returned" *)
Definition max_by_key_step {A} (f : A -> Z) (best : option A) (x : A) : option A :=
  match best with
  | None => Some x
  | Some b => if f b <=? f x then Some x else Some b
  end.
Definition max_by_key {A} (f : A -> Z) (l : list A) : option A := fold_left (max_by_key_step f) l None.
Definition list_min (l : list Z) : option Z :=
  match l with [] => None | x :: l' => Some (fold_left Z.min l' x) end.
Definition list_max (l : list Z) : option Z :=
  match l with [] => None | x :: l' => Some (fold_left Z.max l' x) end.
Definition vec_len {A} (l : list A) : Z := Z.of_nat (length l).
(* Vec::pop: (popped element, remaining vector) *)
Definition vec_pop {A} (l : list A) : option A * list A :=
  match rev l with
  | [] => (None, [])
  | x :: r => (Some x, rev r)
  end.

(* ---------- HashMap<K, u64> as an association list, first insertion first ----------
   `*m.entry(k).or_default() += w`.  The iteration order of a Rust HashMap is unspecified;
   generated code may only use the result in ways that do not depend on the order (the
   theorems about each such use say so). *)
Fixpoint hm_entry_add {E K} (eqb : K -> K -> bool) (chk : bool) (m : list (K * Z)) (k : K) (w : Z)
  : outcome E (list (K * Z)) :=
  match m with
  | [] => let* s := u64_add chk 0 w in Ok [(k, s)]
  | (k', w') :: rest =>
      if eqb k' k then let* s := u64_add chk w' w in Ok ((k', s) :: rest)
      else let* r := hm_entry_add eqb chk rest k w in Ok ((k', w') :: r)
  end.
