(* Universal observation values used by the correspondence check: the Rust
   harness prints nested JSON arrays of integers; models print the same shape. *)
From Coq Require Import ZArith List Bool.
Import ListNotations.
Open Scope Z_scope.

Inductive obsv : Type :=
| OZ (z : Z)
| OL (l : list obsv).

Fixpoint obsv_eqb (a b : obsv) {struct a} : bool :=
  match a, b with
  | OZ x, OZ y => x =? y
  | OL xs, OL ys =>
      (fix go (xs ys : list obsv) {struct xs} : bool :=
         match xs, ys with
         | [], [] => true
         | x :: xs', y :: ys' => obsv_eqb x y && go xs' ys'
         | _, _ => false
         end) xs ys
  | _, _ => false
  end.

Definition ob (b : bool) : obsv := OZ (if b then 1 else 0).
Definition ozs (l : list Z) : obsv := OL (map OZ l).
Definition oopt {A} (f : A -> obsv) (o : option A) : obsv :=
  match o with None => OL [] | Some a => OL [f a] end.

(* Returns the cases on which the model's observation differs from the expected one. *)
Definition check_cases {I : Type} (run : I -> obsv) (cases : list (Z * I * obsv)) : list (Z * obsv) :=
  flat_map (fun c => match c with
                     | (id, inp, expected) =>
                         let m := run inp in
                         if obsv_eqb m expected then [] else [(id, m)]
                     end) cases.
