(* Outcomes of modelled Rust functions: a value, a Rust-level error, or a panic.
   Panics are explicit so that "never panics" is a theorem about the model and
   not an artefact of Gallina totality. *)
From Coq Require Import ZArith List.
Import ListNotations.

Inductive panic : Type :=
| POverflow      (* arithmetic overflow with overflow-checks on *)
| PDivZero       (* division by zero *)
| PIndex         (* slice / vector index out of bounds *)
| PUnwrap        (* unwrap / expect on None / Err *)
| PUnreachable   (* unreachable!() *)
| PAssert.       (* assert! / assert_eq! *)

Inductive outcome (E A : Type) : Type :=
| Ok (a : A)
| Err (e : E)
| Panic (p : panic).
Arguments Ok {E A} a.
Arguments Err {E A} e.
Arguments Panic {E A} p.

Definition bind {E A B} (x : outcome E A) (f : A -> outcome E B) : outcome E B :=
  match x with
  | Ok a => f a
  | Err e => Err e
  | Panic p => Panic p
  end.

Notation "'let*' x ':=' a 'in' b" := (bind a (fun x => b))
  (at level 200, x pattern, a at level 100, b at level 200).

Definition is_ok {E A} (x : outcome E A) : bool :=
  match x with Ok _ => true | _ => false end.
Definition is_panic {E A} (x : outcome E A) : bool :=
  match x with Panic _ => true | _ => false end.

Definition panic_code (p : panic) : Z :=
  match p with
  | POverflow => 1 | PDivZero => 2 | PIndex => 3
  | PUnwrap => 4 | PUnreachable => 5 | PAssert => 6
  end%Z.
