(* u64 arithmetic as Rust executes it, on Z.  [chk = true] is the dev profile
   (overflow-checks on: overflow panics); [chk = false] is the release profile
   (wrapping).  Division by zero panics in both. *)
From Coq Require Import ZArith Lia.
From EC Require Import Lib.Outcome.
Open Scope Z_scope.

Definition U64 : Z := 18446744073709551616.  (* 2^64 *)
Definition u64_max : Z := 18446744073709551615.
Definition in_u64 (x : Z) : Prop := 0 <= x < U64.
Definition in_u64b (x : Z) : bool := (0 <=? x) && (x <? U64).

Definition wrap (x : Z) : Z := x mod U64.

Definition u64_add {E} (chk : bool) (a b : Z) : outcome E Z :=
  if a + b <? U64 then Ok (a + b) else if chk then Panic POverflow else Ok (wrap (a + b)).
Definition u64_sub {E} (chk : bool) (a b : Z) : outcome E Z :=
  if b <=? a then Ok (a - b) else if chk then Panic POverflow else Ok (wrap (a - b)).
Definition u64_mul {E} (chk : bool) (a b : Z) : outcome E Z :=
  if a * b <? U64 then Ok (a * b) else if chk then Panic POverflow else Ok (wrap (a * b)).
Definition u64_div {E} (a b : Z) : outcome E Z :=
  if b =? 0 then Panic PDivZero else Ok (a / b).
Definition u64_rem {E} (a b : Z) : outcome E Z :=
  if b =? 0 then Panic PDivZero else Ok (a mod b).
Definition u64_checked_add (a b : Z) : option Z :=
  if a + b <? U64 then Some (a + b) else None.
