(* Weights of signer bitmaps over a committee given as a list of weights. *)
From Coq Require Import ZArith List Lia Bool.
Import ListNotations.
Open Scope Z_scope.

Fixpoint weight (ws : list Z) (bm : list bool) : Z :=
  match ws, bm with
  | w :: ws', b :: bm' => (if b then w else 0) + weight ws' bm'
  | _, _ => 0
  end.

Fixpoint total (ws : list Z) : Z :=
  match ws with [] => 0 | w :: ws' => w + total ws' end.

Fixpoint band (a b : list bool) : list bool :=
  match a, b with
  | x :: a', y :: b' => (x && y) :: band a' b'
  | _, _ => []
  end.
Fixpoint bor (a b : list bool) : list bool :=
  match a, b with
  | x :: a', y :: b' => (x || y) :: bor a' b'
  | _, _ => []
  end.
Definition bnot (a : list bool) : list bool := map negb a.

Definition all_pos (ws : list Z) : Prop := Forall (fun w => 0 < w) ws.
