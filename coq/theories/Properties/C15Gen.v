(* C15, translator tie: the refill arithmetic of node/libs/concurrency/src/limiter/mod.rs
   (State::advance and usize_or_max) as regenerated from the source on every run (Gen/Limiter.v) equals
   the hand model Model/Limiter.v (advance, usize_or_max), for all inputs in the types' ranges and both
   profiles.  The async parts of acquire / Permit::drop (waiting, sleeping, the watch channel) are not in
   the translated subset; they stay tied by the correspondence check only. *)
From Coq Require Import ZArith List Lia Bool.
From EC Require Import Lib.Outcome Lib.U64 Lib.RustSem Model.Limiter Gen.Limiter Proofs.GenTac.
Open Scope Z_scope.

Ltac lim_unfold :=
  unfold gen_State_advance, gen_usize_or_max, advance, usize_or_max, usize_sat_add, usize_max, i128_max, i128_min,
         sN_sub, sN_arith, sN_in, uN_try_from, uN_saturating_add, rdebug_assert, rassert in *;
  change (2 ^ 64) with 18446744073709551616 in *;
  change (2 ^ (128 - 1)) with 170141183460469231731687303715884105728 in *.

Theorem C15_generated_usize_or_max : forall (E : Type) chk v, 0 <= v ->
  @gen_usize_or_max E chk v = Ok (usize_or_max v).
Proof.
  intros E chk v Hv. lim_unfold. destruct chk; gen_split; gen_leaf.
Qed.
Print Assumptions C15_generated_usize_or_max.

(* refresh_ticks counts from 0 at Limiter::new and both tick values are i128 *)
Theorem C15_generated_advance : forall (E : Type) chk c s t,
  0 <= rt s <= i128_max -> i128_min <= t <= i128_max -> 0 <= pm s <= usize_max ->
  @gen_State_advance E chk (rt s) (pm s) t (burst c) = Ok (rt (advance c s t), pm (advance c s t)).
Proof.
  intros E chk c s t Hrt Ht Hpm. lim_unfold.
  destruct (t <? rt s) eqn:Hlt; [reflexivity|].
  destruct chk; gen_split; cbn [rt pm]; gen_leaf.
Qed.
Print Assumptions C15_generated_advance.

Example C15_generated_advance_example :
  @gen_State_advance unit true 3 5 10 8 = Ok (10, 8) /\ @gen_State_advance unit true 3 5 2 8 = Ok (3, 5) /\
  @gen_State_advance unit true 3 5 4 8 = Ok (4, 6).
Proof. repeat split. Qed.
