(* C19 — placeholder while the proofs are being written. *)
From Coq Require Import ZArith List.
From EC Require Import Model.Fetch.
Import ListNotations.
Open Scope Z_scope.

Example C19_nonvacuous :
  exists s, run init [EReq 0 5; RIns 0; EPermit 1; EAvail 1 {| a_first := 3; a_last := Some 7 |};
                      AStart 1; AAvail 1; ATake 1] = Some s /\ p_held (s_peers s 1%nat) = [(5, (0%nat, 0%nat))].
Proof. eexists. split; reflexivity. Qed.
