(* C19 — Block fetch requests are never lost and go only to peers that have the block.
   Statements over Model/Fetch.v; proofs in Proofs/FetchProofs.v.
   [reachable s]: s is reached from the initial state by ANY finite list of atomic actions
   (requests, announcements, reservations, accept steps, successes, failures, disconnects,
   cancellations, requester wake-ups; any number of peers and requesters, any interleaving). *)
From Coq Require Import ZArith List.
From EC Require Import Model.Fetch Proofs.FetchProofs Proofs.FetchProgress Proofs.FetchUnique Model.Fetcher Proofs.FetcherProofs.
Import ListNotations.
Open Scope Z_scope.

(* request_conserved: while request() of requester r waits on its att-th completion channel for
   block n, that channel is in exactly one place: in the queue under key n, or owned by a
   connection as a call for block n, or already fired, or already dropped (in the last two cases
   the requester's wake-up is enabled). It is never nowhere: the request is not lost. *)
Theorem C19_request_conserved : forall s r n att, reachable s -> r_st (s_reqs s r) = RWait n att ->
  let c := (r, att) in
  (queued s n c \/ (exists p, held_by s p n c) \/ In c (s_sent s) \/ In c (s_dropped s)) /\
  ~ (queued s n c /\ held_somewhere s c) /\
  ~ (queued s n c /\ (In c (s_sent s) \/ In c (s_dropped s))) /\
  ~ (held_somewhere s c /\ (In c (s_sent s) \/ In c (s_dropped s))) /\
  ~ (In c (s_sent s) /\ In c (s_dropped s)).
Proof. exact request_conserved. Qed.
Print Assumptions C19_request_conserved.

(* no_double_accept: a request (its completion channel) is owned by at most one connection, once. *)
Theorem C19_no_double_accept : forall s p1 n1 p2 n2 c, reachable s ->
  held_by s p1 n1 c -> held_by s p2 n2 c -> p1 = p2 /\ n1 = n2.
Proof. exact no_double_accept. Qed.
Print Assumptions C19_no_double_accept.

Theorem C19_held_entries_distinct : forall s, reachable s -> NoDup (s_held s).
Proof. exact held_entries_distinct. Qed.
Print Assumptions C19_held_entries_distinct.

(* back to the queue: a failed / timed-out call (EFail) or a disconnect (EDisc) drops the channel ... *)
Theorem C19_failure_drops_channel : forall s p i e l' s',
  take_pth p i (s_held s) = Some (e, l') -> step s (EFail p i) = Some s' ->
  In (h_chan e) (s_dropped s') /\ s_held s' = l'.
Proof. exact failure_drops_channel. Qed.
Print Assumptions C19_failure_drops_channel.

Theorem C19_disconnect_drops_all : forall s p s' n c,
  p_alive (s_peers s p) = true -> held_by s p n c -> step s (EDisc p) = Some s' ->
  In c (s_dropped s') /\ (forall n' c', ~ held_by s' p n' c').
Proof. exact disconnect_drops_all. Qed.
Print Assumptions C19_disconnect_drops_all.

(* ... and a requester whose channel was dropped re-inserts its number with its next two moves,
   whatever else happened in between (no side condition on the rest of the state). *)
Theorem C19_dropped_request_requeues : forall s r n att,
  r_st (s_reqs s r) = RWait n att -> In (r, att) (s_dropped s) ->
  exists s1 s2, step s (RWakeDropped r) = Some s1 /\ step s1 (RIns r) = Some s2 /\
    qlookup n (s_q s2) = Some (r, S att) /\ r_st (s_reqs s2 r) = RWait n (S att).
Proof. exact dropped_request_requeues. Qed.
Print Assumptions C19_dropped_request_requeues.

(* only_announced + lowest_first (history form): if connection p owns a call for block n, then at
   some earlier moment sc the range announced by p contained n, and at that moment or before it
   n was the lowest requested number.  [s :: h] lists the states of the execution, latest first. *)
Theorem C19_only_announced_lowest_first : forall h s p n c, hreach h s -> held_by s p n c ->
  exists hs1 sc hs2, s :: h = hs1 ++ sc :: hs2 /\
    contains (p_avail (s_peers sc p)) n = true /\
    exists so, In so (sc :: hs2) /\ qmin (s_q so) = Some n.
Proof. exact handed_only_lowest_and_announced. Qed.
Print Assumptions C19_only_announced_lowest_first.

Theorem C19_histories_are_all_executions : forall s, reachable s <-> exists h, hreach h s.
Proof. intros s. split; [apply reachable_hreach|intros [h H]; eapply hreach_reachable; exact H]. Qed.
Print Assumptions C19_histories_are_all_executions.

(* step forms: the number is chosen only while announced and only the observed one; a call is created
   only by the atomic removal of the chosen number; an observation reads the current lowest key. *)
Theorem C19_chosen_only_if_announced : forall s a s' p n, step s a = Some s' ->
  p_acc (s_peers s' p) = AChosen n ->
  p_acc (s_peers s p) = AChosen n \/
  (a = AAvail p /\ contains (p_avail (s_peers s p)) n = true /\
   exists seen, p_acc (s_peers s p) = AWatch seen (Some n)).
Proof. exact chosen_origin. Qed.
Print Assumptions C19_chosen_only_if_announced.

Theorem C19_held_only_by_take : forall s a s' p n c, step s a = Some s' -> held_by s' p n c ->
  held_by s p n c \/
  (a = ATake p /\ p_acc (s_peers s p) = AChosen n /\ qlookup n (s_q s) = Some c /\
   p_alive (s_peers s p) = true).
Proof. exact held_origin. Qed.
Print Assumptions C19_held_only_by_take.

(* lowest_first (state form): an acceptor that was not signalled since it looked at the queue is
   waiting for the current lowest number, so it cannot choose a higher one while a lower is queued. *)
Theorem C19_lowest_first_fresh : forall s p seen n, reachable s ->
  p_acc (s_peers s p) = AWatch seen (Some n) -> seen = s_ver s -> s_q s <> [] ->
  qmin (s_q s) = Some n.
Proof. exact lowest_first_fresh. Qed.
Print Assumptions C19_lowest_first_fresh.

(* no_lost_wakeup (safety form): whenever the lowest key differs from what a waiting acceptor saw,
   the watch version differs from the one it marked seen, i.e. its changed() is ready.  (The queue
   becoming empty is the one change that is not signalled; it needs no wake-up.) *)
Theorem C19_no_lost_wakeup : forall s p seen m, reachable s ->
  p_acc (s_peers s p) = AWatch seen m ->
  seen <= s_ver s /\ (seen = s_ver s -> s_q s <> [] -> m = qmin (s_q s)).
Proof. exact no_lost_wakeup. Qed.
Print Assumptions C19_no_lost_wakeup.

(* progress_step: the lowest requested number, announced by a live peer whose acceptor is waiting
   (or has a reserved call), is handed to that peer by at most three moves of that acceptor alone. *)
Theorem C19_progress_step : forall s p n, reachable s ->
  qmin (s_q s) = Some n -> p_alive (s_peers s p) = true -> contains (p_avail (s_peers s p)) n = true ->
  ((p_acc (s_peers s p) = AIdle /\ p_permits (s_peers s p) <> O) \/
   exists seen m, p_acc (s_peers s p) = AWatch seen m) ->
  exists l s' c, Forall (acceptor_action p) l /\ run s l = Some s' /\
                 qlookup n (s_q s) = Some c /\ held_by s' p n c.
Proof. exact progress_step. Qed.
Print Assumptions C19_progress_step.

(* Tie between the correspondence check and the theorems: the replayer that reconstructs a model
   execution from the implementation's event log (Model.Fetch.replay_step, used by run_case) only
   takes steps of the model, so every quiescent state the implementation is compared with is a
   reachable state, to which all theorems above apply. *)
Theorem C19_replay_states_reachable : forall s np nr x s' b,
  reachable s -> replay_step s np nr x = ROk s' b -> reachable s'.
Proof. exact replay_step_reachable. Qed.
Print Assumptions C19_replay_states_reachable.

(* ---------------------------------------------------------------------------------------- *)
(* Progress (liveness in bounded form).  [cond p n s]: n is the lowest queued number, connection p
   is alive, announces n and is inside accept_block or has a reserved call.  [pmove p a]: a is a
   move of p's acceptor.  [obumps p s l]: watch version bumps made by anybody else along l.
   [all_cond p n s l]: cond holds in every state of the execution l from s.
   [kfair p k 0 l]: p's acceptor moves at least once in any k consecutive actions of l. *)

(* while the condition holds p's acceptor is never blocked (so weak fairness schedules it) ... *)
Theorem C19_lowest_always_has_a_move : forall p n s, reachable s -> cond p n s ->
  exists a s', pmove p a = true /\ step s a = Some s'.
Proof. exact p_never_stuck. Qed.
Print Assumptions C19_lowest_always_has_a_move.

(* ... and in ANY execution (all other processes and the environment adversarial) it makes at most
   5 moves plus one per version bump by others before the condition ends, i.e. before n leaves the
   queue (handed over / cancelled) or a lower request arrives ... *)
Theorem C19_lowest_served_bounded : forall p n l s s', all_cond p n s l -> run s l = Some s' ->
  (pmoves p l <= 5 + obumps p s l)%nat.
Proof. exact lowest_served_bounded. Qed.
Print Assumptions C19_lowest_served_bounded.

(* ... so under k-bounded fairness the condition cannot last k * (6 + B) steps. *)
Theorem C19_lowest_served_within : forall p n k l s s', all_cond p n s l -> run s l = Some s' ->
  kfair p k 0 l -> (0 < k)%nat -> (length l < k * (6 + obumps p s l))%nat.
Proof. exact lowest_served_within. Qed.
Print Assumptions C19_lowest_served_within.

(* the move that ends it, when it is p's: the call for n is owned by p *)
Theorem C19_take_hands_over : forall p n s s', cond p n s ->
  p_acc (s_peers s p) = AChosen n -> step s (ATake p) = Some s' ->
  exists c, qlookup n (s_q s) = Some c /\ held_by s' p n c /\ qlookup n (s_q s') = None.
Proof. exact p_take_hands_over. Qed.
Print Assumptions C19_take_hands_over.

(* no starvation by higher requests: inserting a number above the lowest one changes neither the
   lowest number, nor the watch version, nor any acceptor *)
Theorem C19_higher_requests_do_not_delay : forall s r m att n0 s',
  r_st (s_reqs s r) = RInsert m att -> qmin (s_q s) = Some n0 -> n0 < m ->
  step s (RIns r) = Some s' ->
  s_ver s' = s_ver s /\ qmin (s_q s') = Some n0 /\
  (forall q, p_acc (s_peers s' q) = p_acc (s_peers s q)).
Proof. exact higher_insert_silent. Qed.
Print Assumptions C19_higher_requests_do_not_delay.

(* after the hand-over: success completes the request (failure: C19_dropped_request_requeues) *)
Theorem C19_held_call_completes : forall s p i e l' r n att,
  take_pth p i (s_held s) = Some (e, l') -> h_chan e = (r, att) ->
  r_st (s_reqs s r) = RWait n att ->
  exists s1 s2, step s (ESucceed p i) = Some s1 /\ step s1 (RWakeSent r) = Some s2 /\
                r_st (s_reqs s2 r) = RDone true.
Proof. exact held_call_completes. Qed.
Print Assumptions C19_held_call_completes.

(* ---------------------------------------------------------------------------------------- *)
(* run_block_fetcher (Model/Fetcher.v).  [freachable limit q0 p0 s]: s is reached by any
   interleaving of fetcher moves, blocks being queued (any route) and blocks being persisted, from
   a fetcher started with max_block_queue_size = limit when queued.next = q0, persisted.next = p0. *)

Theorem C19_fetcher_one_live_request_per_number : forall limit q0 p0 s,
  freachable limit q0 p0 s -> NoDup (live s).
Proof. intros. eapply one_live_request_per_number, freachable_inv; eassumption. Qed.
Print Assumptions C19_fetcher_one_live_request_per_number.

(* every number is requested at most once ever: the numbers for which requests are started along
   any execution are consecutive, increasing *)
Theorem C19_fetcher_requests_consecutive : forall l s s', frun s l = Some s' ->
  f_next s <= f_next s' /\ spawned s l = zrange (f_next s) (Z.to_nat (f_next s' - f_next s)).
Proof. exact spawned_consecutive. Qed.
Print Assumptions C19_fetcher_requests_consecutive.

(* live requests stay inside the window of `limit` numbers above the persisted head *)
Theorem C19_fetcher_window : forall limit q0 p0 s n, freachable limit q0 p0 s -> In n (live s) ->
  f_start s <= n < Z.max (f_pnext s) (f_start s) + Z.of_nat (f_limit s).
Proof. intros. eapply live_in_window; [eapply freachable_inv; eassumption|assumption]. Qed.
Print Assumptions C19_fetcher_window.

(* a request for a number that got queued by another route is cancelled by an enabled move ... *)
Theorem C19_fetcher_cancels_queued : forall limit q0 p0 s n, freachable limit q0 p0 s ->
  In n (live s) -> n < f_qnext s ->
  exists s', fstep s (FQueued n) = Some s' /\ ~ In n (live s').
Proof. intros. eapply queued_number_request_is_cancelled; [eapply freachable_inv; eassumption|assumption|assumption]. Qed.
Print Assumptions C19_fetcher_cancels_queued.

(* ... so at rest there is exactly one live request for each number that is not yet queued inside
   [persisted.next, persisted.next + limit), and none for a queued number *)
Theorem C19_fetcher_at_rest : forall limit q0 p0 s, freachable limit q0 p0 s -> fquiescent s ->
  (0 < f_limit s)%nat ->
  f_next s = Z.max (f_pnext s) (f_start s) + Z.of_nat (f_limit s) /\
  forall n, In n (live s) <-> f_qnext s <= n < f_next s.
Proof. intros. eapply quiescent_requests_exact; [eapply freachable_inv; eassumption|assumption|assumption]. Qed.
Print Assumptions C19_fetcher_at_rest.

(* link between the two models: [oreach s] = reachable when the environment starts a request for n
   only while nobody requests n (what run_block_fetcher guarantees: C19_fetcher_requests_consecutive,
   each number is requested once).  Then `request` never overrides an entry and a cancellation
   removes only its own entry, i.e. the documented "unsupported" case cannot arise. *)
Theorem C19_no_override_under_fetcher_contract : forall s r n att, oreach s ->
  r_st (s_reqs s r) = RInsert n att -> qlookup n (s_q s) = None.
Proof. exact no_override. Qed.
Print Assumptions C19_no_override_under_fetcher_contract.

Theorem C19_cancel_removes_own_entry_only : forall s r n att c, oreach s ->
  r_st (s_reqs s r) = RWait n att -> qlookup n (s_q s) = Some c -> c = (r, att).
Proof. exact cancel_removes_own_entry_only. Qed.
Print Assumptions C19_cancel_removes_own_entry_only.

(* tie: the simulation compared with the real run_block_fetcher only takes steps of the model and
   stops in a state where no fetcher move is enabled *)
Theorem C19_fetcher_sim_sound : forall s s', sim_step s = Some s' -> exists a, fstep (fs s) a = Some (fs s').
Proof. exact sim_step_is_fstep. Qed.
Print Assumptions C19_fetcher_sim_sound.
Theorem C19_fetcher_sim_rest : forall fuel s s', finv (fs s) -> Fetcher.settle fuel s = (s', true) -> fquiescent (fs s').
Proof. exact settle_quiescent. Qed.
Print Assumptions C19_fetcher_sim_rest.

Example C19_fetcher_nonvacuous :
  match frun (finit 3 5 5) [FSpawn; FSpawn; FSpawn; EQueue; FQueued 5; EQueue; FQueued 6; EPersist; FDone 5; FSpawn] with
  | Some s => live s = [7; 8] /\ f_next s = 9 /\ f_qnext s = 7 /\ f_pnext s = 6
  | None => False
  end.
Proof. vm_compute. repeat split. Qed.

(* override_documented: "concurrent calls for the same resource number are unsupported - second call
   will override the first call".  Two requesters for block 5 can knock each other out of the queue
   forever without any peer ever being involved: after each cycle both are where they were, with
   higher attempt numbers (shown for two rounds). *)
Definition cyc := [RIns 1; RWakeDropped 0; RIns 0; RWakeDropped 1].
Example C19_override_livelock :
  match run init [EReq 0 5; EReq 1 5; RIns 0] with
  | Some s1 =>
      r_st (s_reqs s1 0%nat) = RWait 5 0 /\ r_st (s_reqs s1 1%nat) = RInsert 5 0 /\
      match run s1 (cyc ++ cyc) with
      | Some s2 => r_st (s_reqs s2 0%nat) = RWait 5 2 /\ r_st (s_reqs s2 1%nat) = RInsert 5 2 /\
                   s_held s2 = [] /\ s_sent s2 = []
      | None => False
      end
  | None => False
  end.
Proof. vm_compute. repeat split. Qed.

(* Non-vacuity: a request is handed to a peer that announced it, the peer fails, the request returns
   to the queue, another peer that announced it takes it and completes it. *)
Example C19_nonvacuous :
  match run init
    [EReq 0 5; RIns 0; EPermit 1; EAvail 1 {| a_first := 3; a_last := Some 7 |};
     AStart 1; AAvail 1; ATake 1; EFail 1 0; RWakeDropped 0; RIns 0;
     EPermit 2; EAvail 2 {| a_first := 5; a_last := Some 5 |}; AStart 2; AAvail 2; ATake 2;
     ESucceed 2 0; RWakeSent 0] with
  | Some s =>
    r_st (s_reqs s 0%nat) = RDone true /\ s_q s = [] /\ s_held s = [] /\
    s_dropped s = [(0%nat, 0%nat)] /\ s_sent s = [(0%nat, 1%nat)]
  | None => False
  end.
Proof. vm_compute. repeat split. Qed.
