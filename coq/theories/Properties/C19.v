(* C19 — Block fetch requests are never lost and go only to peers that have the block.
   Statements over Model/Fetch.v; proofs in Proofs/FetchProofs.v.
   [reachable s]: s is reached from the initial state by ANY finite list of atomic actions
   (requests, announcements, reservations, accept steps, successes, failures, disconnects,
   cancellations, requester wake-ups; any number of peers and requesters, any interleaving). *)
From Coq Require Import ZArith List.
From EC Require Import Model.Fetch Proofs.FetchProofs.
Import ListNotations.
Open Scope Z_scope.

(* request_conserved: while request() of requester r waits on its att-th completion channel for
   block n, that channel is in exactly one place: in the queue under key n, or owned by a
   connection as a call for block n, or already fired, or already dropped (in the last two cases
   the requester's wake-up is enabled). It is never nowhere: the request is not lost. *)
Theorem C19_request_conserved : forall s r n att, reachable s -> r_st (s_reqs s r) = RWait n att ->
  let c := (r, att) in
  (queued s n c \/ (exists p, held_by s p n c) \/ In c (s_sent s) \/ In c (s_dropped s)) /\
  ~ (queued s n c /\ held_somewhere s c) /\
  ~ (queued s n c /\ (In c (s_sent s) \/ In c (s_dropped s))) /\
  ~ (held_somewhere s c /\ (In c (s_sent s) \/ In c (s_dropped s))) /\
  ~ (In c (s_sent s) /\ In c (s_dropped s)).
Proof. exact request_conserved. Qed.
Print Assumptions C19_request_conserved.

(* no_double_accept: a request (its completion channel) is owned by at most one connection, once. *)
Theorem C19_no_double_accept : forall s p1 n1 p2 n2 c, reachable s ->
  held_by s p1 n1 c -> held_by s p2 n2 c -> p1 = p2 /\ n1 = n2.
Proof. exact no_double_accept. Qed.
Print Assumptions C19_no_double_accept.

Theorem C19_held_entries_distinct : forall s, reachable s -> NoDup (s_held s).
Proof. exact held_entries_distinct. Qed.
Print Assumptions C19_held_entries_distinct.

(* back to the queue: a failed / timed-out call (EFail) or a disconnect (EDisc) drops the channel ... *)
Theorem C19_failure_drops_channel : forall s p i e l' s',
  take_pth p i (s_held s) = Some (e, l') -> step s (EFail p i) = Some s' ->
  In (h_chan e) (s_dropped s') /\ s_held s' = l'.
Proof. exact failure_drops_channel. Qed.
Print Assumptions C19_failure_drops_channel.

Theorem C19_disconnect_drops_all : forall s p s' n c,
  p_alive (s_peers s p) = true -> held_by s p n c -> step s (EDisc p) = Some s' ->
  In c (s_dropped s') /\ (forall n' c', ~ held_by s' p n' c').
Proof. exact disconnect_drops_all. Qed.
Print Assumptions C19_disconnect_drops_all.

(* ... and a requester whose channel was dropped re-inserts its number with its next two moves,
   whatever else happened in between (no side condition on the rest of the state). *)
Theorem C19_dropped_request_requeues : forall s r n att,
  r_st (s_reqs s r) = RWait n att -> In (r, att) (s_dropped s) ->
  exists s1 s2, step s (RWakeDropped r) = Some s1 /\ step s1 (RIns r) = Some s2 /\
    qlookup n (s_q s2) = Some (r, S att) /\ r_st (s_reqs s2 r) = RWait n (S att).
Proof. exact dropped_request_requeues. Qed.
Print Assumptions C19_dropped_request_requeues.

(* only_announced + lowest_first (history form): if connection p owns a call for block n, then at
   some earlier moment sc the range announced by p contained n, and at that moment or before it
   n was the lowest requested number.  [s :: h] lists the states of the execution, latest first. *)
Theorem C19_only_announced_lowest_first : forall h s p n c, hreach h s -> held_by s p n c ->
  exists hs1 sc hs2, s :: h = hs1 ++ sc :: hs2 /\
    contains (p_avail (s_peers sc p)) n = true /\
    exists so, In so (sc :: hs2) /\ qmin (s_q so) = Some n.
Proof. exact handed_only_lowest_and_announced. Qed.
Print Assumptions C19_only_announced_lowest_first.

Theorem C19_histories_are_all_executions : forall s, reachable s <-> exists h, hreach h s.
Proof. intros s. split; [apply reachable_hreach|intros [h H]; eapply hreach_reachable; exact H]. Qed.
Print Assumptions C19_histories_are_all_executions.

(* step forms: the number is chosen only while announced and only the observed one; a call is created
   only by the atomic removal of the chosen number; an observation reads the current lowest key. *)
Theorem C19_chosen_only_if_announced : forall s a s' p n, step s a = Some s' ->
  p_acc (s_peers s' p) = AChosen n ->
  p_acc (s_peers s p) = AChosen n \/
  (a = AAvail p /\ contains (p_avail (s_peers s p)) n = true /\
   exists seen, p_acc (s_peers s p) = AWatch seen (Some n)).
Proof. exact chosen_origin. Qed.
Print Assumptions C19_chosen_only_if_announced.

Theorem C19_held_only_by_take : forall s a s' p n c, step s a = Some s' -> held_by s' p n c ->
  held_by s p n c \/
  (a = ATake p /\ p_acc (s_peers s p) = AChosen n /\ qlookup n (s_q s) = Some c /\
   p_alive (s_peers s p) = true).
Proof. exact held_origin. Qed.
Print Assumptions C19_held_only_by_take.

(* lowest_first (state form): an acceptor that was not signalled since it looked at the queue is
   waiting for the current lowest number, so it cannot choose a higher one while a lower is queued. *)
Theorem C19_lowest_first_fresh : forall s p seen n, reachable s ->
  p_acc (s_peers s p) = AWatch seen (Some n) -> seen = s_ver s -> s_q s <> [] ->
  qmin (s_q s) = Some n.
Proof. exact lowest_first_fresh. Qed.
Print Assumptions C19_lowest_first_fresh.

(* no_lost_wakeup (safety form): whenever the lowest key differs from what a waiting acceptor saw,
   the watch version differs from the one it marked seen, i.e. its changed() is ready.  (The queue
   becoming empty is the one change that is not signalled; it needs no wake-up.) *)
Theorem C19_no_lost_wakeup : forall s p seen m, reachable s ->
  p_acc (s_peers s p) = AWatch seen m ->
  seen <= s_ver s /\ (seen = s_ver s -> s_q s <> [] -> m = qmin (s_q s)).
Proof. exact no_lost_wakeup. Qed.
Print Assumptions C19_no_lost_wakeup.

(* progress_step: the lowest requested number, announced by a live peer whose acceptor is waiting
   (or has a reserved call), is handed to that peer by at most three moves of that acceptor alone. *)
Theorem C19_progress_step : forall s p n, reachable s ->
  qmin (s_q s) = Some n -> p_alive (s_peers s p) = true -> contains (p_avail (s_peers s p)) n = true ->
  ((p_acc (s_peers s p) = AIdle /\ p_permits (s_peers s p) <> O) \/
   exists seen m, p_acc (s_peers s p) = AWatch seen m) ->
  exists l s' c, Forall (acceptor_action p) l /\ run s l = Some s' /\
                 qlookup n (s_q s) = Some c /\ held_by s' p n c.
Proof. exact progress_step. Qed.
Print Assumptions C19_progress_step.

(* Tie between the correspondence check and the theorems: the replayer that reconstructs a model
   execution from the implementation's event log (Model.Fetch.replay_step, used by run_case) only
   takes steps of the model, so every quiescent state the implementation is compared with is a
   reachable state, to which all theorems above apply. *)
Theorem C19_replay_states_reachable : forall s np nr x s' b,
  reachable s -> replay_step s np nr x = ROk s' b -> reachable s'.
Proof. exact replay_step_reachable. Qed.
Print Assumptions C19_replay_states_reachable.

(* override_documented: "concurrent calls for the same resource number are unsupported - second call
   will override the first call".  Two requesters for block 5 can knock each other out of the queue
   forever without any peer ever being involved: after each cycle both are where they were, with
   higher attempt numbers (shown for two rounds). *)
Definition cyc := [RIns 1; RWakeDropped 0; RIns 0; RWakeDropped 1].
Example C19_override_livelock :
  match run init [EReq 0 5; EReq 1 5; RIns 0] with
  | Some s1 =>
      r_st (s_reqs s1 0%nat) = RWait 5 0 /\ r_st (s_reqs s1 1%nat) = RInsert 5 0 /\
      match run s1 (cyc ++ cyc) with
      | Some s2 => r_st (s_reqs s2 0%nat) = RWait 5 2 /\ r_st (s_reqs s2 1%nat) = RInsert 5 2 /\
                   s_held s2 = [] /\ s_sent s2 = []
      | None => False
      end
  | None => False
  end.
Proof. vm_compute. repeat split. Qed.

(* Non-vacuity: a request is handed to a peer that announced it, the peer fails, the request returns
   to the queue, another peer that announced it takes it and completes it. *)
Example C19_nonvacuous :
  match run init
    [EReq 0 5; RIns 0; EPermit 1; EAvail 1 {| a_first := 3; a_last := Some 7 |};
     AStart 1; AAvail 1; ATake 1; EFail 1 0; RWakeDropped 0; RIns 0;
     EPermit 2; EAvail 2 {| a_first := 5; a_last := Some 5 |}; AStart 2; AAvail 2; ATake 2;
     ESucceed 2 0; RWakeSent 0] with
  | Some s =>
    r_st (s_reqs s 0%nat) = RDone true /\ s_q s = [] /\ s_held s = [] /\
    s_dropped s = [(0%nat, 0%nat)] /\ s_sent s = [(0%nat, 1%nat)]
  | None => False
  end.
Proof. vm_compute. repeat split. Qed.
