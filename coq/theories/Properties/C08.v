(* C08 — The block store is a verified, gap-free, append-only chain.
   Statements only; proofs are in Proofs/BlockStoreProofs.v.

   Quantifier.  [ss] is any list of atomic steps (Model/BlockStore.v: Call / Wake / Push /
   Cancel of any number of concurrent queue_block callers with any blocks — in order, out of
   order, duplicated, invalid; EnvPersist of any durable range — completion, lagging,
   overtaking side-channel jump, pruning, backfill, regress; Observe / Submit / SubmitDone of
   the two runner tasks; Restart from the durable state), any capacity, any first_block, any
   epoch map.  [step_sane] only asks that the ranges published by the persistence layer are
   ranges (0 <= first <= last + 1; H-ENG); [start_ok] is EngineManager::new's own check. *)
From Coq Require Import ZArith List Bool Lia.
From EC Require Import Lib.Outcome Lib.Obs Model.BlockStore Proofs.BlockStoreProofs.
Import ListNotations.
Open Scope Z_scope.

Definition reachable (c : cfg) (m : mstate) : Prop :=
  exists p0 ss, start_ok p0 /\ Forall step_sane ss /\ m = run c (init_state p0) ss.

Lemma reachable_minv : forall c m, reachable c m -> minv c m.
Proof. intros c m (p0 & ss & H0 & Hs & ->). apply store_inv_run; assumption. Qed.

(* store_inv: the cache holds consecutive numbers ending at queued.last, starts at or
   below the durable head + 1, is empty only when nothing is waiting for persistence,
   the durable range never runs ahead of / starts above the queued range, and the cache
   exceeds its capacity only by the backlog of unpersisted blocks. *)
Theorem C08_store_inv : forall c m, reachable c m ->
  let s := ms m in
  let k := qnext s - Z.of_nat (length (cache s)) in
  (forall i b, nth_error (cache s) i = Some b -> bnum b = k + Z.of_nat i) /\
  (cache s <> [] -> blast (queued s) = Some (qnext s - 1)) /\
  k <= pnext s /\
  (cache s = [] -> qnext s = pnext s) /\
  pnext s <= qnext s /\
  bfirst (persisted s) <= bfirst (queued s) /\
  Z.of_nat (length (cache s)) <= Z.of_nat (cap c) + (qnext s - pnext s) /\
  (forall b, In b (cache s) -> verified c b = true).
Proof. intros c m H. apply sinv_explicit. apply (mi_store _ _ (reachable_minv c m H)). Qed.
Print Assumptions C08_store_inv.

(* only_verified: whatever the store holds, serves or hands to persistence passed the
   verification prefix of queue_block: an external justification accepted for a number
   below first_block, or a certificate that verifies under the committee of the block's
   own epoch. *)
Theorem C08_only_verified : forall c m, reachable c m ->
  forall b, (In b (cache (ms m)) \/ (exists pn, In (b, pn) (log m)) \/
             (exists id, In (id, b) (waiting m) \/ In (id, b) (ready m))) ->
  (bkd b = KPre /\ bnum b < first_block c /\ bgood b = true) \/
  (bkd b = KFinal /\ In (bepoch b, bsched b) (epochs c) /\ bgood b = true).
Proof.
  intros c m H b Hb. apply verified_spec. pose proof (reachable_minv c m H) as I.
  destruct Hb as [Hb|[[pn Hb]|[id [Hb|Hb]]]].
  - pose proof (i_ver _ _ (mi_store _ _ I)) as Hv. rewrite Forall_forall in Hv. exact (Hv _ Hb).
  - exact (log_entries_verified c m I b pn Hb).
  - pose proof (mi_wait _ _ I) as Hv. unfold calls_ok in Hv. rewrite Forall_forall in Hv. exact (Hv _ Hb).
  - pose proof (mi_ready _ _ I) as Hv. unfold calls_ok in Hv. rewrite Forall_forall in Hv. exact (Hv _ Hb).
Qed.
Print Assumptions C08_only_verified.

(* append_only (1): a step of anybody other than a process restart keeps every accepted
   block that is not yet persisted, under its number, unchanged. *)
Theorem C08_append_only_step : forall c m s n x, reachable c m -> step_sane s -> not_restart s ->
  sblock (cache (ms m)) n = Some x -> pnext (ms (mstep c m s)) <= n ->
  sblock (cache (ms (mstep c m s))) n = Some x.
Proof. intros c m s n x H _. apply step_keeps. apply reachable_minv. exact H. Qed.
Print Assumptions C08_append_only_step.

(* append_only (2): within one incarnation no number is ever given a different block,
   however many steps lie in between (eviction, reset by overtaking and re-push included). *)
Theorem C08_no_substitution : forall c m ss n x y, reachable c m -> Forall step_sane ss ->
  Forall not_restart ss ->
  sblock (cache (ms m)) n = Some x -> sblock (cache (ms (run c m ss))) n = Some y -> x = y.
Proof. intros c m ss n x y H. apply no_substitution_run. apply reachable_minv. exact H. Qed.
Print Assumptions C08_no_substitution.

(* queued.next never decreases within an incarnation: the wait_for guard of a parked
   queue_block call, once true, stays true until its try_push. *)
Theorem C08_queued_next_monotone : forall c m ss, reachable c m -> Forall step_sane ss ->
  Forall not_restart ss -> qnext (ms m) <= qnext (ms (run c m ss)).
Proof. intros c m ss H. apply run_qnext. apply reachable_minv. exact H. Qed.
Print Assumptions C08_queued_next_monotone.

(* submit_gap_free: only Submit hands blocks to persistence; the block handed over is the
   cached (verified) block of that number, and its number is the store's persisted.next at
   that moment or the previous submission's number + 1.  Hence the whole call history
   (all incarnations) is gap free in that sense. *)
Theorem C08_submit_step : forall c m, reachable c m ->
  (forall s, s <> Submit -> log (mstep c m s) = log m) /\
  (log (mstep c m Submit) = log m \/
   exists b, log (mstep c m Submit) = (b, pnext (ms m)) :: log m /\
             ms (mstep c m Submit) = ms m /\
             sblock (cache (ms m)) (bnum b) = Some b /\ verified c b = true /\
             (bnum b = pnext (ms m) \/
              exists b' pn' l', log m = (b', pn') :: l' /\ bnum b = bnum b' + 1)).
Proof.
  intros c m H. split; [intros s; apply log_only_submit|].
  apply submit_effect. apply reachable_minv. exact H.
Qed.
Print Assumptions C08_submit_step.

Theorem C08_submit_gap_free : forall c m, reachable c m ->
  forall pre b pn rest, log m = pre ++ (b, pn) :: rest ->
  bnum b = pn \/ exists b' pn' rest', rest = (b', pn') :: rest' /\ bnum b = bnum b' + 1.
Proof.
  intros c m H pre b pn rest Hl. apply (log_ok_split pre b pn rest). rewrite <- Hl.
  apply (mi_log _ _ (reachable_minv c m H)).
Qed.
Print Assumptions C08_submit_gap_free.

(* progress of the hand-over: while the runner is alive and not inside queue_next_block, an
   accepted block that is neither submitted nor persisted is always submittable next — the
   persister never waits for a number the queue will not produce. *)
Theorem C08_submit_enabled : forall c m, reachable c m -> alive m = true -> parked m = false ->
  submit_target m <= qnext (ms m) /\
  (submit_target m < qnext (ms m) ->
   exists b, sblock (cache (ms m)) (submit_target m) = Some b /\ bnum b = submit_target m /\
             log (mstep c m Submit) = (b, pnext (ms m)) :: log m).
Proof.
  intros c m H Ha Hp. pose proof (reachable_minv c m H) as I. split.
  - exact (submit_target_le c m I).
  - exact (submit_enabled c m I Ha Hp).
Qed.
Print Assumptions C08_submit_enabled.

(* readable_until_pruned (1): a number reported by queued() is answered from the cache with
   the verified block of that number, or falls through to persistent storage only inside
   the durable range the store has seen (where the interface promises the block). *)
Theorem C08_readable : forall c m n, reachable c m -> bs_contains (queued (ms m)) n = true ->
  match get_block m n with
  | RNone => False
  | RCache b => bnum b = n /\ verified c b = true
  | RDurable k => k = n /\ bs_contains (persisted (ms m)) n = true
  end.
Proof.
  intros c m n H Hn. pose proof (get_block_spec c m n (reachable_minv c m H)) as G.
  destruct (get_block m n).
  - rewrite Hn in G. discriminate.
  - tauto.
  - tauto.
Qed.
Print Assumptions C08_readable.

(* readable_until_pruned (2): a reported number stays reported until the persistence
   layer prunes it (raises its first block above it) — or the process restarts. *)
Theorem C08_reported_until_pruned : forall c m s n, reachable c m -> step_sane s -> not_restart s ->
  bs_contains (queued (ms m)) n = true ->
  bs_contains (queued (ms (mstep c m s))) n = true \/ n < bfirst (persisted (ms (mstep c m s))).
Proof. intros c m s n H _. apply step_contains. apply reachable_minv. exact H. Qed.
Print Assumptions C08_reported_until_pruned.

(* glue (gossip/runner.rs): a fetched block reaches queue_block only under the number
   that was requested. *)
Theorem C08_peer_block_number_checked : forall req b, fetch_accept req b = true -> bnum b = req.
Proof. exact fetch_accept_number. Qed.
Print Assumptions C08_peer_block_number_checked.

(* Non-vacuity: a concrete history — blocks 3,4 queued out of order by two callers with an
   invalid competitor, persistence lagging, then a restart — is reachable, fills the cache,
   and produces a two-entry submission log. *)
Example C08_nonvacuous :
  let c := {| cap := 2; first_block := 3; epochs := [(0, 0)] |} in
  let b3 := {| bnum := 3; bidx := 0; bkd := KFinal; bepoch := 0; bsched := 0; bgood := true |} in
  let b4 := {| bnum := 4; bidx := 1; bkd := KFinal; bepoch := 0; bsched := 0; bgood := true |} in
  let bad := {| bnum := 3; bidx := 2; bkd := KFinal; bepoch := 0; bsched := 1; bgood := true |} in
  let ss := [Call 1 b4; Call 2 bad; Wake 1; Call 3 b3; Wake 3; Push 3; Submit; Wake 1; Push 1;
             SubmitDone; Submit; EnvPersist {| bfirst := 3; blast := Some 3 |}; Observe] in
  let m := run c (init_state {| bfirst := 3; blast := None |}) ss in
  reachable c m /\ cache (ms m) = [b3; b4] /\ map fst (log m) = [b4; b3] /\
  get_block m 4 = RCache b4 /\ bs_contains (queued (ms m)) 4 = true /\
  cache (ms (mstep c m Restart)) = [].
Proof.
  cbv zeta. split.
  - eexists _, _. split; [|split; [|reflexivity]].
    + split; [reflexivity | discriminate].
    + repeat constructor; cbn; lia.
  - vm_compute. repeat split; reflexivity.
Qed.
