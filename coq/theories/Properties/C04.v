(* C04 — Certificates are accepted exactly when genuinely backed by a quorum.
   Statements only (proofs: Proofs/QCProofs.v).  Signatures are symbolic (H-SIG): the
   aggregate is the multiset of (signer, message) pairs aggregated into it. *)
From Coq Require Import ZArith List Permutation.
From EC Require Import Lib.Outcome Lib.ListW Model.Msgs Proofs.QCProofs.
Import ListNotations.
Open Scope Z_scope.

(* commit certificate: every committee, bitmap (any length), field values and aggregate *)
Theorem C04_commit_certificate : forall g e C q,
  cqc_verify g e C q = Ok tt <->
  view_ok g e (cview (qmsg q)) /\ length (qsigners q) = length C /\
  quorum C <= weight (cweights C) (qsigners q) /\ Permutation (qagg q) (cqc_claimed C q).
Proof. exact cqc_verify_iff. Qed.
Print Assumptions C04_commit_certificate.

(* a timeout vote verifies iff its view, its high vote's view and its nested certificate do *)
Theorem C04_timeout_vote : forall g e C t,
  timeout_verify g e C t = Ok tt <->
  view_ok g e (tview t) /\
  (forall v, thv t = Some v -> view_ok g e (cview v)) /\
  (forall q, thq t = Some q -> cqc_verify g e C q = Ok tt).
Proof. exact timeout_verify_iff. Qed.
Print Assumptions C04_timeout_vote.

(* timeout certificate *)
Theorem C04_timeout_certificate : forall g e C t,
  tqc_verify g e C t = Ok tt <->
  view_ok g e (tqview t) /\
  Forall (entry_ok g e C (tqview t)) (tqmap t) /\
  ForallOrdPairs disjoint (map snd (tqmap t)) /\
  quorum C <= weight (cweights C) (union_from (bv_new (length C)) (tqmap t)) /\
  Permutation (tqagg t) (tqc_claimed C (tqmap t)).
Proof. exact tqc_verify_iff. Qed.
Print Assumptions C04_timeout_certificate.

(* finalized block: payload hashes to the certified header and the certificate verifies *)
Theorem C04_final_block : forall g e C p q,
  final_block_verify g e C p q = Ok tt <-> p = hpay (cprop (qmsg q)) /\ cqc_verify g e C q = Ok tt.
Proof. exact final_block_verify_iff. Qed.
Print Assumptions C04_final_block.

(* proposal / new-view: accepted iff the justification certificate is *)
Theorem C04_proposal_and_new_view : forall g e C j,
  justification_verify g e C j = Ok tt <->
  match j with
  | JCommit q => cqc_verify g e C q = Ok tt
  | JTimeout t => tqc_verify g e C t = Ok tt
  end.
Proof. exact justification_verify_iff. Qed.
Print Assumptions C04_proposal_and_new_view.

(* adding a vote: accepted iff member, not yet a signer, valid signature, same vote, this chain *)
Theorem C04_add_vote : forall g e C q s q', length (qsigners q) = length C ->
  (cqc_add g e C q s = Ok q' <->
   exists i, cindex C (skey s) = Some i /\ nth_error (qsigners q) i = Some false /\
     sig_valid_commit s /\ qmsg q = smsg s /\ view_ok g e (cview (smsg s)) /\
     q' = {| qmsg := qmsg q; qsigners := bv_set (qsigners q) i; qagg := qagg q ++ [ssig s] |}).
Proof. exact cqc_add_ok_iff. Qed.
Print Assumptions C04_add_vote.

(* every certificate assembled from any sequence of signed votes (refused ones skipped) carries
   exactly the accepted members' signatures and verifies iff they reach the quorum *)
Theorem C04_assembled_certificate_verifies : forall g e C m votes,
  let q := cqc_assemble g e C (cqc_new m C) votes in
  cqc_inv C q /\ qmsg q = m /\
  (cqc_verify g e C q = Ok tt <->
   view_ok g e (cview m) /\ quorum C <= weight (cweights C) (qsigners q)).
Proof. exact cqc_assembled_verifies. Qed.
Print Assumptions C04_assembled_certificate_verifies.

(* verification never panics, whatever the certificate (feeds C10) *)
Theorem C04_verify_never_panics : forall g e C j, is_panic (justification_verify g e C j) = false.
Proof. exact justification_verify_no_panic. Qed.
Print Assumptions C04_verify_never_panics.
Theorem C04_add_never_panics : forall g e C q s, length (qsigners q) = length C ->
  is_panic (cqc_add g e C q s) = false.
Proof. exact cqc_add_no_panic. Qed.
Print Assumptions C04_add_never_panics.

(* The assembly theorem for timeout certificates; proved in Properties/C04Tqc.v
   (C04_full_timeout_assembly_proved), kept here as the named full statement. *)
Definition C04_full_timeout_assembly : Prop := forall g e C v votes,
  let t := fold_left (fun t s => match tqc_add g e C t s with Ok t' => t' | _ => t end) votes (tqc_new v) in
  Permutation (tqagg t) (tqc_claimed C (tqmap t)) /\
  (tqc_verify g e C t = Ok tt <->
   view_ok g e v /\ quorum C <= weight (cweights C) (union_from (bv_new (length C)) (tqmap t))).

(* Non-vacuity: 4 validators of weight 1 (f = 0, q = 4); certificate signed by all. *)
Example C04_nonvacuous :
  let C := [{| mkey := 0; mweight := 1 |}; {| mkey := 1; mweight := 1 |};
            {| mkey := 2; mweight := 1 |}; {| mkey := 3; mweight := 1 |}] in
  let m := {| cview := {| vgen := 7; vepoch := 0; vnum := 5 |}; cprop := {| hnum := 3; hpay := 9 |} |} in
  let q := {| qmsg := m; qsigners := [true; true; true; true];
              qagg := [(2, RCommit m); (0, RCommit m); (3, RCommit m); (1, RCommit m)] |} in
  cqc_verify 7 0 C q = Ok tt /\
  cqc_verify 7 0 C {| qmsg := m; qsigners := [true; true; true; false]; qagg := [(2, RCommit m); (0, RCommit m); (1, RCommit m)] |}
    = Err CNotEnoughWeight /\
  cqc_verify 7 0 C {| qmsg := m; qsigners := [true; true; true; true]; qagg := [(2, RCommit m); (0, RCommit m); (3, RCommit m); (3, RCommit m)] |}
    = Err CBadSignature.
Proof. cbv zeta. repeat split; vm_compute; reflexivity. Qed.
