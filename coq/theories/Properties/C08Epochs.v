(* C08, dynamic validator schedules — the epoch-schedule map, its updater task, and what
   queue_block checks a certificate against.  Statements only; proofs are in
   Proofs/EpochScheduleProofs.v (which reuses Proofs/BlockStoreProofs.v through a refinement).

   Quantifier.  [ks] is any list of steps of Model/EpochSchedule.v: every block-store step of
   Properties/C08.v (run under the epoch map of that moment), durable ranges published with the
   epoch of their head, and the updater task's steps UWake / UInit sched act / UTick answer with
   ARBITRARY answers of the execution layer, except ([ksane]): published ranges are ranges, and a
   pending schedule activates after the (positive) block it was asked about. *)
From Coq Require Import ZArith List Bool Lia.
From EC Require Import Lib.Outcome Lib.Obs Model.BlockStore Model.EpochSchedule
  Proofs.BlockStoreProofs Proofs.EpochScheduleProofs.
Import ListNotations.
Open Scope Z_scope.

(* The block store keeps its invariant while the epoch map changes under it (same statement as
   C08_store_inv; "verified" now means: against some schedule the map has held, see below). *)
Theorem C08_dyn_store_inv : forall c d, dreachable c d ->
  let s := ms (dm d) in
  let k := qnext s - Z.of_nat (length (cache s)) in
  (forall i b, nth_error (cache s) i = Some b -> bnum b = k + Z.of_nat i) /\
  (cache s <> [] -> blast (queued s) = Some (qnext s - 1)) /\
  k <= pnext s /\
  (cache s = [] -> qnext s = pnext s) /\
  pnext s <= qnext s /\
  bfirst (persisted s) <= bfirst (queued s) /\
  Z.of_nat (length (cache s)) <= Z.of_nat (dcap c) + (qnext s - pnext s) /\
  (forall b, In b (cache s) -> verified (cseen c d) b = true).
Proof.
  intros c d H. apply (sinv_explicit (cseen c d)). apply (mi_store _ _ (di_m _ _ (dreachable_inv c d H))).
Qed.
Print Assumptions C08_dyn_store_inv.

(* gap-free hand-over, unchanged *)
Theorem C08_dyn_submit_gap_free : forall c d, dreachable c d ->
  forall pre b pn rest, log (dm d) = pre ++ (b, pn) :: rest ->
  bnum b = pn \/ exists b' pn' rest', rest = (b', pn') :: rest' /\ bnum b = bnum b' + 1.
Proof.
  intros c d H pre b pn rest Hl. apply (log_ok_split pre b pn rest). rewrite <- Hl.
  apply (mi_log _ _ (di_m _ _ (dreachable_inv c d H))).
Qed.
Print Assumptions C08_dyn_submit_gap_free.

(* What queue_block checks at the moment of the call: an accepted FinalV2 block carries a
   certificate that verifies under the committee stored, at that moment, under the epoch
   number written in the certificate itself.  Nothing relates that epoch to the block's number. *)
Theorem C08_dyn_call_checked : forall c d id b,
  dm (dstep c d (DS (Call id b))) <> dm d ->
  (bkd b = KPre /\ bnum b < dfirst_block c /\ bgood b = true) \/
  (bkd b = KFinal /\ bgood b = true /\
   exists x, In x (emap d) /\ e_epoch x = bepoch b /\ e_sched x = bsched b).
Proof.
  intros c d id b H. apply call_accepts in H. apply verified_spec in H.
  destruct H as [H|(H1 & H2 & H3)]; [left; exact H|]. right. repeat split; try assumption.
  apply em_view_In. exact H2.
Qed.
Print Assumptions C08_dyn_call_checked.

(* only_verified over a history: every block the store holds, serves, hands over or has parked
   is pre-genesis-justified, or carries a certificate verifying under a committee that the map
   held under the certificate's epoch at some earlier point of this very run. *)
Theorem C08_dyn_only_verified : forall c p0 e0 ks, start_ok p0 -> drun_sane c (dinit c p0 e0) ks ->
  let d := drun c (dinit c p0 e0) ks in
  forall b, (In b (cache (ms (dm d))) \/ (exists pn, In (b, pn) (log (dm d))) \/
             (exists id, In (id, b) (waiting (dm d)) \/ In (id, b) (ready (dm d)))) ->
  (bkd b = KPre /\ bnum b < dfirst_block c /\ bgood b = true) \/
  (bkd b = KFinal /\ bgood b = true /\
   exists ks1 ks2 x, ks = ks1 ++ ks2 /\ In x (emap (drun c (dinit c p0 e0) ks1)) /\
                     e_epoch x = bepoch b /\ e_sched x = bsched b).
Proof.
  intros c p0 e0 ks H0 Hs d b Hb.
  assert (I : dinv c d) by (apply drun_inv; [apply dinit_inv; exact H0 | exact Hs]).
  pose proof (di_m _ _ I) as Im.
  assert (V : verified (cseen c d) b = true).
  { destruct Hb as [Hb|[[pn Hb]|[id [Hb|Hb]]]].
    - pose proof (i_ver _ _ (mi_store _ _ Im)) as Hv. rewrite Forall_forall in Hv. exact (Hv _ Hb).
    - exact (log_entries_verified _ _ Im b pn Hb).
    - pose proof (mi_wait _ _ Im) as Hv. unfold calls_ok in Hv. rewrite Forall_forall in Hv. exact (Hv _ Hb).
    - pose proof (mi_ready _ _ Im) as Hv. unfold calls_ok in Hv. rewrite Forall_forall in Hv. exact (Hv _ Hb). }
  apply verified_spec in V. destruct V as [V|(V1 & V2 & V3)]; [left; exact V|].
  right. repeat split; try assumption. cbn [cseen cfg_of epochs] in V2.
  destruct (seen_history c ks (dinit c p0 e0) _ V2) as [Hi|(ks1 & ks2 & Hk & Hi)].
  - exists [], ks. cbn [dinit seen] in Hi. apply em_view_In in Hi. destruct Hi as (x & Hx).
    exists x. split; [reflexivity|]. exact Hx.
  - apply em_view_In in Hi. destruct Hi as (x & Hx). exists ks1, ks2, x. split; [exact Hk | exact Hx].
Qed.
Print Assumptions C08_dyn_only_verified.

(* append-only under a changing map: a step of anybody — callers, persistence, the updater task —
   other than a process restart keeps every accepted, not yet persisted block unchanged. *)
Theorem C08_dyn_append_only_step : forall c d k n x, dreachable c d -> ksane d k -> k <> DS Restart ->
  sblock (cache (ms (dm d))) n = Some x -> pnext (ms (dm (dstep c d k))) <= n ->
  sblock (cache (ms (dm (dstep c d k)))) n = Some x.
Proof.
  intros c d k n x H Hk Hnr Hx Hn. pose proof (dreachable_inv c d H) as I.
  destruct (dstep_refines c d k I) as [E|(s & Hs & E)].
  - rewrite E. exact Hx.
  - rewrite E in *. apply step_keeps; try assumption.
    + apply dinv_next. exact I.
    + destruct Hs as [->|(p & e & -> & ->)]; [|exact Logic.I].
      destruct s; try exact Logic.I. contradiction.
Qed.
Print Assumptions C08_dyn_append_only_step.

(* The epoch map: consecutive epoch numbers; activations increase; expiration(e) + 1 =
   activation(e + 1); the newest entry is open-ended.  Hence ranges are disjoint and contiguous. *)
Theorem C08_epoch_map_chain : forall c d, dreachable c d ->
  (forall i x y, nth_error (emap d) i = Some x -> nth_error (emap d) (S i) = Some y ->
     e_epoch y = e_epoch x + 1 /\ e_act x < e_act y /\ e_exp x = Some (e_act y - 1)) /\
  (forall le, em_last (emap d) = Some le -> e_exp le = None) /\
  ust d <> UDead.
Proof.
  intros c d H. pose proof (dreachable_uinv c d H) as U. pose proof (uinv_chain c d U) as Hc.
  split; [intros i x y; apply chain_nth; exact Hc|]. split; [intros le; apply chain_last_open; exact Hc|].
  intros E. unfold uinv in U. rewrite E in U. exact U.
Qed.
Print Assumptions C08_epoch_map_chain.

Theorem C08_epoch_ranges_disjoint : forall c d x y n, dreachable c d ->
  In x (emap d) -> In y (emap d) -> in_range x n = true -> in_range y n = true -> x = y.
Proof.
  intros c d x y n H. apply chain_range_unique. apply (uinv_chain c d). apply dreachable_uinv. exact H.
Qed.
Print Assumptions C08_epoch_ranges_disjoint.

(* epoch_for_block, hence verify_payload's check on the proposal path, decides exactly
   "n lies in the [activation, expiration] range stored for epoch e". *)
Theorem C08_verify_payload_epoch : forall c d n e, dreachable c d ->
  (verify_payload_epoch d n e = true <->
   exists x, In x (emap d) /\ e_epoch x = e /\ in_range x n = true).
Proof.
  intros c d n e H. pose proof (uinv_chain c d (dreachable_uinv c d H)) as Hc.
  unfold verify_payload_epoch. rewrite <- (epoch_for_block_spec (emap d) n e Hc).
  destruct (epoch_for_block n (emap d)) as [e'|].
  - rewrite Z.eqb_eq. split; [intros ->; reflexivity | intros E; inversion E; reflexivity].
  - split; discriminate.
Qed.
Print Assumptions C08_verify_payload_epoch.

(* Pruning: a loop iteration removes an epoch from the map only when its whole range lies
   behind the durable head, i.e. below queued.next: no block of that range can be queued any
   more in this incarnation (try_push accepts only queued.next, which never decreases). *)
Theorem C08_prune_safe : forall c d ans x n, dreachable c d -> ksane d (UTick ans) ->
  In x (emap d) -> ~ In (e_epoch x) (map e_epoch (emap (dstep c d (UTick ans)))) ->
  (exists v, e_exp x = Some v /\ v < tick_head d) /\
  (in_range x n = true -> n < qnext (ms (dm d))).
Proof.
  intros c d ans x n H Hk Hin Hout. split.
  - eapply prune_safe; eauto. apply dreachable_uinv. exact H.
  - eapply prune_behind_queue; eauto; [apply dreachable_inv | apply dreachable_uinv]; exact H.
Qed.
Print Assumptions C08_prune_safe.

(* What does NOT hold (witness on the model; replayed on the real code by corpus/C08-epoch-cross.json):
   queue_block does not compare the block's number with the range of its certificate's epoch.
   After the map holds epoch 0 = [0,4] (committee 0) and epoch 1 = [5,..] (committee 1), block
   number 5 — which verify_payload accepts only for epoch 1 — enters the store with a
   certificate of epoch 0's committee. *)
Theorem C08_epoch_range_not_checked :
  let c := {| dcap := 100; dfirst_block := 0; dgenesis_sched := None |} in
  let blk n e s := {| bnum := n; bidx := n; bkd := KFinal; bepoch := e; bsched := s; bgood := true |} in
  let q i n := [DS (Call i (blk n 0 0)); DS (Wake i); DS (Push i)] in
  let ks := UInit 0 0 :: q 0 0 ++ q 1 1 ++
            [DEnvPersist {| bfirst := 0; blast := Some 1 |} 0; DS Observe; UTick (Some (1, 5))] ++
            q 2 2 ++ q 3 3 ++ q 4 4 ++ q 5 5 in
  let d := drun c (dinit c {| bfirst := 0; blast := None |} 0) ks in
  dreachable c d /\
  map (fun x => (e_epoch x, e_sched x, e_act x, e_exp x)) (emap d) = [(0, 0, 0, Some 4); (1, 1, 5, None)] /\
  get_block (dm d) 5 = RCache (blk 5 0 0) /\
  epoch_for_block 5 (emap d) = Some 1 /\
  verify_payload_epoch d 5 0 = false /\ verify_payload_epoch d 5 1 = true.
Proof.
  cbv zeta. split.
  - eexists _, _, _. split; [|split; [|reflexivity]].
    + split; [reflexivity | discriminate].
    + vm_compute. repeat split; try reflexivity; try discriminate.
  - vm_compute. repeat split; reflexivity.
Qed.
Print Assumptions C08_epoch_range_not_checked.
