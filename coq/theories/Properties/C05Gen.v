(* C05 / C10, translator tie: ViewNumber / EpochNumber / BlockNumber successor and predecessor as
   regenerated from roles/src/validator/messages/{consensus,block}.rs on every run (Gen/Numbers.v)
   equal the hand model's helper Model.Msgs.num_next (used by Model/Replica.v, Model/Msgs.v), for every
   input and both overflow profiles.  If the source changes meaning, this file stops compiling. *)
From Coq Require Import ZArith List Lia Bool.
From EC Require Import Lib.Outcome Lib.U64 Lib.RustSem Model.Msgs Gen.Numbers Proofs.GenTac.
Open Scope Z_scope.

(* ViewNumber::next is `Self(self.0 + 1)`: exactly num_next, in both profiles, for every n. *)
Theorem C05_generated_ViewNumber_next : forall (E : Type) chk n,
  @gen_ViewNumber_next E chk n = num_next chk n.
Proof. intros. unfold gen_ViewNumber_next, num_next. gen_auto. Qed.
Print Assumptions C05_generated_ViewNumber_next.

Theorem C05_generated_EpochNumber_next : forall (E : Type) chk n,
  @gen_EpochNumber_next E chk n = num_next chk n.
Proof. intros. unfold gen_EpochNumber_next, num_next. gen_auto. Qed.
Print Assumptions C05_generated_EpochNumber_next.

(* prev: None at 0, Some (n - 1) above. *)
Theorem C05_generated_ViewNumber_prev : forall n, 0 <= n ->
  gen_ViewNumber_prev n = if n =? 0 then None else Some (n - 1).
Proof.
  intros n Hn. unfold gen_ViewNumber_prev. gen_auto.
Qed.
Print Assumptions C05_generated_ViewNumber_prev.

Theorem C05_generated_EpochNumber_prev : forall n, 0 <= n ->
  gen_EpochNumber_prev n = if n =? 0 then None else Some (n - 1).
Proof.
  intros n Hn. unfold gen_EpochNumber_prev. gen_auto.
Qed.
Print Assumptions C05_generated_EpochNumber_prev.

Theorem C05_generated_BlockNumber_prev : forall n, 0 <= n ->
  gen_BlockNumber_prev n = if n =? 0 then None else Some (n - 1).
Proof.
  intros n Hn. unfold gen_BlockNumber_prev. gen_auto.
Qed.
Print Assumptions C05_generated_BlockNumber_prev.

(* BlockNumber::next is `Self(self.0.checked_add(1).unwrap())`: below u64::MAX it is num_next in both
   profiles ... *)
Theorem C05_generated_BlockNumber_next : forall (E : Type) chk n, n + 1 < U64 ->
  @gen_BlockNumber_next E chk n = num_next chk n.
Proof.
  intros E chk n H. unfold gen_BlockNumber_next, num_next. gen_auto.
Qed.
Print Assumptions C05_generated_BlockNumber_next.

(* ... and AT u64::MAX the source panics in BOTH profiles (unwrap on None), where the hand model's
   num_next panics only with overflow checks and wraps to 0 without: the hand model is used for block
   numbers only below that bound (Model/BlockStore.v, Model/Replica.v state it as out of scope). *)
Theorem C05_generated_BlockNumber_next_at_max : forall (E : Type) chk,
  @gen_BlockNumber_next E chk (U64 - 1) = Panic PUnwrap /\
  @num_next E true (U64 - 1) = Panic POverflow /\ @num_next E false (U64 - 1) = Ok 0.
Proof. intros. repeat split. Qed.
Print Assumptions C05_generated_BlockNumber_next_at_max.

(* non-vacuity *)
Example C05_generated_numbers_example :
  @gen_ViewNumber_next unit true 7 = Ok 8 /\ @gen_ViewNumber_next unit true (U64 - 1) = Panic POverflow /\
  @gen_ViewNumber_next unit false (U64 - 1) = Ok 0 /\ gen_BlockNumber_prev 0 = None /\ gen_BlockNumber_prev 5 = Some 4.
Proof. repeat split. Qed.
