(* C02 — certificate uniqueness, on the concrete protocol model (Model/Protocol.v): for every
   committee with distinct keys, positive weights and Byzantine weight <= f (params_ok), every
   schedule of deliveries, timers, crashes at persist points (write applied or lost), restarts,
   block syncs, honest proposals and adversarial messages (preach).
   Statements closed by [exact] (short glue only) + assumption prints. *)
From Coq Require Import ZArith List Bool Lia.
From EC Require Import Lib.Outcome Lib.ListW Model.Msgs Model.Replica Model.ReplicaRun Model.Protocol
  Model.SafetyAbs Proofs.ProtocolRefinesAbs Proofs.ProtocolRefinesStep Proofs.ProtocolRefinesInv
  Proofs.ProtocolRefinesMain Proofs.ProtocolRefinesExec Proofs.ProtocolRefinesExample.
Import ListNotations.
Open Scope Z_scope.

(* Two verifying commit certificates without forged honest signatures (in particular any
   certificate held by an honest node or carried by a message of the soup — see below) for the
   same block number certify the same payload. *)
Theorem C02_certificate_unique : forall P, params_ok P -> forall s q q', preach P s ->
  cqc_verify (p_g P) (p_e P) (p_C P) q = Ok tt -> cqc_knownb P (g_soup s) q = true ->
  cqc_verify (p_g P) (p_e P) (p_C P) q' = Ok tt -> cqc_knownb P (g_soup s) q' = true ->
  hnum (cprop (qmsg q)) = hnum (cprop (qmsg q')) -> hpay (cprop (qmsg q)) = hpay (cprop (qmsg q')).
Proof.
  exact (fun P HP s q q' Hr Hv Hk Hv' Hk' =>
           certificate_unique_concrete P HP s q q' Hr (conj Hv Hk) (conj Hv' Hk')).
Qed.
Print Assumptions C02_certificate_unique.

(* Once such a certificate for (v, n, h) exists, every commit vote of an honest key at a higher
   view — recorded durably (even if never sent because of a crash) or present on the network —
   is for a number > n or for (n, h) itself. *)
Theorem C02_repropose : forall P, params_ok P -> forall s q k c, preach P s ->
  cqc_verify (p_g P) (p_e P) (p_C P) q = Ok tt -> cqc_knownb P (g_soup s) q = true ->
  honestb P k = true ->
  ((exists d, In (k, d) (g_plog s) /\ d_phase d = PCommit /\ d_high_vote d = Some c /\
              d_view d = vnum (cview c)) \/
   In {| m_key := k; m_sig_ok := true; m_msg := MCommit c |} (g_soup s)) ->
  vnum (cview (qmsg q)) < vnum (cview c) ->
  hnum (cprop (qmsg q)) < hnum (cprop c) \/ cprop c = cprop (qmsg q).
Proof.
  exact (fun P HP s q k c Hr Hv Hk Hh Hvt Hlt =>
           repropose_concrete P HP s q k c Hr (conj Hv Hk) Hh Hvt Hlt).
Qed.
Print Assumptions C02_repropose.

(* the certificates honest nodes hold (live or durable) verify and contain no forged signature *)
Theorem C02_held_certificates_good : forall P, params_ok P -> forall s k q, preach P s ->
  honestb P k = true ->
  r_high_cqc (n_live (g_node s k)) = Some q \/ d_high_cqc (n_dur (g_node s k)) = Some q ->
  cqc_verify (p_g P) (p_e P) (p_C P) q = Ok tt /\ cqc_knownb P (g_soup s) q = true.
Proof. exact held_certificates_good. Qed.
Print Assumptions C02_held_certificates_good.

(* nor do the certificates carried by the messages of the soup *)
Theorem C02_soup_certificates_known : forall P, params_ok P -> forall s m q, preach P s ->
  In m (g_soup s) ->
  (exists p, m_msg m = MProposal p (JCommit q)) \/ m_msg m = MNewView (JCommit q) \/
  (exists t, m_msg m = MTimeout t /\ thq t = Some q) ->
  cqc_knownb P (g_soup s) q = true.
Proof. exact soup_certificates_known. Qed.
Print Assumptions C02_soup_certificates_known.

(* an honest key never votes for two blocks in one view (durable history and network together) *)
Theorem C02_no_equivocation : forall P, params_ok P -> forall s k c c', preach P s ->
  honestb P k = true -> voted s k c -> voted s k c' ->
  vnum (cview c) = vnum (cview c') -> cprop c = cprop c'.
Proof. exact no_equivocation_concrete. Qed.
Print Assumptions C02_no_equivocation.

Theorem C02_voted_unfold : forall s k c,
  voted s k c <->
  ((exists d, In (k, d) (g_plog s) /\ d_phase d = PCommit /\ d_high_vote d = Some c /\
              d_view d = vnum (cview c)) \/
   In {| m_key := k; m_sig_ok := true; m_msg := MCommit c |} (g_soup s)).
Proof. exact (fun s k c => iff_refl _). Qed.
Print Assumptions C02_voted_unfold.

(* ---- (i) verifying certificates backed by the abstract history are valid in Layer A ---- *)
Theorem C02_abs_cqc_valid : forall P a q,
  cqc_verify (p_g P) (p_e P) (p_C P) q = Ok tt ->
  (forall i, honest (cweights (p_C P)) (abyz P) i -> nth_error (qsigners q) i = Some true ->
     exists cq, In {| v_who := i; v_view := vnum (cview (qmsg q));
                      v_block := abs_hdr (cprop (qmsg q)); v_cq := cq |} (votes a)) ->
  valid_cqc (cweights (p_C P)) (abyz P) a (abs_cqc q).
Proof. exact abs_cqc_valid. Qed.
Print Assumptions C02_abs_cqc_valid.

Theorem C02_abs_tqc_valid : forall P a t,
  tqc_verify (p_g P) (p_e P) (p_C P) t = Ok tt ->
  (forall en i, In en (tqmap t) -> honest (cweights (p_C P)) (abyz P) i -> nth_error (snd en) i = Some true ->
     In {| t_who := i; t_view := vnum (tqview t); t_report := abs_report (fst en) |} (timeouts a)) ->
  (forall en q, In en (tqmap t) -> thq (fst en) = Some q ->
     valid_cqc (cweights (p_C P)) (abyz P) a (abs_cqc q)) ->
  valid_tqc (cweights (p_C P)) (abyz P) a (abs_tqc t).
Proof. exact abs_tqc_valid. Qed.
Print Assumptions C02_abs_tqc_valid.

(* ---- (ii) the implementation's decision functions agree with Layer A's relations ---- *)
Theorem C02_high_vote_matches : forall P, params_ok P -> forall t hv,
  tqc_verify (p_g P) (p_e P) (p_C P) t = Ok tt -> @high_vote unit (p_C P) t = Ok hv ->
  is_high_vote (cweights (p_C P)) (abs_tqc t) (option_map abs_hdr hv).
Proof. exact high_vote_abs. Qed.
Print Assumptions C02_high_vote_matches.

Theorem C02_high_qc_matches : forall P t,
  tqc_verify (p_g P) (p_e P) (p_C P) t = Ok tt ->
  is_high_qc (abs_tqc t) (option_map abs_cqc (high_qc t)).
Proof. exact high_qc_abs. Qed.
Print Assumptions C02_high_qc_matches.

Theorem C02_implied_block_matches : forall P, params_ok P -> forall j n oh,
  justification_verify (p_g P) (p_e P) (p_C P) j = Ok tt ->
  @get_implied_block unit true (p_C P) (p_first P) j = Ok (n, oh) ->
  is_implied (cweights (p_C P)) (p_first P) (abs_just j) (n, oh).
Proof. exact implied_abs. Qed.
Print Assumptions C02_implied_block_matches.

(* the committee of the concrete model satisfies the standing assumptions of Layer A *)
Theorem C02_committee_ok : forall P, params_ok P -> committee_ok (cweights (p_C P)) (abyz P).
Proof. exact committee_ok_W. Qed.
Print Assumptions C02_committee_ok.

(* ---- non-vacuity: a run with a crash between the durable write of a vote and its sending ---- *)
Example C02_example_crash :
  params_ok ex_P /\
  exists s, preach ex_P s /\
    In (3, 1, 1) (ex_writes s) /\ ~ In (3, 1) (ex_msg_kinds s) /\ In (3, 1, 2) (ex_writes s).
Proof. exact (conj ex_params_ok ex_crash_reachable). Qed.
Print Assumptions C02_example_crash.
