(* C04, translator tie: the verification functions of the certificates as regenerated from the source on every
   run (Gen/QCVerify.v: View::verify, ReplicaCommit::verify, CommitQC::verify, ReplicaTimeout::verify,
   TimeoutQC::verify, Signers::{new,len,is_empty}) equal the hand model Model/Msgs.v (view_verify, commit_verify,
   cqc_verify, timeout_verify, tqc_verify): the same checks in the same order with the same comparisons against the
   quorum threshold, the same overlap test, the same error for each failing check.  Cryptography is symbolic as in
   the model (H-SIG): the signature check over the selected (message, key) pairs is the model's multiset comparison.
   If the source changes meaning, this file stops compiling. *)
From Coq Require Import ZArith List Lia Bool.
From EC Require Import Lib.Outcome Lib.U64 Lib.RustSem Lib.ListW Model.Msgs Proofs.ListWFacts Proofs.GenTac.
From EC Require Import Gen.QCVerify.
Import ListNotations.
Open Scope Z_scope.

Lemma of_nat_eqb : forall a b : nat, (Z.of_nat a =? Z.of_nat b) = Nat.eqb a b.
Proof.
  intros a b. destruct (Nat.eqb a b) eqn:H.
  - apply Nat.eqb_eq in H. subst. apply Z.eqb_refl.
  - apply Nat.eqb_neq in H. apply Z.eqb_neq. lia.
Qed.

Theorem C04_generated_view_verify : forall chk v g e, gen_View_verify chk v g e = view_verify g e v.
Proof. intros chk v g e. unfold gen_View_verify, view_verify. gen_auto. Qed.
Print Assumptions C04_generated_view_verify.

Theorem C04_generated_commit_verify : forall chk c g e, gen_ReplicaCommit_verify chk c g e = commit_verify g e c.
Proof.
  intros chk c g e. unfold gen_ReplicaCommit_verify, commit_verify. rewrite C04_generated_view_verify.
  destruct (view_verify g e (cview c)) as [[]|x|p]; reflexivity.
Qed.
Print Assumptions C04_generated_commit_verify.

Theorem C04_generated_signers : forall n s,
  gen_Signers_new (Z.of_nat n) = bv_new n /\ gen_Signers_len s = Z.of_nat (length s) /\ gen_Signers_is_empty s = bv_none s.
Proof. intros n s. unfold gen_Signers_new. rewrite Nat2Z.id. repeat split. Qed.
Print Assumptions C04_generated_signers.

Theorem C04_generated_cqc_verify : forall chk q g e C, gen_CommitQC_verify chk q g e C = cqc_verify g e C q.
Proof.
  intros chk q g e C. unfold gen_CommitQC_verify, cqc_verify. rewrite C04_generated_commit_verify.
  destruct (commit_verify g e (qmsg q)) as [[]|x|p]; cbn [rmap_err map_err bind]; try reflexivity.
  unfold gen_Signers_len, vec_len. rewrite of_nat_eqb.
  destruct (Nat.eqb (length (qsigners q)) (length C)); cbn [negb]; [|reflexivity].
  destruct (signers_weight C (qsigners q)) as [w|x|p]; cbn [bind]; try reflexivity.
  destruct (w <? quorum C); [reflexivity|].
  destruct (mset_eqb _ _ _); reflexivity.
Qed.
Print Assumptions C04_generated_cqc_verify.

Theorem C04_generated_timeout_verify : forall chk t g e C, gen_ReplicaTimeout_verify chk t g e C = timeout_verify g e C t.
Proof.
  intros chk t g e C. unfold gen_ReplicaTimeout_verify, timeout_verify. rewrite C04_generated_view_verify.
  destruct (view_verify g e (tview t)) as [[]|x|p]; cbn [rmap_err map_err bind]; try reflexivity.
  destruct (thv t) as [v|].
  - rewrite C04_generated_commit_verify.
    destruct (commit_verify g e v) as [[]|x|p]; cbn [rmap_err map_err bind]; try reflexivity.
    destruct (thq t) as [q|]; [|reflexivity]. rewrite C04_generated_cqc_verify.
    destruct (cqc_verify g e C q) as [[]|x|p]; reflexivity.
  - cbn [bind]. destruct (thq t) as [q|]; [|reflexivity]. rewrite C04_generated_cqc_verify.
    destruct (cqc_verify g e C q) as [[]|x|p]; reflexivity.
Qed.
Print Assumptions C04_generated_timeout_verify.

(* the loop over the map entries, from any starting index *)
Lemma entries_fold : forall chk g e C v entries n sum,
  fold_m (fun sum0 '(i, (msg, signers)) =>
            if negb (view_eqb (tview msg) v) then Err (QInconsistentView (Z.to_nat i))
            else if negb (gen_Signers_len signers =? gen_Signers_len sum0) then Err (QWrongSignersLength (Z.to_nat i))
            else if gen_Signers_is_empty signers then Err (QNoSignersAssigned (Z.to_nat i))
            else if negb (gen_Signers_is_empty (band sum0 signers)) then Err (QOverlapping (Z.to_nat i))
            else let* _ := rmap_err (fun err => QInvalidMessage (Z.to_nat i) err) (gen_ReplicaTimeout_verify chk msg g e C) in
                 let sum1 := bor sum0 signers in Ok sum1)
         (combine (map Z.of_nat (seq n (length entries))) entries) sum
  = tqc_verify_entries g e C v n entries sum.
Proof.
  intros chk g e C v entries. induction entries as [|[msg signers] rest IH]; intros n sum; [reflexivity|].
  cbn [length seq map combine fold_m tqc_verify_entries]. rewrite Nat2Z.id.
  destruct (negb (view_eqb (tview msg) v)); [reflexivity|].
  unfold gen_Signers_len, vec_len. rewrite of_nat_eqb.
  destruct (negb (Nat.eqb (length signers) (length sum))); [reflexivity|].
  change (gen_Signers_is_empty signers) with (bv_none signers).
  destruct (bv_none signers); [reflexivity|].
  change (gen_Signers_is_empty (band sum signers)) with (bv_none (band sum signers)).
  destruct (negb (bv_none (band sum signers))); [reflexivity|].
  rewrite C04_generated_timeout_verify.
  destruct (timeout_verify g e C msg) as [[]|x|p]; cbn [rmap_err map_err bind]; try reflexivity.
  apply IH.
Qed.

Theorem C04_generated_tqc_verify : forall chk t g e C, gen_TimeoutQC_verify chk t g e C = tqc_verify g e C t.
Proof.
  intros chk t g e C. unfold gen_TimeoutQC_verify, tqc_verify. rewrite C04_generated_view_verify.
  destruct (view_verify g e (tqview t)) as [[]|x|p]; cbn [rmap_err map_err bind]; try reflexivity.
  unfold vec_enumerate. rewrite (entries_fold chk g e C (tqview t) (tqmap t) 0).
  destruct (C04_generated_signers (length C) []) as (Hnew & _ & _). rewrite Hnew.
  destruct (tqc_verify_entries g e C (tqview t) 0 (tqmap t) (bv_new (length C))) as [sum|x|p]; cbn [bind]; try reflexivity.
  destruct (signers_weight C sum) as [w|x|p]; cbn [bind]; try reflexivity.
  destruct (w <? quorum C); [reflexivity|].
  destruct (mset_eqb _ _ _); reflexivity.
Qed.
Print Assumptions C04_generated_tqc_verify.

(* ---------- incremental assembly: the accept / reject decision of add() ---------- *)
Definition decision {E A} (x : outcome E A) : outcome E unit :=
  match x with Ok _ => Ok tt | Err e => Err e | Panic p => Panic p end.

Theorem C04_generated_cqc_add : forall chk q s g e C,
  gen_CommitQC_add_decision chk q s g e C = decision (cqc_add g e C q s).
Proof.
  intros chk q s g e C. unfold gen_CommitQC_add_decision, cqc_add.
  destruct (cindex C (skey s)) as [i|]; cbn [option_map]; [|reflexivity].
  unfold vec_index. rewrite Nat2Z.id.
  destruct (nth_error (qsigners q) i) as [[|]|]; cbn [bind decision]; try reflexivity.
  destruct (ksig_eqb sigref_eqb (ssig s) (skey s, RCommit (smsg s))); cbn [negb rmap_err bind decision]; [|reflexivity].
  destruct (negb (commit_eqb (qmsg q) (smsg s))); [reflexivity|].
  rewrite C04_generated_commit_verify.
  destruct (commit_verify g e (smsg s)) as [[]|x|p]; reflexivity.
Qed.
Print Assumptions C04_generated_cqc_add.

Lemma any_m_any_signed : forall entries i,
  any_m (fun s0 : list bool => vec_index s0 (Z.of_nat i)) (map snd entries) = any_signed entries i.
Proof.
  induction entries as [|[m s0] rest IH]; intros i; [reflexivity|].
  cbn [map snd any_m any_signed]. unfold vec_index at 1. rewrite Nat2Z.id.
  destruct (nth_error s0 i) as [[|]|]; cbn [bind]; try reflexivity. apply IH.
Qed.

Theorem C04_generated_tqc_add : forall chk t s g e C,
  gen_TimeoutQC_add_decision chk t s g e C = decision (tqc_add g e C t s).
Proof.
  intros chk t s g e C. unfold gen_TimeoutQC_add_decision, tqc_add.
  destruct (cindex C (skey s)) as [i|]; cbn [option_map]; [|reflexivity].
  rewrite any_m_any_signed.
  destruct (any_signed (tqmap t) i) as [[|]|x|p]; cbn [bind decision]; try reflexivity.
  destruct (ksig_eqb tsigref_eqb (ssig s) (skey s, TTimeout (smsg s))); cbn [negb rmap_err bind decision]; [|reflexivity].
  destruct (negb (view_eqb (tview (smsg s)) (tqview t))); [reflexivity|].
  rewrite C04_generated_timeout_verify.
  destruct (timeout_verify g e C (smsg s)) as [[]|x|p]; reflexivity.
Qed.
Print Assumptions C04_generated_tqc_add.

(* ---------- Signers::weight / Signers::count: the callee table entries are theorems ---------- *)
Fixpoint sel (n : nat) (s : list bool) (C : committee) : list (Z * member) :=
  match s, C with
  | b :: s', m :: C' => if b then (Z.of_nat n, m) :: sel (S n) s' C' else sel (S n) s' C'
  | _, _ => []
  end.

Lemma filter_sel : forall (E : Type) C s (sfull : list bool) n,
  length s = length C -> (forall j, nth_error sfull (n + j) = nth_error s j) ->
  @filter_m E _ (fun '(i, _) => vec_index sfull i) (combine (map Z.of_nat (seq n (length C))) C) = Ok (sel n s C).
Proof.
  intros E C. induction C as [|m C IH]; intros s sfull n Hl Hs.
  - destruct s; [reflexivity|discriminate].
  - destruct s as [|b s]; [discriminate|]. cbn [length seq map combine filter_m sel].
    unfold vec_index at 1. rewrite Nat2Z.id. pose proof (Hs 0%nat) as H0. rewrite Nat.add_0_r in H0. rewrite H0.
    cbn [nth_error bind].
    rewrite (IH s sfull (S n)).
    + cbn [bind]. destruct b; reflexivity.
    + cbn [length] in Hl. lia.
    + intros j. specialize (Hs (S j)). rewrite Nat.add_succ_r in Hs. exact Hs.
Qed.

Lemma sum_sel : forall (E : Type) chk C s n acc,
  all_pos (cweights C) -> 0 <= acc -> acc + total (cweights C) < U64 ->
  @sum_u64_from E chk acc (map (fun '(_, v) => mweight v) (sel n s C)) = Ok (acc + weight (cweights C) s).
Proof.
  intros E chk C. induction C as [|m C IH]; intros s n acc Hp Ha Hlt.
  - destruct s as [|b s]; cbn [sel map sum_u64_from cweights weight]; f_equal; lia.
  - unfold cweights in *. cbn [map] in *. inversion Hp as [|w ws Hw Hrest]; subst.
    destruct s as [|b s]; [cbn [sel map sum_u64_from weight]; f_equal; lia|].
    cbn [sel weight total] in *. destruct b.
    + cbn [map sum_u64_from]. unfold u64_add.
      pose proof (weight_nonneg _ Hrest s) as Hwn.
      assert (Htn : 0 <= total (map mweight C)).
      { clear -Hrest. induction Hrest as [|x l Hx _ IHl]; cbn [total]; lia. }
      destruct (acc + mweight m <? U64) eqn:Hc; [|apply Z.ltb_ge in Hc; lia].
      cbn [bind]. rewrite (IH s (S n) (acc + mweight m) Hrest); [f_equal; lia|lia|lia].
    + rewrite (IH s (S n) acc Hrest Ha); [f_equal; lia|].
      lia.
Qed.

Theorem C04_generated_signers_weight : forall (E : Type) chk s C,
  all_pos (cweights C) -> ctotal C < U64 ->
  @gen_Signers_weight_impl E chk s C = signers_weight C s.
Proof.
  intros E chk s C Hp Ht. unfold gen_Signers_weight_impl, signers_weight, gen_Signers_len, vec_len, vec_enumerate.
  rewrite of_nat_eqb. destruct (Nat.eqb (length s) (length C)) eqn:Hl; [|reflexivity].
  apply Nat.eqb_eq in Hl.
  rewrite (filter_sel E C s s 0 Hl (fun j => eq_refl)). cbn [bind]. unfold sum_u64.
  rewrite (sum_sel E chk C s 0 0 Hp ltac:(lia) ltac:(unfold ctotal in Ht; lia)). reflexivity.
Qed.
Print Assumptions C04_generated_signers_weight.

Theorem C04_generated_signers_count : forall s,
  gen_Signers_count_impl s = Z.of_nat (length (filter (fun b : bool => b) s)).
Proof. intros s. reflexivity. Qed.
Print Assumptions C04_generated_signers_count.

(* non-vacuity: a single validator of weight 1; its own bit set passes, an empty bitmap fails the weight test, a
   bitmap of the wrong length fails earlier *)
Example C04_generated_cqc_verify_example :
  let C := [ {| mkey := 0; mweight := 1 |} ] in
  let m := {| cview := {| vgen := 0; vepoch := 0; vnum := 1 |}; cprop := {| hnum := 1; hpay := 1 |} |} in
  gen_CommitQC_verify true {| qmsg := m; qsigners := [true]; qagg := [(0, RCommit m)] |} 0 0 C = Ok tt /\
  gen_CommitQC_verify true {| qmsg := m; qsigners := [false]; qagg := [] |} 0 0 C = Err CNotEnoughWeight /\
  gen_CommitQC_verify true {| qmsg := m; qsigners := []; qagg := [] |} 0 0 C = Err CBadSignersSet /\
  gen_CommitQC_verify true {| qmsg := m; qsigners := [true]; qagg := [(0, RCommit m)] |} 1 0 C = Err (CInvalidMessage EGenesis).
Proof. repeat split. Qed.
