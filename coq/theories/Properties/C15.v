(* C15 — Rate and concurrency limits are enforced on every RPC stream.
   Statements only; proofs are in Proofs/LimiterProofs.v, the model in Model/Limiter.v.

   Quantifier of the property: every sequence of acquire / cancel / release operations with
   arbitrary permit counts, hold times and clock advances.  Here: every label list [ls] over
   LTick d | LBegin p | LWait | LGrant | LCancel id | LDrop id run from the initial state
   (labels that are not enabled are skipped, so [ls] ranges over all interleavings of callers,
   of the runtime's scheduling of the lock holder, of cancellations, drops and clock advances),
   every configuration with burst <= usize::MAX and refresh > 0. *)
From Coq Require Import ZArith List Sorted.
From EC Require Import Lib.Outcome Lib.Obs Model.Limiter Proofs.LimiterProofs.
Import ListNotations.
Open Scope Z_scope.

(* limiter_inv: 0 <= reserved <= permits <= burst, refresh_ticks within [0, ticks(now)],
   reserved = sum of the live Permit objects, and no arithmetic panic (usize `+=`/`-=`/`-`
   with overflow checks on; the usize / i128 / Duration saturations are part of the model). *)
Theorem C15_limiter_inv : forall c ls, cfg_ok c ->
  (forall p, exec c (init c) ls <> Panic p) /\
  (forall s, exec c (init c) ls = Ok s ->
     0 <= rs (st s) <= pm (st s) /\ pm (st s) <= burst c /\
     0 <= rt (st s) <= ticks c (now s) /\ rs (st s) = sum_p (held s)).
Proof. exact limiter_inv. Qed.
Print Assumptions C15_limiter_inv.

Theorem C15_refresh_ticks_monotone : forall c ls1 ls2 s1 s2, cfg_ok c ->
  exec c (init c) ls1 = Ok s1 -> exec c s1 ls2 = Ok s2 -> rt (st s1) <= rt (st s2).
Proof. exact refresh_ticks_monotone. Qed.
Print Assumptions C15_refresh_ticks_monotone.

(* window_bound: in any closed time window [t1, t2] the permits granted (sum over the acquire
   calls that returned in the window) are at most burst + (t2 - t1) / refresh + 1. *)
Theorem C15_window_bound : forall c ls s t1 t2, cfg_ok c -> exec c (init c) ls = Ok s ->
  t1 <= t2 ->
  sum_window (grants s) t1 t2 <= burst c + (t2 - t1) / refresh c + 1.
Proof. exact window_bound. Qed.
Print Assumptions C15_window_bound.

(* the same bound for the permits consumed (Permit::drop) in a window: this is the form the
   RPC layer needs, because a stream's OPEN is sent while its permit is held and the permit is
   dropped at that instant. *)
Theorem C15_consume_window_bound : forall c ls s t1 t2, cfg_ok c -> exec c (init c) ls = Ok s ->
  t1 <= t2 ->
  sum_window (drops s) t1 t2 <= burst c + (t2 - t1) / refresh c + 1.
Proof. exact consume_window_bound. Qed.
Print Assumptions C15_consume_window_bound.

(* fifo_order (given the fair acquire mutex, H-ATOM): in the grant log, newest first, every older
   entry belongs to a call that entered acquire() earlier and was granted no later; a call still
   waiting entered later than every call granted so far. *)
Theorem C15_fifo_order : forall c ls s, cfg_ok c -> exec c (init c) ls = Ok s ->
  StronglySorted grant_order (grants s).
Proof. exact fifo_order. Qed.
Print Assumptions C15_fifo_order.

Theorem C15_fifo_no_overtaking : forall c ls s g j q, cfg_ok c -> exec c (init c) ls = Ok s ->
  In g (grants s) -> In (j, q) (queue s) -> (gid g < j)%nat.
Proof. exact fifo_no_overtaking. Qed.
Print Assumptions C15_fifo_no_overtaking.

(* cancel_consumes_nothing: cancelling a wait at any point before the grant changes neither the
   limiter state nor the permits held / granted / consumed, and the cancelled call is never
   granted afterwards. *)
Theorem C15_cancel_consumes_nothing : forall c ls s id s', cfg_ok c ->
  exec c (init c) ls = Ok s -> step c s (LCancel id) = Ok s' ->
  st s' = st s /\ held s' = held s /\ grants s' = grants s /\ drops s' = drops s /\ now s' = now s /\
  (find_id id (queue s) <> None ->
   forall ls' s'', exec c s' ls' = Ok s'' -> ~ In id (map gid (grants s''))).
Proof. exact cancel_consumes_nothing. Qed.
Print Assumptions C15_cancel_consumes_nothing.

(* The deterministic scripts of the correspondence check are runs of the step relation
   (so every theorem above applies to what the harness executes), and their settle phase
   ends in a state where no internal step is enabled. *)
Theorem C15_scripts_are_runs : forall c os s, run_ops c s os = exec c s (script_labels c s os).
Proof. exact run_ops_exec. Qed.
Print Assumptions C15_scripts_are_runs.

Theorem C15_settle_quiescent : forall c s s', settle c s = Ok s' -> quiescent c s'.
Proof. exact settle_quiescent. Qed.
Print Assumptions C15_settle_quiescent.

Theorem C15_script_bounds : forall c os s t1 t2, cfg_ok c -> run_ops c (init c) os = Ok s ->
  t1 <= t2 ->
  sum_window (grants s) t1 t2 <= burst c + (t2 - t1) / refresh c + 1 /\
  sum_window (drops s) t1 t2 <= burst c + (t2 - t1) / refresh c + 1.
Proof. exact script_window_bound. Qed.
Print Assumptions C15_script_bounds.

(* The saturating deadline computation (i128 saturating_mul, duration_or_max) is the exact
   product while the clock is in range. *)
Theorem C15_deadline_exact : forall c need t, 0 < refresh c -> t - start c < nanos_max ->
  (deadline_reached c need t = true <-> need <= 0 \/ refresh c * need <= t - start c).
Proof.
  intros c need t Hr Ht. split; [apply deadline_reached_spec; assumption|apply deadline_reached_complete; assumption].
Qed.
Print Assumptions C15_deadline_exact.

(* rpc_rate_bound: a StreamQueue with n reusable streams sharing one limiter (one permit per
   OPEN, the permit dropped when the OPEN has been sent).  For every sequence of stream events
   (the remote side and the application decide when a stream gets to acquire, to open, to close,
   or is aborted) the OPENs in any window are within the rate and the simultaneously open
   transient streams (= calls rpc::Server::serve has in flight) are at most n. *)
Theorem C15_rpc_rate_bound : forall c n ls s t1 t2, cfg_ok c -> rexec c (rinit c n) ls = Ok s ->
  t1 <= t2 ->
  count_window (opens s) t1 t2 <= burst c + (t2 - t1) / refresh c + 1 /\ (n_open s <= n)%nat.
Proof. exact rpc_rate_bound. Qed.
Print Assumptions C15_rpc_rate_bound.

Theorem C15_rpc_no_panic : forall c n ls p, cfg_ok c -> rexec c (rinit c n) ls <> Panic p.
Proof. exact rpc_no_panic. Qed.
Print Assumptions C15_rpc_no_panic.

(* Full statement of C15.  The limiter half is proved at this strength by the theorems above;
   the RPC half is proved for the StreamQueue model [rexec], whose tie to
   mux/reusable_stream.rs + rpc/mod.rs is by reading only (no differential check), and n <= INFLIGHT
   is C14 open_streams_bounded.  Kept as a definition; its proof is the conjunction below. *)
Definition C15_full : Prop :=
  forall c, cfg_ok c ->
    (forall ls s t1 t2, exec c (init c) ls = Ok s -> t1 <= t2 ->
       sum_window (grants s) t1 t2 <= burst c + (t2 - t1) / refresh c + 1) /\
    (forall ls s, exec c (init c) ls = Ok s -> StronglySorted grant_order (grants s)) /\
    (forall ls s id s', exec c (init c) ls = Ok s -> step c s (LCancel id) = Ok s' ->
       st s' = st s /\ held s' = held s /\ grants s' = grants s /\ drops s' = drops s) /\
    (forall n ls s t1 t2, rexec c (rinit c n) ls = Ok s -> t1 <= t2 ->
       count_window (opens s) t1 t2 <= burst c + (t2 - t1) / refresh c + 1 /\ (n_open s <= n)%nat).

Theorem C15_full_model : C15_full.
Proof.
  intros c Hc. split; [|split; [|split]].
  - intros ls s t1 t2 H Ht. eapply window_bound; eassumption.
  - intros ls s H. eapply fifo_order; eassumption.
  - intros ls s id s' H Hs. destruct (cancel_consumes_nothing c ls s id s' Hc H Hs) as (A & B & C & D & _).
    repeat split; assumption.
  - intros n ls s t1 t2 H Ht. eapply rpc_rate_bound; eassumption.
Qed.
Print Assumptions C15_full_model.

(* Non-vacuity and tightness: burst 1, refresh 10 ns.  Three acquire(1) calls are granted at
   9, 10 and 20 ns: 3 = 1 + (20 - 9) / 10 + 1 permits in the window [9, 20]. *)
Example C15_bound_is_tight :
  let c := {| burst := 1; refresh := 10; start := 0 |} in
  exists s, run_ops c (init c)
              [OAdv 9; OAcq 1; ODrop 0%nat; OAcq 1; OAdv 1; ODrop 1%nat; OAcq 1; OAdv 10] = Ok s /\
            map (fun g => (gid g, gtime g)) (rev (grants s)) = [(0%nat, 9); (1%nat, 10); (2%nat, 20)] /\
            sum_window (grants s) 9 20 = 3 /\ burst c + (20 - 9) / refresh c + 1 = 3.
Proof. eexists. split; [vm_compute; reflexivity|]. vm_compute. repeat split; reflexivity. Qed.

(* Late wake-up: the schedules in which State::advance is called with an OLDER tick.  A waiter computed its
   wake-up tick `need` and sleeps; the clock runs k periods past its deadline; a Permit::drop at that later
   tick (LDrop: advance(ticks(now))) comes before the waiter's LGrant (advance(need), need < refresh_ticks).
   All of these are label lists, so C15_window_bound covers them; for them to stay within the bound the
   older tick must be ignored: *)
Theorem C15_advance_ignores_older_tick : forall c s t, t < rt s -> advance c s t = s.
Proof. intros c s t H. unfold advance. apply Z.ltb_lt in H. rewrite H. reflexivity. Qed.
Print Assumptions C15_advance_ignores_older_tick.

(* burst 10, refresh 10 ns: the bucket is exhausted with one permit kept, a waiter parks (need = 1), the clock
   jumps to 50 ns with nobody polled (OAdvX), the kept permit is dropped at tick 5, then the waiter and a
   burst of acquires run: 15 permits in [0, 50] (bound 10 + 50/10 + 1 = 16), refresh_ticks stays 5. *)
Example C15_late_wakeup_example :
  let c := {| burst := 10; refresh := 10; start := 0 |} in
  exists s, run_ops c (init c)
      ([OAcq 9; OAcq 1; ODrop 0%nat; OAcq 1; OAdvX 50; ODrop 1%nat; ODrop 2%nat] ++
       flat_map (fun i => [OAcq 1; ODrop i]) (seq 3 12)) = Ok s /\
    sum_window (grants s) 0 50 = 15 /\ rt (st s) = 5 /\
    In LGrant (script_labels c (init c) [OAcq 9; OAcq 1; ODrop 0%nat; OAcq 1; OAdvX 50; ODrop 1%nat]) /\
    script_labels c (init c) [OAcq 9; OAcq 1; ODrop 0%nat; OAcq 1; OAdvX 50] =
      [LBegin 9; LWait; LGrant; LBegin 1; LWait; LGrant; LDrop 0; LBegin 1; LWait; LTick 50].
Proof. eexists. split; [vm_compute; reflexivity|]. vm_compute. repeat split; try reflexivity. tauto. Qed.

(* a cancelled sleeper delays nobody's permits: the waiter behind it is served as if alone *)
Example C15_cancel_example :
  run_case (2, 10, 3, [OAcq 2; ODrop 0%nat; OAcq 2; OAcq 1; OAdv 5; OCancel 1%nat; OAdv 4; OAdv 1; OAdv 100]) =
  OL [OZ 0; OL [OL [OZ 0; OZ 3]; OL [OZ 2; OZ 13]]; OL [OZ 2; OZ 3; OZ 1]; OZ 113].
Proof. vm_compute. reflexivity. Qed.

(* the StreamQueue model is not vacuous either: two streams, burst 1 *)
Example C15_rpc_example :
  let c := {| burst := 1; refresh := 10; start := 0 |} in
  exists s, rexec c (rinit c 2)
      [RAcquire 0; RAcquire 1; RLim LWait; RLim LGrant; ROpen 0; RLim LWait; RLim LGrant;
       RLim (LTick 10); RLim LGrant; ROpen 1] = Ok s /\
    opens s = [(1%nat, 10); (0%nat, 0)] /\ n_open s = 2%nat.
Proof. eexists. split; [vm_compute; reflexivity|]. split; reflexivity. Qed.
