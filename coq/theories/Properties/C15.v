(* C15 — rate and concurrency limits (statements; proofs in Proofs/LimiterProofs.v). *)
From Coq Require Import ZArith List.
From EC Require Import Lib.Outcome Lib.Obs Model.Limiter.
Import ListNotations.
Open Scope Z_scope.

Example C15_nonvacuous :
  run_case (2, 10, 0, [OAcq 2; ODrop 0%nat; OAcq 1; OAdv 10; OAcq 1; OAdv 10]) =
  OL [OZ 0; OL [OL [OZ 0; OZ 0]; OL [OZ 1; OZ 10]; OL [OZ 2; OZ 20]]; OL [OZ 2; OZ 1; OZ 1]; OZ 20].
Proof. vm_compute. reflexivity. Qed.
