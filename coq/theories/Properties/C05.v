(* C05 — View changes are justified, monotone and follow the specification.
   Statements over the Gallina transcription of the replica handlers (Model/Replica.v);
   proofs in Proofs/ReplicaMono.v and Proofs/ReplicaJustified.v. *)
From Coq Require Import ZArith List.
From EC Require Import Lib.Outcome Model.Msgs Model.Replica Model.ReplicaRun.
From EC Require Import Proofs.QCProofs Proofs.ReplicaMono Proofs.ReplicaCaches Proofs.ReplicaCrash Proofs.ReplicaJustified.
Import ListNotations.
Open Scope Z_scope.

(* monotone: one iteration of the run loop (any input: valid, stale, future, wrong leader, wrong
   epoch/genesis, badly signed, Byzantine-crafted; or the timer) never decreases the view, the
   view of the highest commit certificate or the view of the highest timeout certificate.
   (Overflow checks on: at view u64::MAX the code panics instead of wrapping.) *)
Theorem C05_step_monotone : forall cfg s i, cchk cfg = true ->
  st_le s (ReplicaMono.st_of (rstep cfg s i)).
Proof. exact rstep_monotone. Qed.
Print Assumptions C05_step_monotone.

Theorem C05_run_monotone : forall cfg inputs, cchk cfg = true -> forall s, st_le s (rsteps cfg s inputs).
Proof. exact rsteps_monotone. Qed.
Print Assumptions C05_run_monotone.

(* the certificates a replica holds verify, and stay so along every step *)
Theorem C05_held_certificates_verify : forall cfg s i, cache_inv cfg s -> certs_ok cfg s ->
  certs_ok cfg (ReplicaMono.st_of (rstep cfg s i)) /\ Forall (eff_ok cfg) (effs_of (rstep cfg s i)).
Proof. exact rstep_good. Qed.
Print Assumptions C05_held_certificates_verify.

(* justified: a completed step that raises the view leaves the replica holding a commit or
   timeout certificate for (at least) the preceding view *)
Theorem C05_view_change_justified : forall cfg, cchk cfg = true -> forall s i s' es,
  cache_inv cfg s -> rstep cfg s i = (s', es, Ok tt) -> r_view s < r_view s' -> justified s'.
Proof. exact view_change_justified. Qed.
Print Assumptions C05_view_change_justified.

(* self-justifying: every new-view, timeout and commit message the replica ever emits — along any
   operation sequence with crashes at any persist point and restarts, starting from the default
   (or any verified) durable state — verifies in isolation *)
Theorem C05_emitted_self_justifying : forall cfg d first next ops, durable_ok cfg d ->
  Forall (msg_ok cfg) (case_log (cfg, d, first, next, ops)).
Proof. exact emitted_self_justifying. Qed.
Print Assumptions C05_emitted_self_justifying.

Theorem C05_default_state_ok : forall cfg, durable_ok cfg durable_default.
Proof. exact durable_default_ok. Qed.

(* the justification carried by new-view messages is the highest certificate held, the commit
   certificate being preferred on a tie *)
Theorem C05_justification_is_highest : forall cfg s j, certs_ok cfg s -> get_justification s = Ok j ->
  match j with
  | JCommit q => r_high_cqc s = Some q /\
                 forall t, r_high_tqc s = Some t -> vnum (tqview t) <= vnum (cview (qmsg q))
  | JTimeout t => r_high_tqc s = Some t /\
                  forall q, r_high_cqc s = Some q -> vnum (cview (qmsg q)) < vnum (tqview t)
  end.
Proof. exact get_justification_highest. Qed.
Print Assumptions C05_justification_is_highest.

(* Non-vacuity: 1-validator committee; the replica starts in view 0, times out, receives its own
   timeout vote, forms the timeout certificate and moves to view 1 holding it. *)
Example C05_nonvacuous :
  let C := [{| mkey := 0; mweight := 1 |}] in
  let cfg := {| cg := 0; ce := 0; cC := C; cme := 0; cfirst := 0; cmaxpay := 100;
                cpsize := (fun _ => 10); cpok := (fun _ _ => true); cchk := true |} in
  let s0 := rstart cfg durable_default 0 0 in
  let s1 := ReplicaMono.st_of (rprologue cfg s0) in
  let t := {| tview := {| vgen := 0; vepoch := 0; vnum := 0 |}; thv := None; thq := None |} in
  let r := rstep cfg s1 (IMsg {| m_key := 0; m_sig_ok := true; m_msg := MTimeout t |}) in
  r_view s1 = 0 /\ r_view (ReplicaMono.st_of r) = 1 /\ snd r = Ok tt /\
  exists tq, r_high_tqc (ReplicaMono.st_of r) = Some tq /\ tqc_verify 0 0 C tq = Ok tt.
Proof. cbv zeta. split; [reflexivity|]. split; [vm_compute; reflexivity|]. split; [vm_compute; reflexivity|].
  eexists. split; vm_compute; reflexivity. Qed.
