(* C05 — placeholder while the proofs are being written. *)
From Coq Require Import ZArith List. Import ListNotations. Open Scope Z_scope.
From EC Require Import Lib.Outcome Model.Msgs Model.Replica.
Example C05_model_loads : phase_eqb Prepare Prepare = true.
Proof. reflexivity. Qed.
