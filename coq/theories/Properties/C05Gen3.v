(* C01-C06 / C16, translator tie, part 2: the message handlers of the replica.  For each handler the GUARD (all checks
   down to "All checks finished") and the TAIL (state updates, effects in program order) are regenerated from the
   source (Gen/Replica{Commit,Timeout,NewView,Proposal}.v) and proved equal to the corresponding pieces of the hand
   model Model/Replica.v; the split of each model handler into guard / untranslated middle / tail is itself a theorem
   here (on_*_split).  The middle parts (assembly of the certificate under construction; payload checks of a
   proposal) are NOT translated: they are pinned by syntax hash in the generated files. *)
From Coq Require Import ZArith List Lia Bool.
From EC Require Import Lib.Outcome Lib.U64 Lib.RustSem Lib.ListW Lib.Obs Model.Msgs Model.Replica Model.ReplicaGlue Proofs.GenTac.
From EC Require Import Gen.Numbers Gen.Justification Gen.QCVerify Gen.ReplicaCore.
From EC Require Import Gen.ReplicaCommit Gen.ReplicaTimeout Gen.ReplicaNewView Gen.ReplicaProposal.
From EC Require Import Properties.C02Gen Properties.C04Gen Properties.C05Gen Properties.C05Gen2.
Import ListNotations.
Open Scope Z_scope.

Definition hof {A} (s : rstate) (x : outcome rerr A) (k : A -> hres unit) : hres unit :=
  match x with Ok a => k a | Err e => hfail s e | Panic p => hpanic s p end.

Lemma bt_insert_zmap_set : forall A (m : list (Z * A)) k a, bt_insert Z.ltb Z.eqb m k a = zmap_set m k a.
Proof.
  intros A m k a. induction m as [|[k' a'] m IH]; [reflexivity|].
  cbn [bt_insert zmap_set]. rewrite IH. reflexivity.
Qed.
Lemma bt_get_cmap_get : forall (m : list (commit * cqc)) c, bt_get commit_eqb m c = cmap_get m c.
Proof. intros m c. induction m as [|[c' q] m IH]; [reflexivity|]. cbn [bt_get cmap_get]. rewrite IH. reflexivity. Qed.
Lemma retain_eq : forall A (qcs : list (Z * A)) (views : list (Z * Z)),
  filter (fun '(vn, _) => existsb (Z.eqb vn) (map snd views)) qcs = retain_views qcs views.
Proof.
  intros A qcs views. unfold retain_views. induction qcs as [|[vn a] qcs IH]; [reflexivity|].
  cbn [filter fst]. rewrite IH.
  replace (existsb (Z.eqb vn) (map snd views)) with (existsb (fun kv : Z * Z => snd kv =? vn) views); [reflexivity|].
  clear. induction views as [|[k v] views IH]; [reflexivity|]. cbn [existsb map snd]. rewrite IH, (Z.eqb_sym v vn). reflexivity.
Qed.

(* ---------- commit.rs ---------- *)
Definition m_on_commit_guard (cfg : config) (s : rstate) (key : Z) (sig_ok : bool) (c : commit) : outcome rerr unit :=
  if negb (ccontains cfg key) then Err RNonValidatorSigner else
  if vnum (cview c) <? r_view s then Err ROld else
  if match zmap_get (r_commit_views s) key with Some v' => vnum (cview c) <=? v' | None => false end then Err RDuplicateSigner else
  if negb sig_ok then Err RInvalidSignature else
  match commit_verify (cg cfg) (ce cfg) c with
  | Err e => Err (RInvalidMessage (OZ (view_err_code e)))
  | Panic p => Panic p
  | Ok _ => Ok tt
  end.

(* everything after the vote has been added to the certificate under construction (state [s] already holds it) *)
Definition m_on_commit_tail (cfg : config) (s : rstate) (key : Z) (c : commit) (w : Z) : hres unit :=
  let v := vnum (cview c) in
  let views := zmap_set (r_commit_views s) key v in
  let qcs := retain_views (r_commit_qcs s) views in
  let s := set_commit_caches s views qcs in
  if w <? quorum (cC cfg) then hret s tt else
  match zmap_get qcs v with
  | None => hpanic s PUnwrap
  | Some b =>
      match cmap_get b c with
      | None => hpanic s PUnwrap
      | Some qc =>
          let s := set_commit_caches s views (zmap_remove qcs v) in
          hbind (process_commit_qc cfg s qc) (fun s _ =>
          hbind (lift s (num_next (cchk cfg) v)) (fun s nv => start_new_view cfg s nv))
      end
  end.

(* the untranslated middle: CommitQC::new / add / weight on the entry of commit_qcs_cache (its decision is C04Gen) *)
Definition m_on_commit_assemble (cfg : config) (s : rstate) (key : Z) (c : commit) (k : rstate -> Z -> hres unit) : hres unit :=
  let v := vnum (cview c) in
  let bucket := match zmap_get (r_commit_qcs s) v with Some b => b | None => [] end in
  let q0 := match cmap_get bucket c with Some q => q | None => cqc_new c (cC cfg) end in
  match cqc_add (cg cfg) (ce cfg) (cC cfg) q0 {| skey := key; smsg := c; ssig := (key, RCommit c) |} with
  | Err _ => hpanic s PUnwrap
  | Panic p => hpanic s p
  | Ok q =>
      match signers_weight (E := rerr) (cC cfg) (qsigners q) with
      | Err e => hfail s e
      | Panic p => hpanic s p
      | Ok w => k (set_commit_caches s (r_commit_views s) (zmap_set (r_commit_qcs s) v (cmap_set bucket c q))) w
      end
  end.

Theorem on_commit_split : forall cfg s key sig_ok c,
  on_commit cfg s key sig_ok c =
  hof s (m_on_commit_guard cfg s key sig_ok c) (fun _ =>
    m_on_commit_assemble cfg s key c (fun s' w => m_on_commit_tail cfg s' key c w)).
Proof.
  intros cfg s key sig_ok c. unfold on_commit, m_on_commit_guard, m_on_commit_assemble, m_on_commit_tail, hof.
  destruct (negb (ccontains cfg key)); [reflexivity|].
  destruct (vnum (cview c) <? r_view s); [reflexivity|].
  destruct (match zmap_get (r_commit_views s) key with Some v' => vnum (cview c) <=? v' | None => false end); [reflexivity|].
  destruct (negb sig_ok); [reflexivity|].
  destruct (commit_verify (cg cfg) (ce cfg) c) as [[]|e|p]; try reflexivity.
Qed.
Print Assumptions on_commit_split.

Theorem C05_generated_on_commit_guard : forall chk cfg s key sig_ok c,
  gen_StateMachine_on_commit_guard chk s (key, sig_ok, c) cfg = m_on_commit_guard cfg s key sig_ok c.
Proof.
  intros chk cfg s key sig_ok c. unfold gen_StateMachine_on_commit_guard, m_on_commit_guard, ccontains. cbn [fst snd].
  rewrite bt_get_zmap_get, C04_generated_commit_verify.
  destruct (cindex (cC cfg) key); cbn [negb]; [|reflexivity].
  destruct (vnum (cview c) <? r_view s); [reflexivity|].
  destruct (zmap_get (r_commit_views s) key) as [v'|]; [destruct (vnum (cview c) <=? v')|]; cbn [bind]; try reflexivity;
    destruct sig_ok; cbn [negb rmap_err bind]; try reflexivity;
    destruct (commit_verify (cg cfg) (ce cfg) c) as [[]|e|p]; reflexivity.
Qed.
Print Assumptions C05_generated_on_commit_guard.

Lemma hlift_lift : forall A (s : rstate) (x : outcome rerr A) (y : outcome unit A),
  (forall a, x = Ok a <-> y = Ok a) -> (forall p, x = Panic p <-> y = Panic p) -> (forall e, x <> Err e) -> (forall e, y <> Err e) ->
  hlift s x = lift s y.
Proof.
  intros A s x y Hok Hp Hx Hy. destruct x as [a|e|p].
  - rewrite (proj1 (Hok a) eq_refl). reflexivity.
  - exfalso. exact (Hx e eq_refl).
  - rewrite (proj1 (Hp p) eq_refl). reflexivity.
Qed.

Lemma next_lift : forall chk s v, hlift s (gen_ViewNumber_next chk v) = lift s (num_next chk v).
Proof.
  intros chk s v. unfold gen_ViewNumber_next, num_next, u64_add.
  destruct (v + 1 <? U64); [reflexivity|]. destruct chk; reflexivity.
Qed.

(* equal, except that when both sides panic (same effects so far, same panic) the state left behind may differ:
   the source removes the map entry before it unwraps it *)
Definition hres_sim {A} (x y : hres A) : Prop :=
  x = y \/ exists s1 s2 es p, x = (s1, es, Panic p) /\ y = (s2, es, Panic p).

Theorem C05_generated_on_commit_tail : forall cfg s key c w,
  hres_sim (gen_StateMachine_on_commit_tail (cchk cfg) s c key w cfg) (m_on_commit_tail cfg s key c w).
Proof.
  intros cfg s key c w. unfold gen_StateMachine_on_commit_tail, m_on_commit_tail. cbv zeta.
  cbn [r_commit_views r_commit_qcs set_commit_caches].
  rewrite !bt_insert_zmap_set, !retain_eq, !bt_get_zmap_get.
  destruct (w <? quorum (cC cfg)); [left; reflexivity|].
  destruct (zmap_get (retain_views (r_commit_qcs s) (zmap_set (r_commit_views s) key (vnum (cview c)))) (vnum (cview c))) as [b|];
    cbn [unwrap hlift]; hsimpl; [|right; do 4 eexists; split; reflexivity].
  rewrite bt_get_cmap_get. destruct (cmap_get b c) as [qc|]; cbn [unwrap hlift]; hsimpl; [|right; do 4 eexists; split; reflexivity].
  left. rewrite C05_generated_process_commit_qc. apply hbind_ext. intros s1 u.
  rewrite next_lift. apply hbind_ext. intros s2 nv. hsimpl. apply C05_generated_start_new_view.
Qed.
Print Assumptions C05_generated_on_commit_tail.

(* ---------- timeout.rs: on_timeout ---------- *)
Definition m_on_timeout_guard (cfg : config) (s : rstate) (key : Z) (sig_ok : bool) (t : timeout) : outcome rerr unit :=
  if negb (ccontains cfg key) then Err RNonValidatorSigner else
  if vnum (tview t) <? r_view s then Err ROld else
  if match zmap_get (r_timeout_views s) key with Some v' => vnum (tview t) <=? v' | None => false end then Err RDuplicateSigner else
  if negb sig_ok then Err RInvalidSignature else
  match timeout_verify (cg cfg) (ce cfg) (cC cfg) t with
  | Err e => Err (RInvalidMessage (timeout_verify_err_obs e))
  | Panic p => Panic p
  | Ok _ => Ok tt
  end.

Definition m_on_timeout_tail (cfg : config) (s : rstate) (key : Z) (t : timeout) (w : Z) : hres unit :=
  let v := vnum (tview t) in
  let views := zmap_set (r_timeout_views s) key v in
  let qcs := retain_views (r_timeout_qcs s) views in
  let s := set_timeout_caches s views qcs in
  if w <? quorum (cC cfg) then hret s tt else
  match zmap_get qcs v with
  | None => hpanic s PUnwrap
  | Some qc =>
      let s := set_timeout_caches s views (zmap_remove qcs v) in
      hbind (process_timeout_qc cfg s qc) (fun s _ =>
      hbind (lift s (num_next (cchk cfg) v)) (fun s nv => start_new_view cfg s nv))
  end.

Definition m_on_timeout_assemble (cfg : config) (s : rstate) (key : Z) (t : timeout) (k : rstate -> Z -> hres unit) : hres unit :=
  let v := vnum (tview t) in
  let q0 := match zmap_get (r_timeout_qcs s) v with Some q => q | None => tqc_new (tview t) end in
  match tqc_add (cg cfg) (ce cfg) (cC cfg) q0 {| skey := key; smsg := t; ssig := (key, TTimeout t) |} with
  | Err _ => hpanic s PUnwrap
  | Panic p => hpanic s p
  | Ok q =>
      match tqc_weight (E := rerr) (cC cfg) q with
      | Err e => hfail s e
      | Panic p => hpanic s p
      | Ok w => k (set_timeout_caches s (r_timeout_views s) (zmap_set (r_timeout_qcs s) v q)) w
      end
  end.

Theorem on_timeout_split : forall cfg s key sig_ok t,
  on_timeout cfg s key sig_ok t =
  hof s (m_on_timeout_guard cfg s key sig_ok t) (fun _ =>
    m_on_timeout_assemble cfg s key t (fun s' w => m_on_timeout_tail cfg s' key t w)).
Proof.
  intros cfg s key sig_ok t. unfold on_timeout, m_on_timeout_guard, m_on_timeout_assemble, m_on_timeout_tail, hof.
  destruct (negb (ccontains cfg key)); [reflexivity|].
  destruct (vnum (tview t) <? r_view s); [reflexivity|].
  destruct (match zmap_get (r_timeout_views s) key with Some v' => vnum (tview t) <=? v' | None => false end); [reflexivity|].
  destruct (negb sig_ok); [reflexivity|].
  destruct (timeout_verify (cg cfg) (ce cfg) (cC cfg) t) as [[]|e|p]; try reflexivity.
Qed.
Print Assumptions on_timeout_split.

Theorem C05_generated_on_timeout_guard : forall chk cfg s key sig_ok t,
  gen_StateMachine_on_timeout_guard chk s (key, sig_ok, t) cfg = m_on_timeout_guard cfg s key sig_ok t.
Proof.
  intros chk cfg s key sig_ok t. unfold gen_StateMachine_on_timeout_guard, m_on_timeout_guard, ccontains. cbn [fst snd].
  rewrite bt_get_zmap_get, C04_generated_timeout_verify.
  destruct (cindex (cC cfg) key); cbn [negb]; [|reflexivity].
  destruct (vnum (tview t) <? r_view s); [reflexivity|].
  destruct (zmap_get (r_timeout_views s) key) as [v'|]; [destruct (vnum (tview t) <=? v')|]; cbn [bind]; try reflexivity;
    destruct sig_ok; cbn [negb rmap_err bind]; try reflexivity;
    destruct (timeout_verify (cg cfg) (ce cfg) (cC cfg) t) as [[]|e|p]; reflexivity.
Qed.
Print Assumptions C05_generated_on_timeout_guard.

Theorem C05_generated_on_timeout_tail : forall cfg s key t w,
  hres_sim (gen_StateMachine_on_timeout_tail (cchk cfg) s t key w cfg) (m_on_timeout_tail cfg s key t w).
Proof.
  intros cfg s key t w. unfold gen_StateMachine_on_timeout_tail, m_on_timeout_tail. cbv zeta.
  cbn [r_timeout_views r_timeout_qcs set_timeout_caches].
  rewrite !bt_insert_zmap_set, !retain_eq, !bt_get_zmap_get.
  destruct (w <? quorum (cC cfg)); [left; reflexivity|].
  destruct (zmap_get (retain_views (r_timeout_qcs s) (zmap_set (r_timeout_views s) key (vnum (tview t)))) (vnum (tview t))) as [qc|];
    cbn [unwrap hlift]; hsimpl; [|right; do 4 eexists; split; reflexivity].
  left. rewrite C05_generated_process_timeout_qc. apply hbind_ext. intros s1 u.
  rewrite next_lift. apply hbind_ext. intros s2 nv. hsimpl. apply C05_generated_start_new_view.
Qed.
Print Assumptions C05_generated_on_timeout_tail.

(* ---------- justification: verify / view of the messages that carry one ---------- *)
Theorem C05_generated_justification_verify : forall chk j g e C,
  gen_ProposalJustification_verify chk j g e C = justification_verify g e C j.
Proof.
  intros chk j g e C. unfold gen_ProposalJustification_verify, justification_verify.
  destruct j as [q|t]; [rewrite C04_generated_cqc_verify|rewrite C04_generated_tqc_verify]; reflexivity.
Qed.
Print Assumptions C05_generated_justification_verify.

Lemma new_view_verify : forall chk j g e C, gen_ReplicaNewView_verify chk j g e C = justification_verify g e C j.
Proof.
  intros. unfold gen_ReplicaNewView_verify. unfold id. rewrite C05_generated_justification_verify.
  destruct (justification_verify g e C j) as [[]|x|p]; reflexivity.
Qed.
Lemma new_view_view : forall (E : Type) chk j, @gen_ReplicaNewView_view E chk j = justification_view chk j.
Proof. intros. unfold gen_ReplicaNewView_view, id. apply C02_generated_justification_view. Qed.
Lemma proposal_verify : forall chk m g e C, gen_LeaderProposal_verify chk m g e C = justification_verify g e C (snd m).
Proof.
  intros. unfold gen_LeaderProposal_verify. rewrite C05_generated_justification_verify.
  destruct (justification_verify g e C (snd m)) as [[]|x|p]; reflexivity.
Qed.
Lemma proposal_view : forall (E : Type) chk m, @gen_LeaderProposal_view E chk m = justification_view chk (snd m).
Proof. intros. unfold gen_LeaderProposal_view. apply C02_generated_justification_view. Qed.

(* justification_view never returns Err, so lifting it into either error type is the same *)
Lemma jview_cases : forall chk j,
  (exists mv, (forall E, @justification_view E chk j = Ok mv)) \/ (exists p, forall E, @justification_view E chk j = Panic p).
Proof.
  intros chk j. unfold justification_view, num_next, u64_add.
  destruct (vnum _ + 1 <? U64); [left; eexists; intros; reflexivity|].
  destruct chk; [right; eexists; intros; reflexivity|left; eexists; intros; reflexivity].
Qed.

(* ---------- new_view.rs: on_new_view ---------- *)
Definition m_on_new_view_guard (cfg : config) (s : rstate) (key : Z) (sig_ok : bool) (j : justification) : outcome rerr unit :=
  let* mv := justification_view (cchk cfg) j in
  let view := vnum mv in
  if (view <? r_view s) || ((view =? r_view s) && negb (key =? cleader cfg (r_view s))) then Err ROld else
  if negb (ccontains cfg key) then Err RNonValidatorSigner else
  if negb sig_ok then Err RInvalidSignature else
  match justification_verify (cg cfg) (ce cfg) (cC cfg) j with
  | Err e => Err (RInvalidMessage (just_err_obs e))
  | Panic p => Panic p
  | Ok _ => Ok tt
  end.

Definition m_on_new_view_tail (cfg : config) (s : rstate) (j : justification) : hres unit :=
  hbind (process_justification cfg s j) (fun s _ =>
  hbind (lift s (justification_view (cchk cfg) j)) (fun s mv =>
  if r_view s <? vnum mv then start_new_view cfg s (vnum mv) else hret s tt)).

Theorem on_new_view_split : forall cfg s key sig_ok j,
  on_new_view cfg s key sig_ok j = hof s (m_on_new_view_guard cfg s key sig_ok j) (fun _ => m_on_new_view_tail cfg s j).
Proof.
  intros cfg s key sig_ok j. unfold on_new_view, m_on_new_view_guard, m_on_new_view_tail, hof.
  destruct (jview_cases (cchk cfg) j) as [[mv H]|[p H]]; rewrite ?(H unit), ?(H rerr); cbn [lift bind]; hsimpl; [|reflexivity].
  destruct ((vnum mv <? r_view s) || ((vnum mv =? r_view s) && negb (key =? cleader cfg (r_view s)))); [reflexivity|].
  destruct (negb (ccontains cfg key)); [reflexivity|].
  destruct (negb sig_ok); [reflexivity|].
  destruct (justification_verify (cg cfg) (ce cfg) (cC cfg) j) as [[]|e|p]; try reflexivity.
  apply hbind_ext. intros s1 u. rewrite ?(H unit). cbn [lift]. hsimpl. reflexivity.
Qed.
Print Assumptions on_new_view_split.

Theorem C05_generated_on_new_view_guard : forall cfg s key sig_ok j,
  gen_StateMachine_on_new_view_guard (cchk cfg) s (key, sig_ok, j) cfg = m_on_new_view_guard cfg s key sig_ok j.
Proof.
  intros cfg s key sig_ok j. unfold gen_StateMachine_on_new_view_guard, m_on_new_view_guard, ccontains. cbn [fst snd].
  rewrite !new_view_view, new_view_verify.
  destruct (jview_cases (cchk cfg) j) as [[mv H]|[p H]]; rewrite !H; cbn [bind]; [|reflexivity].
  destruct (vnum mv <? r_view s); cbn [orb bind].
  - reflexivity.
  - destruct ((vnum mv =? r_view s) && negb (key =? cleader cfg (r_view s))); [reflexivity|].
    destruct (cindex (cC cfg) key); cbn [negb]; [|reflexivity].
    destruct sig_ok; cbn [negb rmap_err bind]; [|reflexivity].
    destruct (justification_verify (cg cfg) (ce cfg) (cC cfg) j) as [[]|e|p]; reflexivity.
Qed.
Print Assumptions C05_generated_on_new_view_guard.

Lemma gen_process_justification : forall chk cfg s j,
  match j with
  | JCommit q => gen_StateMachine_process_commit_qc chk s q cfg
  | JTimeout t => gen_StateMachine_process_timeout_qc chk s t cfg
  end = process_justification cfg s j.
Proof.
  intros. destruct j; [apply C05_generated_process_commit_qc|apply C05_generated_process_timeout_qc].
Qed.

Theorem C05_generated_on_new_view_tail : forall cfg s j,
  gen_StateMachine_on_new_view_tail (cchk cfg) s j cfg = m_on_new_view_tail cfg s j.
Proof.
  intros cfg s j. unfold gen_StateMachine_on_new_view_tail, m_on_new_view_tail, id.
  rewrite gen_process_justification. apply hbind_ext. intros s1 u. hsimpl.
  rewrite (new_view_view rerr (cchk cfg) j).
  destruct (jview_cases (cchk cfg) j) as [[mv H]|[p H]]; rewrite ?(H unit), ?(H rerr); cbn [hlift lift]; hsimpl; [|reflexivity].
  destruct (r_view s1 <? vnum mv); [|reflexivity].
  hsimpl. apply C05_generated_start_new_view.
Qed.
Print Assumptions C05_generated_on_new_view_tail.

(* ---------- the model's pure decision functions do not depend on the error type they are used at ---------- *)
Definition ocast {E F A} (x : outcome E A) : outcome F A :=
  match x with Ok a => Ok a | Err _ => Panic PUnreachable | Panic p => Panic p end.

Lemma signers_weight_cast : forall E F C s, @signers_weight F C s = ocast (@signers_weight E C s).
Proof. intros. unfold signers_weight. destruct (Nat.eqb (length s) (length C)); reflexivity. Qed.

Lemma high_vote_count_cast : forall E F C entries cnt,
  @high_vote_count F C entries cnt = ocast (@high_vote_count E C entries cnt).
Proof.
  intros E F C entries. induction entries as [|[msg s] rest IH]; intros cnt; [reflexivity|].
  cbn [high_vote_count]. destruct (thv msg) as [v|]; [|apply IH].
  rewrite (signers_weight_cast E F). destruct (@signers_weight E C s) as [w|x|p]; cbn [ocast bind]; try reflexivity. apply IH.
Qed.

Lemma high_vote_cast : forall E F C t, @high_vote F C t = ocast (@high_vote E C t).
Proof.
  intros. unfold high_vote. rewrite (high_vote_count_cast E F).
  destruct (@high_vote_count E C (tqmap t) []) as [cnt|x|p]; cbn [ocast bind]; try reflexivity.
  destruct (filter _ cnt) as [|x [|y l]]; reflexivity.
Qed.

Lemma num_next_cast : forall E F chk n, @num_next F chk n = ocast (@num_next E chk n).
Proof. intros. unfold num_next, u64_add. destruct (n + 1 <? U64); [reflexivity|]. destruct chk; reflexivity. Qed.

Lemma gib_cast : forall E F chk C fb j, @get_implied_block F chk C fb j = ocast (@get_implied_block E chk C fb j).
Proof.
  intros. unfold get_implied_block. destruct j as [q|t].
  - rewrite (num_next_cast E F). destruct (@num_next E chk _) as [n|x|p]; reflexivity.
  - rewrite (high_vote_cast E F). destruct (@high_vote E C t) as [hv|x|p]; cbn [ocast bind]; try reflexivity.
    destruct hv as [v|]; destruct (high_qc t) as [q|]; try reflexivity;
      try (destruct (hnum (cprop (qmsg q)) <? hnum v); try reflexivity);
      rewrite (num_next_cast E F); destruct (@num_next E chk _) as [n|x|p]; reflexivity.
Qed.

Lemma jview_cast : forall E F chk j, @justification_view F chk j = ocast (@justification_view E chk j).
Proof.
  intros. unfold justification_view. rewrite (num_next_cast E F). destruct (@num_next E chk _) as [n|x|p]; reflexivity.
Qed.

Lemma hlift_lift_cast : forall A (s : rstate) (x : outcome rerr A) (y : outcome unit A),
  x = ocast y -> y = ocast x -> hlift s x = lift s y.
Proof.
  intros A s x y Hx Hy. destruct y as [a|e|p]; cbn [ocast] in Hx; subst x; cbn [hlift lift]; try reflexivity.
  cbn [ocast] in Hy. discriminate.
Qed.

(* ---------- proposal.rs: on_proposal ---------- *)
Definition m_on_proposal_guard (cfg : config) (s : rstate) (key : Z) (sig_ok : bool) (j : justification) : outcome rerr (Z * option Z) :=
  let* mv := justification_view (cchk cfg) j in
  let view := vnum mv in
  if (view <? r_view s) || ((view =? r_view s) && negb (phase_eqb (r_phase s) Prepare)) then Err ROld else
  if negb (key =? cleader cfg view) then Err RInvalidLeader else
  if negb sig_ok then Err RInvalidSignature else
  match justification_verify (cg cfg) (ce cfg) (cC cfg) j with
  | Err e => Err (RInvalidMessage (just_err_obs e))
  | Panic p => Panic p
  | Ok _ =>
      let* imp := get_implied_block (cchk cfg) (cC cfg) (cfirst cfg) j in
      if fst imp <? r_store_first s then Err RProposalAlreadyPruned else Ok imp
  end.

(* the untranslated middle: payload checks and caching *)
Definition m_on_proposal_payload (cfg : config) (s : rstate) (payload : option Z) (n : Z) (oh : option Z) : hres Z :=
  match oh with
  | Some h => match payload with Some _ => hfail s RReproposalWithPayload | None => hret s h end
  | None =>
      match payload with
      | None => hfail s RMissingPayload
      | Some p =>
          if cmaxpay cfg <? cpsize cfg p then hfail s ROversizedPayload else
          if (0 <? n) && negb (n - 1 <? r_store_next s) then hfail s RMissingPreviousPayload else
          if negb ((cfirst cfg <=? n) && cpok cfg n p) then hfail s RInvalidPayload else
          hret (set_cache s (cache_insert (r_cache s) n p)) p
      end
  end.

Definition m_on_proposal_tail (cfg : config) (s : rstate) (j : justification) (n hash : Z) : hres unit :=
  hbind (lift s (justification_view (cchk cfg) j)) (fun s mv =>
  let vote := {| cview := mv; cprop := {| hnum := n; hpay := hash |} |} in
  let s := set_high_vote (set_phase (set_view s (vnum mv)) PCommit) (Some vote) in
  hbind (process_justification cfg s j) (fun s _ =>
  hbind (backup_state cfg s) (fun s _ =>
  hemit s (ESend (MCommit vote))))).

Theorem on_proposal_split : forall cfg s key sig_ok payload j,
  on_proposal cfg s key sig_ok payload j =
  match m_on_proposal_guard cfg s key sig_ok j with
  | Ok imp => hbind (m_on_proposal_payload cfg s payload (fst imp) (snd imp)) (fun s' hash => m_on_proposal_tail cfg s' j (fst imp) hash)
  | Err e => hfail s e
  | Panic p => hpanic s p
  end.
Proof.
  intros cfg s key sig_ok payload j. unfold on_proposal, m_on_proposal_guard, m_on_proposal_tail.
  destruct (jview_cases (cchk cfg) j) as [[mv H]|[p H]]; rewrite ?(H unit), ?(H rerr); cbn [lift bind]; hsimpl; [|reflexivity].
  destruct ((vnum mv <? r_view s) || ((vnum mv =? r_view s) && negb (phase_eqb (r_phase s) Prepare))); [reflexivity|].
  destruct (negb (key =? cleader cfg (vnum mv))); [reflexivity|].
  destruct (negb sig_ok); [reflexivity|].
  destruct (justification_verify (cg cfg) (ce cfg) (cC cfg) j) as [[]|e|p]; try reflexivity.
  rewrite (gib_cast unit rerr).
  destruct (@get_implied_block unit (cchk cfg) (cC cfg) (cfirst cfg) j) as [[n oh]|x|p] eqn:Hg; cbn [ocast lift bind]; hsimpl;
    try reflexivity.
  - cbn [fst snd]. destruct (n <? r_store_first s); [reflexivity|].
    unfold m_on_proposal_payload. apply hbind_ext. intros s1 hash. hsimpl. reflexivity.
  - exfalso. pose proof (gib_cast rerr unit (cchk cfg) (cC cfg) (cfirst cfg) j) as Hc. rewrite Hg in Hc.
    destruct (@get_implied_block rerr (cchk cfg) (cC cfg) (cfirst cfg) j); discriminate.
Qed.
Print Assumptions on_proposal_split.

Theorem C05_generated_on_proposal_guard : forall cfg s key sig_ok payload j,
  just_tally_ok (cC cfg) j -> just_nums_ok j ->
  gen_StateMachine_on_proposal_guard (cchk cfg) s (key, sig_ok, (payload, j)) cfg = m_on_proposal_guard cfg s key sig_ok j.
Proof.
  intros cfg s key sig_ok payload j Ht Hn. unfold gen_StateMachine_on_proposal_guard, m_on_proposal_guard. cbn [fst snd].
  rewrite (proposal_view rerr), proposal_verify. cbn [fst snd].
  destruct (jview_cases (cchk cfg) j) as [[mv H]|[p H]]; rewrite ?(H rerr); cbn [bind]; [|reflexivity].
  destruct ((vnum mv <? r_view s) || ((vnum mv =? r_view s) && negb (phase_eqb (r_phase s) Prepare))); [reflexivity|].
  destruct (negb (key =? cleader cfg (vnum mv))); [reflexivity|].
  destruct sig_ok; cbn [negb rmap_err bind]; [|reflexivity].
  destruct (justification_verify (cg cfg) (ce cfg) (cC cfg) j) as [[]|e|p]; cbn [rmap_err bind]; try reflexivity.
  rewrite (C02_generated_get_implied_block rerr (cchk cfg) (cC cfg) (cfirst cfg) j Ht Hn).
  destruct (@get_implied_block rerr (cchk cfg) (cC cfg) (cfirst cfg) j) as [[n oh]|x|p]; cbn [bind fst]; try reflexivity.
Qed.
Print Assumptions C05_generated_on_proposal_guard.

Theorem C05_generated_on_proposal_tail : forall cfg s payload j n hash,
  gen_StateMachine_on_proposal_tail (cchk cfg) s (payload, j) n hash cfg = m_on_proposal_tail cfg s j n hash.
Proof.
  intros cfg s payload j n hash. unfold gen_StateMachine_on_proposal_tail, m_on_proposal_tail.
  rewrite !(proposal_view rerr). cbn [snd].
  destruct (jview_cases (cchk cfg) j) as [[mv H]|[p H]]; rewrite ?(H unit), ?(H rerr); cbn [hlift lift]; hsimpl; [|reflexivity].
  cbv zeta. rewrite gen_process_justification. apply hbind_ext. intros s1 u.
  apply hbind_ext. intros s2 u2. unfold send_outbound. hsimpl. reflexivity.
Qed.
Print Assumptions C05_generated_on_proposal_tail.
