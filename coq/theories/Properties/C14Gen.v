(* C14 / C10, translator tie: the whole bit-packing API of node/components/network/src/mux/header.rs as
   regenerated from the source on every run (Gen/MuxHeader.v) equals the hand model Model/MuxHeader.v
   (constants, Header::new behind StreamId::new, the three field extractors, the wire bytes).  If the
   source changes meaning (a mask, a kind value, the packing), this file stops compiling. *)
From Coq Require Import ZArith List Lia Bool.
From EC Require Import Lib.Outcome Lib.U64 Lib.RustSem Model.MuxHeader Gen.MuxHeader Proofs.GenTac.
Import ListNotations.
Open Scope Z_scope.

Theorem C14_generated_constants :
  gen_FrameKind_OPEN = FK_OPEN /\ gen_FrameKind_DATA = FK_DATA /\ gen_FrameKind_CLOSE = FK_CLOSE /\
  gen_FrameKind_MASK = FK_MASK /\ gen_StreamKind_ACCEPT = SK_ACCEPT /\ gen_StreamKind_CONNECT = SK_CONNECT /\
  gen_StreamKind_MASK = SK_MASK /\ gen_StreamId_MASK = ID_MASK.
Proof. repeat split; vm_compute; reflexivity. Qed.
Print Assumptions C14_generated_constants.

Theorem C14_generated_frame_kind : forall h, gen_Header_frame_kind h = frame_kind h.
Proof. intros h. unfold gen_Header_frame_kind, frame_kind. f_equal. Qed.
Print Assumptions C14_generated_frame_kind.

Theorem C14_generated_stream_kind : forall h, gen_Header_stream_kind h = stream_kind h.
Proof. intros h. unfold gen_Header_stream_kind, stream_kind. f_equal. Qed.
Print Assumptions C14_generated_stream_kind.

Theorem C14_generated_stream_id : forall h, gen_Header_stream_id h = stream_id h.
Proof. intros h. unfold gen_Header_stream_id, stream_id. f_equal. Qed.
Print Assumptions C14_generated_stream_id.

(* Header::new(FrameKind(fk), StreamKind(sk), StreamId::new(id)) *)
Theorem C14_generated_header_new : forall chk fk sk id,
  (let* i := @gen_StreamId_new unit chk id in Ok (gen_Header_new fk sk i)) = header_new fk sk id.
Proof.
  intros chk fk sk id. unfold gen_StreamId_new, gen_Header_new, header_new.
  change gen_StreamId_MASK with ID_MASK. gen_auto.
Qed.
Print Assumptions C14_generated_header_new.

Theorem C14_generated_raw : forall h, gen_Header_raw h = header_raw h.
Proof. intros h. reflexivity. Qed.
Print Assumptions C14_generated_raw.

Theorem C14_generated_from_bytes : forall b0 b1, gen_Header_from_bytes [b0; b1] = header_of_bytes b0 b1.
Proof. intros b0 b1. reflexivity. Qed.
Print Assumptions C14_generated_from_bytes.

(* the three fields partition the 16 bits: the generated masks are disjoint and cover 0xFFFF *)
Theorem C14_generated_masks_partition :
  Z.land gen_FrameKind_MASK gen_StreamKind_MASK = 0 /\ Z.land gen_FrameKind_MASK gen_StreamId_MASK = 0 /\
  Z.land gen_StreamKind_MASK gen_StreamId_MASK = 0 /\
  Z.lor (Z.lor gen_FrameKind_MASK gen_StreamKind_MASK) gen_StreamId_MASK = 65535.
Proof. repeat split. Qed.
Print Assumptions C14_generated_masks_partition.

Example C14_generated_header_example :
  (let* i := @gen_StreamId_new unit true 5 in Ok (gen_Header_new gen_FrameKind_DATA gen_StreamKind_CONNECT i)) = Ok 24581 /\
  gen_Header_frame_kind 24581 = gen_FrameKind_DATA /\ gen_Header_stream_id 24581 = 5 /\
  @gen_StreamId_new unit true 8192 = Panic PAssert.
Proof. repeat split. Qed.
