(* C06 — Progress: after the network heals, new blocks are committed.
   Statements only; proofs are in Proofs/ReplicaLive.v.

   What is proved here is LOCAL to one replica (Model/Replica.v, Model/ReplicaRun.v):
   - the invariant [just_ok] (a replica that has left view 0 holds a certificate) of every
     handler invocation with any outcome, of restarts from any persisted state and of the
     prologue of the run loop, from the default durable state, across crashes at every persist
     point (run_op);
   - [timer_always_enabled]: in every such state the view timer is accepted, keeps the view and
     emits exactly: the persist, the new-view re-broadcast (view <> 0) carrying
     get_justification, and the timeout vote for the current view with the replica's high vote
     and high commit certificate — no reachable state switches retransmission off;
   - [catch_up]: a validly signed new-view message of a committee member whose justification
     verifies and is for a higher view moves the replica to that view (and makes it re-broadcast
     a new-view), unless save_block would wait for a gap in the block store.
   - the invariant and the enabled timer lifted to every reachable state of the cluster model
     Model/Sim.v (Proofs/SimLive.v).
   The GLOBAL statement (every up honest node commits a new block within a bounded number of
   synchronous rounds after any adversarial prefix) is [C06_full] over the cluster model
   Model/Sim.v; it is stated, not proved: it is MONITORED on the implementation and on the model
   by the cluster correspondence (gen/c06.py). *)
From Coq Require Import ZArith List Bool.
From EC Require Import Lib.Outcome Lib.U64 Lib.ListW Lib.Obs Model.Msgs Model.Replica Model.ReplicaRun
  Model.Sim Proofs.ReplicaLive Proofs.SimLive.
Import ListNotations.
Open Scope Z_scope.

(* ---------- the invariant ---------- *)
Theorem C06_just_ok_step : forall cfg s i s' es r, just_ok s -> rstep_t cfg s i = (s', es, r) ->
  just_ok s' /\ Forall persist_ok es.
Proof. exact rstep_t_just_ok. Qed.
Print Assumptions C06_just_ok_step.

Theorem C06_just_ok_handler : forall cfg s i s' es r, just_ok s -> rstep cfg s i = (s', es, r) ->
  just_ok s' /\ Forall persist_ok es.
Proof. exact rstep_just_ok. Qed.
Print Assumptions C06_just_ok_handler.

Theorem C06_just_ok_start : forall cfg d first next s' es r,
  dur_ok d -> rprologue cfg (rstart cfg d first next) = (s', es, r) ->
  just_ok (rstart cfg d first next) /\ just_ok s' /\ Forall persist_ok es.
Proof.
  intros cfg d first next s' es r Hd H. pose proof (rstart_just_ok cfg d first next Hd) as H0.
  split; [exact H0|]. exact (rprologue_just_ok cfg _ s' es r H0 H).
Qed.
Print Assumptions C06_just_ok_start.

Theorem C06_persisted_states_ok : forall cfg s, just_ok s -> dur_ok (backup cfg s).
Proof. exact backup_dur_ok. Qed.
Print Assumptions C06_persisted_states_ok.

(* every operation of a run, crashes at any persist point with either outcome included *)
Theorem C06_just_ok_run : forall cfg ops st, rs_ok st -> rs_ok (run_sts cfg st ops).
Proof. exact run_sts_rs_ok. Qed.
Print Assumptions C06_just_ok_run.

(* ---------- retransmission can never be switched off ---------- *)
Theorem C06_timer_always_enabled : forall cfg s, just_ok s ->
  exists d,
    start_timeout cfg s =
      (set_phase s PTimeout,
       EPersist d ::
         (if r_view s =? 0 then []
          else match get_justification (set_phase s PTimeout) with
               | Ok j => [ESend (MNewView j)] | _ => [] end) ++
         [ESend (MTimeout {| tview := {| vgen := cg cfg; vepoch := ce cfg; vnum := r_view s |};
                             thv := r_high_vote s; thq := r_high_cqc s |})],
       Ok tt) /\
    d = backup cfg (set_phase s PTimeout) /\
    (r_view s <> 0 -> exists j, get_justification (set_phase s PTimeout) = Ok j).
Proof. exact timer_always_enabled. Qed.
Print Assumptions C06_timer_always_enabled.

(* in every state a replica can reach from the default durable state through any operation
   list (any messages, timers, block sync, crashes, restarts) the timer step succeeds *)
Theorem C06_reachable_timer_enabled : forall cfg first next ops,
  let s0 := rstart cfg durable_default first next in
  let '(s1, es, r) := rprologue cfg s0 in
  let '(d1, _) := apply_effects durable_default next es in
  forall st, st = run_sts cfg {| rs_s := s1; rs_d := d1; rs_dead := negb (is_ok r) |} ops ->
    snd (rstep cfg (rs_s st) ITimer) = Ok tt.
Proof. exact reachable_timer_enabled. Qed.
Print Assumptions C06_reachable_timer_enabled.

(* the same over the cluster model: in every state the cluster (Model/Sim.v) reaches through any
   schedule (deliveries in any order with loss and duplication, partitions, Byzantine messages of
   any content, crashes at any persist point, restarts, stops, block sync, rounds) every node
   satisfies the invariant and its timer step succeeds and keeps the view *)
Theorem C06_cluster_invariant : forall c, sim_ok (sim_final c).
Proof. exact sim_reachable_ok. Qed.
Print Assumptions C06_cluster_invariant.

Theorem C06_cluster_timer_always_enabled : forall c k nd,
  nth_error (s_nodes (sim_final c)) k = Some nd ->
  snd (rstep (sn_cfg nd) (rs_s (sn_rs nd)) ITimer) = Ok tt /\
  r_view (fst (fst (rstep (sn_cfg nd) (rs_s (sn_rs nd)) ITimer))) = r_view (rs_s (sn_rs nd)).
Proof. exact sim_timer_always_enabled. Qed.
Print Assumptions C06_cluster_timer_always_enabled.

(* ---------- lagging replicas catch up ---------- *)
Theorem C06_catch_up : forall cfg s key j mv,
  ccontains cfg key = true ->
  justification_view (E := unit) (cchk cfg) j = Ok mv ->
  justification_verify (cg cfg) (ce cfg) (cC cfg) j = Ok tt ->
  r_view s < vnum mv ->
  (forall q, just_cqc j = Some q -> ~ blocks_on s q) ->
  exists s' es,
    rstep cfg s (IMsg {| m_key := key; m_sig_ok := true; m_msg := MNewView j |}) = (s', es, Ok tt) /\
    r_view s' = vnum mv /\
    In (ESend (MNewView match get_justification s' with Ok j' => j' | _ => j end)) es.
Proof. exact catch_up. Qed.
Print Assumptions C06_catch_up.

(* ---------- the global statement (not proved; monitored) ---------- *)
Definition is_byz_op (o : sop) : bool :=
  match o with SByz _ _ | SByzLead _ _ _ _ | SByzEcho _ _ _ _ _ => true | _ => false end.
Definition is_round (o : sop) : bool := match o with SRound => true | _ => false end.

(* H-ADV: the adversary signs with the keys it holds and replays honest signatures it has seen *)
Definition cqc_sigs (q : cqc) : list (Z * cmsg) :=
  flat_map (fun kr => match snd kr with RCommit c => [(fst kr, MCommit c)] | ROther _ => [] end) (qagg q).
Definition timeout_sigs (t : timeout) : list (Z * cmsg) :=
  match thq t with Some q => cqc_sigs q | None => [] end.
Definition tqc_sigs (t : tqc) : list (Z * cmsg) :=
  flat_map (fun kr => match snd kr with TTimeout x => [(fst kr, MTimeout x)] | TOther _ => [] end) (tqagg t)
  ++ flat_map (fun en => timeout_sigs (fst en)) (tqmap t).
Definition just_sigs (j : justification) : list (Z * cmsg) :=
  match j with JCommit q => cqc_sigs q | JTimeout t => tqc_sigs t end.
Definition msg_sigs (m : cmsg) : list (Z * cmsg) :=
  match m with
  | MProposal _ j | MNewView j => just_sigs j
  | MCommit _ => []
  | MTimeout t => timeout_sigs t
  end.
Definition adm_msg (keys : list Z) (soup : list sgmsg) (m : sgmsg) : Prop :=
  m_sig_ok m = true ->
  ~ In (m_key m) keys /\
  forall k x, In (k, x) (msg_sigs (m_msg m)) -> In k keys ->
    exists sg, In sg soup /\ m_key sg = k /\ m_sig_ok sg = true /\ m_msg sg = x.
Definition adm_op (keys : list Z) (soup : list sgmsg) (o : sop) : Prop :=
  match o with
  | SByz _ m => adm_msg keys soup m
  | SByzLead key _ _ _ | SByzEcho key _ _ _ _ => ~ In key keys
  | _ => True
  end.
Fixpoint adm_ops (keys : list Z) (sm : sim) (ops : list sop) : Prop :=
  match ops with
  | [] => True
  | o :: rest => adm_op keys (s_soup sm) o /\ adm_ops keys (fst (fst (fst (sim_op sm o)))) rest
  end.

Definition key_weight (cfg : config) (key : Z) : Z :=
  match cindex (cC cfg) key with Some i => nth i (cweights (cC cfg)) 0 | None => 0 end.
Definition up_weight (cfg : config) (sm : sim) : Z :=
  fold_right Z.add 0 (map (fun nd => if node_up nd then key_weight cfg (cme (sn_cfg nd)) else 0) (s_nodes sm)).
Definition up_key (sm : sim) (key : Z) : bool :=
  existsb (fun nd => node_up nd && (cme (sn_cfg nd) =? key)) (s_nodes sm).
(* among any k + 1 consecutive views one is led by an up honest node *)
Definition faulty_run_le (cfg : config) (sm : sim) (k : nat) : Prop :=
  forall v, 0 <= v -> exists d, (d <= k)%nat /\ up_key sm (cleader cfg (v + Z.of_nat d)) = true.

(* the bound the cluster check monitors (gen/sim_gen.py round_bound) *)
Definition rounds_bound (k : nat) : nat := 9 + 2 * k.

Definition wf_case (cfg : config) (keys : list Z) : Prop :=
  cchk cfg = true /\ Forall (fun m => 0 < mweight m) (cC cfg) /\ ctotal (cC cfg) < U64 /\
  NoDup (map mkey (cC cfg)) /\ NoDup keys /\ Forall (fun k => ccontains cfg k = true) keys /\
  0 <= cfirst cfg /\
  (* H-ENG: the execution layer accepts what the proposer proposes *)
  (forall n p, 100 <= p < 500 -> cpok cfg n p = true /\ cpsize cfg p <= cmaxpay cfg).

Definition C06_full : Prop :=
  forall cfg keys prefix suffix k,
    wf_case cfg keys ->
    let sm0 := fst (fst (sim_init cfg keys)) in
    adm_ops keys sm0 (prefix ++ suffix) ->
    let sm := snd (sim_ops sm0 prefix) in
    (* the good period: up honest nodes hold a quorum, rounds keep coming, the adversary keeps
       sending whatever it can sign *)
    quorum (cC cfg) <= up_weight cfg sm ->
    faulty_run_le cfg sm k ->
    Forall (fun o => is_round o = true \/ is_byz_op o = true) suffix ->
    length (filter is_round suffix) = rounds_bound k ->
    let sm' := snd (sim_ops sm suffix) in
    forall i nd nd',
      nth_error (s_nodes sm) i = Some nd -> node_up nd = true ->
      nth_error (s_nodes sm') i = Some nd' ->
      node_up nd' = true /\ (length (sn_blocks nd) < length (sn_blocks nd'))%nat.

(* ---------- non-vacuity: concrete instances of the statements ---------- *)
Definition ex_cfg (n : nat) : config :=
  {| cg := 0; ce := 0; cC := map (fun i => {| mkey := Z.of_nat i; mweight := 1 |}) (seq 0 n); cme := 0;
     cfirst := 0; cmaxpay := 100; cpsize := (fun p => if p <? 500 then 20 else 320);
     cpok := (fun _ p => p <? 1000); cchk := true |}.

(* four honest validators, six synchronous rounds from the start: two blocks everywhere *)
Example C06_progress_instance :
  map (fun nd => length (sn_blocks nd)) (s_nodes (sim_final (ex_cfg 4, [0; 1; 2; 3], repeat SRound 6)))
  = [2; 2; 2; 2]%nat.
Proof. vm_compute. reflexivity. Qed.

(* six validators, validator 5 silent (Byzantine), node 1 crashes while timing out and node 2
   is partitioned away during the prefix: within rounds_bound 1 rounds everybody commits *)
Example C06_progress_after_faults :
  let prefix := [SRound; SCrashTimer 1 0 true; SDeliverFrom 0 [0; 1]; SDeliverFrom 1 [0; 1]; STimer 0;
                 SDeliverFrom 3 [3; 4]; SRestart 4] in
  let c k := (ex_cfg 6, [0; 1; 2; 3; 4], prefix ++ repeat SRound k) in
  map (fun nd => length (sn_blocks nd)) (s_nodes (sim_final (c 0%nat))) = [0; 0; 0; 0; 0]%nat /\
  forallb (fun nd => node_up nd && Nat.ltb 0 (length (sn_blocks nd))) (s_nodes (sim_final (c (rounds_bound 1)))) = true.
Proof. vm_compute. split; reflexivity. Qed.

(* a replica in view 3 of that run: the timer emits persist, new-view, timeout — and nothing else *)
Example C06_timer_instance :
  match s_nodes (sim_final (ex_cfg 4, [0; 1; 2; 3], repeat SRound 5)) with
  | nd :: _ =>
      let s := rs_s (sn_rs nd) in
      negb (r_view s =? 0) &&
      match snd (fst (rstep (sn_cfg nd) s ITimer)) with
      | [EPersist _; ESend (MNewView _); ESend (MTimeout t)] => vnum (tview t) =? r_view s
      | _ => false
      end
  | [] => false
  end = true.
Proof. vm_compute. reflexivity. Qed.
