(* C18 — The validator address book holds only authentic, newest announcements.
   Statements only; proofs are in Proofs/AddrBookProofs.v and Proofs/AddrBookHistory.v.
   Model: Model/AddrBook.v (ValidatorAddrs::update, ValidatorAddrsWatch::{update, announce},
   NetAddress::is_newer, the dial lookup of consensus::maintain_connection).
   [run chk [] ops] is the published book of a node after the history [ops] of
   push_validator_addrs batches (each under its own schedule, from any peer) and own
   announcements; [chk] = overflow checks of the build.  Signatures are the terms of H-SIG. *)
From Coq Require Import ZArith List Permutation.
From EC Require Import Lib.Outcome Lib.U64 Model.AddrBook Proofs.AddrBookProofs Proofs.AddrBookHistory
  Proofs.AddrBookGossip Proofs.AddrBookCommittee.
Import ListNotations.
Open Scope Z_scope.

(* authentic: whatever address the node would dial for k comes from a stored announcement that
   claims key k, whose signature verifies, i.e. (H-SIG) is the term sig(k, msg), and that was
   offered in a batch under a schedule containing k (or is the node's own announcement). *)
Theorem C18_book_authentic : forall chk ops k a,
  dial (run chk [] ops) k = Some a ->
  exists e, get k (run chk [] ops) = Some e /\ na_addr (emsg e) = a /\
    ekey e = k /\ verify e = true /\ esig e = {| sg_key := k; sg_msg := emsg e |} /\
    Exists (fun o => introduced o e) ops.
Proof.
  intros chk ops k a H. unfold dial in H.
  destruct (get k (run chk [] ops)) as [e|] eqn:G; [|discriminate].
  injection H as <-. exists e. split; [reflexivity|]. split; [reflexivity|].
  exact (book_authentic chk ops k e G).
Qed.
Print Assumptions C18_book_authentic.

(* with H-ADV (signature terms of an honest key in the traffic are copies of what that key
   signed) the stored announcement of an honest peer is one that peer signed. *)
Theorem C18_book_honest_origin : forall honest signed self chk ops k e,
  adv_ok honest signed ops ->
  (forall k' a t, In (OAnnounce k' a t) ops -> k' = self) ->
  honest k -> k <> self ->
  get k (run chk [] ops) = Some e -> signed k (emsg e).
Proof. exact book_honest_origin. Qed.
Print Assumptions C18_book_honest_origin.

(* forged_never_stored: an entry whose signature does not verify is in no book of no history. *)
Theorem C18_forged_never_stored : forall chk ops k e, verify e = false ->
  get k (run chk [] ops) <> Some e.
Proof. exact forged_never_stored. Qed.
Print Assumptions C18_forged_never_stored.

(* monotone: along every history an entry is never dropped and only ever replaced by a strictly
   newer one in (version, timestamp) order.  Overflow checks on: every key. *)
Theorem C18_book_monotone : forall ops1 ops2 k e,
  get k (run true [] ops1) = Some e ->
  exists e', get k (run true [] (ops1 ++ ops2)) = Some e' /\
             (e' = e \/ newer (emsg e') (emsg e)).
Proof.
  intros ops1 ops2 k e H. rewrite run_app. exact (book_monotone_checked ops2 _ k e H).
Qed.
Print Assumptions C18_book_monotone.

(* Both overflow modes: every key other than the ones the node announces itself
   (the node never dials itself through the book: maintain_connection's loopback case). *)
Theorem C18_book_monotone_peer : forall chk ops1 ops2 k e,
  (forall k' a t, In (OAnnounce k' a t) ops2 -> k' <> k) ->
  get k (run chk [] ops1) = Some e ->
  exists e', get k (run chk [] (ops1 ++ ops2)) = Some e' /\
             (e' = e \/ newer (emsg e') (emsg e)).
Proof.
  intros chk ops1 ops2 k e Hs H. rewrite run_app. exact (book_monotone_peer chk ops2 _ k e Hs H).
Qed.
Print Assumptions C18_book_monotone_peer.

(* one step, own key included: fine unless overflow checks are off and the own version is u64::MAX *)
Theorem C18_step_monotone : forall chk b o k e, get k b = Some e ->
  match o with
  | OUpdate _ _ => True
  | OAnnounce k' _ _ => chk = true \/ k <> k' \/ na_version (emsg e) < u64_max
  end ->
  exists e', get k (fst (step chk b o)) = Some e' /\ (e' = e \/ newer (emsg e') (emsg e)).
Proof. exact step_mono. Qed.
Print Assumptions C18_step_monotone.

(* ... and in that corner (wrapping build, own entry at version u64::MAX, which only the node's
   own key can have signed) the own entry does regress to version 0. *)
Theorem C18_announce_wrap_regresses :
  exists b e e', get 0 b = Some e /\ get 0 (run false b [OAnnounce 0 2 0]) = Some e' /\
                 newer (emsg e) (emsg e').
Proof.
  destruct announce_wrap_regresses_wit as (H1 & e' & H2 & H3).
  eexists _, _, e'. split; [exact H1|]. split; [exact H2|exact H3].
Qed.
Print Assumptions C18_announce_wrap_regresses.

(* rejected_batch_no_change: an update that returns an error publishes nothing (although the
   working copy may already contain the entries verified before the offending one); and it
   returns an error only for a duplicated key or a forged announcement of a member. *)
Theorem C18_rejected_batch_no_change : forall c d b b' e,
  update_watch c d b = (b', Err e) ->
  b' = b /\
  match e with
  | EDuplicate => ~ NoDup (map ekey d)
  | EBadSig => exists x, In x d /\ mem (ekey x) c = true /\ verify x = false
  end.
Proof. exact rejected_batch_no_change. Qed.
Print Assumptions C18_rejected_batch_no_change.

Theorem C18_update_never_panics : forall c d b, is_panic (snd (update_watch c d b)) = false.
Proof. exact update_watch_no_panic. Qed.
Print Assumptions C18_update_never_panics.

(* non_members_ignored: a batch does not touch the slot of a key outside the schedule. *)
Theorem C18_non_members_ignored : forall c d b k, mem k c = false ->
  get k (fst (update_watch c d b)) = get k b.
Proof. exact non_members_ignored. Qed.
Print Assumptions C18_non_members_ignored.

(* history level: a key that is in no schedule of the history (and not announced by the node
   itself) never gets an entry, whatever is sent. *)
Theorem C18_never_member_never_stored : forall chk ops k,
  (forall c d, In (OUpdate c d) ops -> mem k c = false) ->
  (forall k' a t, In (OAnnounce k' a t) ops -> k' <> k) ->
  get k (run chk [] ops) = None.
Proof. exact never_member_never_stored. Qed.
Print Assumptions C18_never_member_never_stored.

(* the book is, per key, the newest validly signed member announcement among the accepted
   batches ([seen]); rejected batches contribute nothing. *)
Theorem C18_book_is_newest_seen : forall c bs k,
  match get k (run_updates c [] bs) with
  | Some e => In e (seen c [] bs) /\
              forall e', In e' (seen c [] bs) -> ekey e' = k -> ~ newer (emsg e') (emsg e)
  | None => forall e', In e' (seen c [] bs) -> ekey e' <> k
  end.
Proof. exact book_is_newest_seen. Qed.
Print Assumptions C18_book_is_newest_seen.

(* convergent: two nodes whose accepted batches contained the same valid member announcements,
   in any order and grouping and with any rejected batches in between, hold equal books,
   provided no key signed two different announcements with one (version, timestamp). *)
Theorem C18_book_convergent : forall c bs1 bs2,
  (forall e, In e (seen c [] bs1) <-> In e (seen c [] bs2)) ->
  unique_stamps (seen c [] bs1) ->
  run_updates c [] bs1 = run_updates c [] bs2.
Proof. exact book_convergent. Qed.
Print Assumptions C18_book_convergent.

(* per validator: a key with unique stamps converges even if other keys equivocate, so every
   node that saw the same announcements of k dials the same address for k. *)
Theorem C18_book_convergent_key : forall c bs1 bs2 k,
  (forall e, ekey e = k -> (In e (seen c [] bs1) <-> In e (seen c [] bs2))) ->
  unique_stamps_of k (seen c [] bs1) ->
  dial (run_updates c [] bs1) k = dial (run_updates c [] bs2) k.
Proof.
  intros c bs1 bs2 k H1 H2. unfold dial. rewrite (book_convergent_key c bs1 bs2 k H1 H2). reflexivity.
Qed.
Print Assumptions C18_book_convergent_key.

Theorem C18_run_updates_is_run : forall chk c bs b,
  run_updates c b bs = run chk b (map (OUpdate c) bs).
Proof. exact run_updates_run. Qed.
Print Assumptions C18_run_updates_is_run.

(* arrival order and batching do not matter for acceptable batches (distinct keys per batch, no
   forged member announcement; non-members and stale announcements allowed). *)
Theorem C18_book_order_independent : forall c bs1 bs2,
  clean c bs1 -> clean c bs2 -> Permutation (concat bs1) (concat bs2) ->
  unique_stamps (filter (wanted c) (concat bs1)) ->
  run_updates c [] bs1 = run_updates c [] bs2.
Proof. exact book_order_independent. Qed.
Print Assumptions C18_book_order_independent.

(* the hypothesis is needed: an equivocating key makes arrival order visible. *)
Theorem C18_convergence_needs_unique_stamps :
  exists c bs1 bs2, (forall e, In e (seen c [] bs1) <-> In e (seen c [] bs2)) /\
    dial (run_updates c [] bs1) 0 <> dial (run_updates c [] bs2) 0.
Proof.
  destruct convergence_needs_unique_stamps_wit as (H1 & H2 & H3).
  eexists _, _, _. split; [exact H1|]. rewrite H2, H3. discriminate.
Qed.
Print Assumptions C18_convergence_needs_unique_stamps.

(* ---- what is pushed to peers (ValidatorAddrs::get_newer, the push loop of gossip/runner.rs) ---- *)

(* For a connection whose last pushed state [old] is an earlier state of the node's book: the next
   push consists exactly of the entries that changed since, and each of them is strictly newer
   than what the peer was sent for that key. *)
Theorem C18_pushed_exactly_news : forall new old e, ssorted new -> grows old new ->
  (In e (get_newer new old) <->
   get (ekey e) new = Some e /\ get (ekey e) old <> Some e) /\
  (In e (get_newer new old) -> forall x, get (ekey e) old = Some x -> newer (emsg e) (emsg x)).
Proof. exact pushed_exactly_news. Qed.
Print Assumptions C18_pushed_exactly_news.

(* Two honest nodes A, B connected both ways; [run_sys c sys0 ls] = the state after any
   interleaving [ls] of requests from other peers (LInject: any batches, forged ones included),
   diffs computed and sent (LSend) and requests served (LDeliver), one request in flight per
   direction.  In every reachable state the premises of the statement above hold for A -> B: *)
Theorem C18_gossip_push_exact : forall c ls s e,
  run_sys c sys0 ls = Some s ->
  (In e (get_newer (bA s) (oAB s)) <-> get (ekey e) (bA s) = Some e /\ get (ekey e) (oAB s) <> Some e) /\
  (In e (get_newer (bA s) (oAB s)) -> forall x, get (ekey e) (oAB s) = Some x -> newer (emsg e) (emsg x)).
Proof. exact gossip_push_exact. Qed.
Print Assumptions C18_gossip_push_exact.

(* ... and everything held or pushed is an announcement some peer sent, validly signed by a member. *)
Theorem C18_gossip_authentic : forall c ls s e,
  run_sys c sys0 ls = Some s ->
  (In e (bA s) \/ In e (bB s) \/ In e (get_newer (bA s) (oAB s)) \/ In e (get_newer (bB s) (oBA s))) ->
  In e (injected ls) /\ verify e = true /\ mem (ekey e) c = true.
Proof. exact gossip_authentic. Qed.
Print Assumptions C18_gossip_authentic.

(* convergence through pushes: whenever the exchange is at rest the two books are equal *)
Theorem C18_gossip_convergent : forall c ls s,
  run_sys c sys0 ls = Some s -> quiescent s ->
  unique_stamps (filter (wanted c) (injected ls)) ->
  bA s = bB s.
Proof. exact gossip_convergent. Qed.
Print Assumptions C18_gossip_convergent.

(* ... and rest is reached: from every reachable state at most eight steps of the two push loops
   (no further outside traffic) lead to a quiescent state, hence to equal books. *)
Theorem C18_gossip_settles : forall c ls s, run_sys c sys0 ls = Some s ->
  exists ls' s', (length ls' <= 8)%nat /\ injected ls' = [] /\
    run_sys c sys0 (ls ++ ls') = Some s' /\ quiescent s' /\
    (unique_stamps (filter (wanted c) (injected ls)) -> bA s' = bB s').
Proof. exact gossip_settles. Qed.
Print Assumptions C18_gossip_settles.

Example C18_gossip_nonvacuous :
  let v k a ver := sign k {| na_addr := a; na_version := ver; na_ts := 0 |} in
  let ls := [LInject true [v 0 5 1; v 1 6 1]; LSend true; LInject false [v 1 7 2; mk_entry 0 9 9 9 1 9 9 9];
             LInject false [v 1 7 2]; LDeliver true; LSend false; LDeliver false; LSend true; LDeliver true] in
  exists s, run_sys [0; 1] sys0 ls = Some s /\ quiescent s /\
            bA s = [v 0 5 1; v 1 7 2] /\ bB s = [v 0 5 1; v 1 7 2].
Proof. exact gossip_example. Qed.

(* ---- committee changes: every batch is processed under the schedule of its time ---- *)

Theorem C18_run_updatesC_is_run : forall chk bs b,
  run_updatesC b bs = run chk b (map (fun cd => OUpdate (fst cd) (snd cd)) bs).
Proof. exact run_updatesC_run. Qed.
Print Assumptions C18_run_updatesC_is_run.

(* the book is per key the newest validly signed announcement accepted while the key was a member *)
Theorem C18_book_is_newest_seen_any_schedules : forall bs k,
  match get k (run_updatesC [] bs) with
  | Some e => In e (seenC [] bs) /\
              forall e', In e' (seenC [] bs) -> ekey e' = k -> ~ newer (emsg e') (emsg e)
  | None => forall e', In e' (seenC [] bs) -> ekey e' <> k
  end.
Proof. exact book_is_newest_seenC. Qed.
Print Assumptions C18_book_is_newest_seen_any_schedules.

(* two nodes, each with its own sequence of schedules, dial the same address for k as soon as the
   same announcements of k were accepted by both while k was a member *)
Theorem C18_book_convergent_any_schedules : forall bs1 bs2 k,
  (forall e, ekey e = k -> (In e (seenC [] bs1) <-> In e (seenC [] bs2))) ->
  unique_stamps_of k (seenC [] bs1) ->
  dial (run_updatesC [] bs1) k = dial (run_updatesC [] bs2) k.
Proof.
  intros bs1 bs2 k H1 H2. unfold dial. rewrite (book_convergentC_key bs1 bs2 k H1 H2). reflexivity.
Qed.
Print Assumptions C18_book_convergent_any_schedules.

(* a key that left the schedule keeps its entry, frozen, whatever is sent later *)
Theorem C18_left_committee_frozen : forall bs b k,
  (forall c d, In (c, d) bs -> mem k c = false) ->
  get k (run_updatesC b bs) = get k b.
Proof. exact left_committee_frozen. Qed.
Print Assumptions C18_left_committee_frozen.

(* without the premise of C18_book_convergent_any_schedules the point of the switch is visible:
   same announcements, same order, schedule [0;1] -> [0;2] one batch earlier at the second node *)
Theorem C18_committee_switch_point_matters :
  exists bs1 bs2, map snd bs1 = map snd bs2 /\
    dial (run_updatesC [] bs1) 1 <> dial (run_updatesC [] bs2) 1.
Proof.
  destruct committee_switch_point_matters_wit as (H1 & _ & H3 & _).
  eexists _, _. split; [|rewrite H1, H3; discriminate]. reflexivity.
Qed.
Print Assumptions C18_committee_switch_point_matters.

(* Non-vacuity.  A batch with a valid newer announcement of key 2 followed by a forged newer
   announcement of key 0: the working copy already holds key 2's entry, the call fails, the
   published book is unchanged; the same valid announcement alone is then accepted, dialed,
   and a later stale or equal-stamp announcement does not replace it. *)
Example C18_nonvacuous :
  let v k a ver ts := sign k {| na_addr := a; na_version := ver; na_ts := ts |} in
  let forged := mk_entry 0 8 1 1 1 8 1 1 in
  let b0 := run true [] [OUpdate [0; 1; 2] [v 0 5 0 100; v 3 6 0 1]] in
  dial b0 0 = Some 5 /\ dial b0 3 = None /\
  get 2 (fst (update [0; 1; 2] [v 2 9 1 1; forged] b0)) = Some (v 2 9 1 1) /\
  snd (update [0; 1; 2] [v 2 9 1 1; forged] b0) = Err EBadSig /\
  update_watch [0; 1; 2] [v 2 9 1 1; forged] b0 = (b0, Err EBadSig) /\
  dial (run true b0 [OUpdate [0; 1; 2] [v 2 9 1 1]; OUpdate [0; 1; 2] [v 2 7 1 1; v 0 4 0 99]]) 2 = Some 9 /\
  snd (update_watch [0; 1] [v 0 5 0 101; v 0 5 0 102] b0) = Err EDuplicate /\
  snd (step true (run true [] [OUpdate [6] [v 6 9 u64_max 0]]) (OAnnounce 6 1 1)) = Panic POverflow.
Proof. cbv zeta. repeat split; vm_compute; reflexivity. Qed.
