(* C08, translator tie: the pure parts of node/libs/engine/src/block_store.rs as regenerated from the
   source on every run (Gen/BlockStore.v) equal the hand model Model/BlockStore.v, for all inputs and
   both overflow profiles (block numbers below u64::MAX, which the model states as its scope).  Every
   theorem of Proofs/BlockStoreProofs.v about bs_contains / bs_head / bs_next / truncate / try_push is
   thereby a theorem about what the source says now.  If the source changes meaning, this file stops
   compiling. *)
From Coq Require Import ZArith List Lia Bool.
From EC Require Import Lib.Outcome Lib.U64 Lib.RustSem Model.BlockStore Gen.Numbers Gen.BlockStore Proofs.GenTac.
Import ListNotations.
Open Scope Z_scope.

(* block numbers of a BlockStoreState are u64 values below u64::MAX *)
Definition bss_ok (s : bss) : Prop :=
  0 <= bfirst s < U64 - 1 /\ match blast s with Some l => 0 <= l < U64 - 1 | None => True end.

Ltac bs_unfold :=
  unfold gen_BlockStore_try_push_accepts, gen_BlockStore_truncate_cache_cond, gen_BlockStoreState_next,
         gen_BlockStoreState_head, gen_BlockStoreState_contains, gen_BlockNumber_next, gen_BlockNumber_prev,
         gen_BlockStore_CACHE_CAPACITY, bs_next, bs_head, bs_contains, bss_ok in *.

Theorem C08_generated_contains : forall s n, gen_BlockStoreState_contains s n = bs_contains s n.
Proof. intros s n. bs_unfold. destruct (blast s); gen_auto. Qed.
Print Assumptions C08_generated_contains.

Theorem C08_generated_head : forall s, bss_ok s -> gen_BlockStoreState_head s = bs_head s.
Proof. intros s [Hf Hl]. bs_unfold. destruct (blast s); gen_auto. Qed.
Print Assumptions C08_generated_head.

Theorem C08_generated_next : forall (E : Type) chk s, bss_ok s ->
  @gen_BlockStoreState_next E chk s = Ok (bs_next s).
Proof. intros E chk s [Hf Hl]. bs_unfold. destruct (blast s); gen_auto. Qed.
Print Assumptions C08_generated_next.

Theorem C08_generated_cache_capacity : gen_BlockStore_CACHE_CAPACITY = 100.
Proof. reflexivity. Qed.
Print Assumptions C08_generated_cache_capacity.

(* The loop condition of BlockStore::truncate_cache, as a function of the cache length, the persisted
   range and the number of the front block: over capacity AND the front block is already persisted
   (strictly below persisted.next()).  Indexing cache[0] cannot panic because the first conjunct
   short-circuits on an empty cache. *)
Theorem C08_generated_truncate_cond : forall (E : Type) chk len p front,
  bss_ok p -> 0 <= len ->
  @gen_BlockStore_truncate_cache_cond E chk len p front = Ok ((100 <? len) && (front <? bs_next p)).
Proof. intros E chk len p front [Hf Hl] Hlen. bs_unfold. destruct (blast p); gen_auto. Qed.
Print Assumptions C08_generated_truncate_cond.

(* ... hence one iteration of the model's [truncate] with the source's capacity does what the source's
   loop does: pop the front iff the generated condition holds. *)
Theorem C08_generated_truncate_step : forall (E : Type) chk p f c',
  bss_ok p ->
  exists b, @gen_BlockStore_truncate_cache_cond E chk (Z.of_nat (length (f :: c'))) p (bnum f) = Ok b /\
    truncate (Z.to_nat gen_BlockStore_CACHE_CAPACITY) (bs_next p) (f :: c') =
      if b then truncate (Z.to_nat gen_BlockStore_CACHE_CAPACITY) (bs_next p) c' else f :: c'.
Proof.
  intros E chk p f c' Hp. eexists. split.
  - apply C08_generated_truncate_cond; [exact Hp|lia].
  - cbn [truncate]. rewrite C08_generated_cache_capacity.
    replace (Z.to_nat 100 <? length (f :: c'))%nat with (100 <? Z.of_nat (length (f :: c'))); [reflexivity|].
    destruct (100 <? Z.of_nat (length (f :: c'))) eqn:H1; symmetry.
    + apply Nat.ltb_lt. apply Z.ltb_lt in H1. lia.
    + apply Nat.ltb_ge. apply Z.ltb_ge in H1. lia.
Qed.
Print Assumptions C08_generated_truncate_step.

(* The decision of BlockStore::try_push (its return value): accept iff the block is the next queued. *)
Theorem C08_generated_try_push : forall (E : Type) chk s b, bss_ok (queued s) ->
  @gen_BlockStore_try_push_accepts E chk (queued s) (bnum b) =
    Ok (snd (try_push (Z.to_nat gen_BlockStore_CACHE_CAPACITY) s b)).
Proof.
  intros E chk s b [Hf Hl]. unfold try_push. bs_unfold.
  destruct (blast (queued s)); gen_auto.
Qed.
Print Assumptions C08_generated_try_push.

(* ---------- the state updates of update_persisted and try_push ---------- *)
Definition CAP : nat := Z.to_nat gen_BlockStore_CACHE_CAPACITY.

Theorem C08_generated_try_push_state : forall chk s b, bss_ok (queued s) ->
  gen_BlockStore_try_push_state chk s b = (fst (try_push CAP s b), Ok (snd (try_push CAP s b))).
Proof.
  intros chk s b Hq. unfold gen_BlockStore_try_push_state, try_push.
  rewrite (C08_generated_next _ chk (queued s) Hq). cbn [slift sbind].
  destruct (bs_next (queued s) =? bnum b); cbn [negb fst snd sret]; reflexivity.
Qed.
Print Assumptions C08_generated_try_push_state.

Theorem C08_generated_update_persisted : forall chk s p,
  bss_ok p -> bss_ok (persisted s) -> bss_ok (queued s) ->
  gen_BlockStore_update_persisted chk s p =
  match update_persisted CAP s p with
  | Some s' => (s', Ok tt)
  | None => (s, Err tt)
  end.
Proof.
  intros chk s p Hp Hps Hq. unfold gen_BlockStore_update_persisted, update_persisted.
  rewrite (C08_generated_next _ chk p Hp). cbn [slift sbind].
  rewrite (C08_generated_next _ chk (persisted s) Hps). cbn [slift sbind].
  destruct (bs_next p <? bs_next (persisted s)); [reflexivity|].
  cbv zeta. cbn [queued persisted cache].
  assert (Hq1 : bss_ok {| bfirst := bfirst p; blast := blast (queued s) |}).
  { destruct Hp as [Hp1 _]. destruct Hq as [_ Hq2]. split; assumption. }
  destruct (bfirst (queued s) <? bfirst p); cbn [sbind sret queued persisted cache].
  - rewrite (C08_generated_next _ chk _ Hq1). cbn [slift sbind]. rewrite (C08_generated_next _ chk p Hp). cbn [slift sbind].
    destruct (bs_next {| bfirst := bfirst p; blast := blast (queued s) |} <? bs_next p); cbn [sbind sret fst snd queued persisted cache]; reflexivity.
  - rewrite (C08_generated_next _ chk (queued s) Hq). cbn [slift sbind]. rewrite (C08_generated_next _ chk p Hp). cbn [slift sbind].
    destruct (bs_next (queued s) <? bs_next p); cbn [sbind sret fst snd queued persisted cache]; [reflexivity|].
    destruct s; reflexivity.
Qed.
Print Assumptions C08_generated_update_persisted.

(* non-vacuity: the boundary on which the two readings of "already persisted" differ
   (empty durable range at 0, front block 0, 101 cached blocks): nothing may be dropped. *)
Example C08_generated_truncate_example :
  @gen_BlockStore_truncate_cache_cond unit true 101 {| bfirst := 0; blast := None |} 0 = Ok false /\
  @gen_BlockStore_truncate_cache_cond unit true 101 {| bfirst := 0; blast := Some 0 |} 0 = Ok true /\
  @gen_BlockStore_truncate_cache_cond unit true 100 {| bfirst := 0; blast := Some 7 |} 0 = Ok false.
Proof. repeat split. Qed.
