(* C11 — Leader election is a total, deterministic, eligible-only function.
   Statements only; proofs are in Proofs/LeaderProofs.v.  [h] stands for the keccak
   digest of the turn number: every theorem holds for every value of it. *)
From Coq Require Import ZArith List Permutation.
From EC Require Import Lib.Outcome Lib.U64 Model.Leader Proofs.LeaderProofs.
Import ListNotations.
Open Scope Z_scope.

(* total + eligible: for every schedule accepted by Schedule::new (any listing order, any
   weights, any eligible subset, both modes, any frequency incl. 0) and every view, the
   leader function returns a key, and that key is one of the listed leader-eligible validators. *)
Theorem C11_total_eligible : forall vs sel s view h,
  schedule_new vs sel = Ok s -> 0 <= view -> 0 <= h ->
  exists k, view_leader s view h = Ok k /\
            exists v, In v vs /\ vkey v = k /\ vleader v = true.
Proof.
  intros vs sel s view h Hn Hv Hh.
  destruct (schedule_new_valid vs sel s Hn) as (Hval & Hperm & _).
  destruct (view_leader_total s view h Hval Hv Hh) as (k & Hk & v & Hin & Hkey & Hl).
  exists k. split; [exact Hk|]. exists v. split; [|split; assumption].
  eapply Permutation_in; eassumption.
Qed.
Print Assumptions C11_total_eligible.

(* deterministic + order independent: listing the validators in another order gives the
   very same schedule value, hence the same leader for every view. *)
Theorem C11_order_independent : forall vs vs' sel s,
  Permutation vs vs' -> schedule_new vs sel = Ok s -> schedule_new vs' sel = Ok s.
Proof. exact schedule_new_perm. Qed.
Print Assumptions C11_order_independent.

(* round robin: leaders[(view / frequency) mod |leaders|]; frequency 0 means turn 0. *)
Theorem C11_round_robin : forall vs sel s view h,
  schedule_new vs sel = Ok s -> smode sel = RoundRobin -> 0 <= view ->
  let turn := if sfreq sel =? 0 then 0 else view / sfreq sel in
  exists idx v,
    nth_error (sleaders s) (Z.to_nat (turn mod Z.of_nat (length (sleaders s)))) = Some idx /\
    nth_error (svec s) idx = Some v /\ vleader v = true /\
    view_leader s view h = Ok (vkey v).
Proof.
  intros vs sel s view h Hn Hm Hv.
  destruct (schedule_new_valid vs sel s Hn) as (Hval & _ & Hsel). subst sel.
  exact (view_leader_round_robin s view h Hval Hm Hv).
Qed.
Print Assumptions C11_round_robin.

Theorem C11_freq0_never_rotates : forall s view view' h, sfreq (ssel s) = 0 ->
  view_leader s view h = view_leader s view' h.
Proof. exact freq0_never_rotates. Qed.
Print Assumptions C11_freq0_never_rotates.

Theorem C11_changes_only_every_frequency_views : forall s view view' h, sfreq (ssel s) <> 0 ->
  view / sfreq (ssel s) = view' / sfreq (ssel s) ->
  view_leader s view h = view_leader s view' h.
Proof. exact leader_constant_on_blocks. Qed.
Print Assumptions C11_changes_only_every_frequency_views.

(* weighted: the j-th eligible validator is picked exactly on an interval of residues of
   length equal to its weight, i.e. a share weight / eligible weight of the digests. *)
Theorem C11_weighted_interval : forall vs sel s view h,
  schedule_new vs sel = Ok s -> smode sel = Weighted -> 0 <= h ->
  exists j idx v, nth_error (sleaders s) j = Some idx /\ nth_error (svec s) idx = Some v /\
    vleader v = true /\ view_leader s view h = Ok (vkey v) /\
    prefix (svec s) (sleaders s) j <= h mod sleader_weight s
      < prefix (svec s) (sleaders s) j + vweight v.
Proof.
  intros vs sel s view h Hn Hm Hh.
  destruct (schedule_new_valid vs sel s Hn) as (Hval & _ & Hsel). subst sel.
  exact (view_leader_weighted s view h Hval Hm Hh).
Qed.
Print Assumptions C11_weighted_interval.

(* ... and only for those: the preimage of the j-th eligible validator under the weighted pick is
   exactly an interval of residues of length equal to its weight, so under a uniform digest it leads
   a share weight / eligible-weight of the turns *)
Theorem C11_weighted_share : forall vs sel s view h j idx v,
  schedule_new vs sel = Ok s -> smode sel = Weighted -> 0 <= h ->
  nth_error (sleaders s) j = Some idx -> nth_error (svec s) idx = Some v ->
  (view_leader s view h = Ok (vkey v) <->
   prefix (svec s) (sleaders s) j <= h mod sleader_weight s < prefix (svec s) (sleaders s) j + vweight v).
Proof.
  intros vs sel s view h j idx v Hn Hm Hh.
  destruct (schedule_new_valid vs sel s Hn) as (Hval & _ & Hsel). subst sel.
  exact (weighted_share s view h j idx v Hval Hm Hh).
Qed.
Print Assumptions C11_weighted_share.

(* The code before repairs F1/F2 violates totality: witnesses. *)
Theorem C11_pre_repair_freq0_refuted :
  exists vs sel s view h, schedule_new vs sel = Ok s /\ 0 <= view /\ 0 <= h /\
    view_leader_orig s view h = Panic PDivZero.
Proof.
  exists [{| vkey := 0; vweight := 1; vleader := true |}], {| sfreq := 0; smode := RoundRobin |},
    w_sched_freq0, 0, 0.
  destruct view_leader_orig_freq0_refuted as (H1 & H2).
  split; [exact H1|]. split; [discriminate|]. split; [discriminate|]. exact H2.
Qed.
Theorem C11_pre_repair_weighted_refuted :
  exists vs sel s view, schedule_new vs sel = Ok s /\ 0 <= view /\ forall h, 0 <= h ->
    view_leader_orig s view h = Panic PIndex.
Proof.
  exists [{| vkey := 0; vweight := 1; vleader := true |}], {| sfreq := 1; smode := Weighted |},
    w_sched_weighted, 0.
  split; [exact (proj1 (view_leader_orig_weighted_refuted 0 ltac:(discriminate)))|].
  split; [discriminate|]. intros h Hh. exact (proj2 (view_leader_orig_weighted_refuted h Hh)).
Qed.

(* Non-vacuity: a 4-validator schedule, two eligible, weighted mode, listed out of order. *)
Example C11_nonvacuous :
  let vs := [ {| vkey := 3; vweight := 5; vleader := true |};
              {| vkey := 0; vweight := 2; vleader := false |};
              {| vkey := 2; vweight := 7; vleader := true |};
              {| vkey := 1; vweight := 1; vleader := false |} ] in
  exists s, schedule_new vs {| sfreq := 3; smode := Weighted |} = Ok s /\
    view_leader s 10 100 = Ok 2 /\ view_leader s 10 7 = Ok 3.
Proof. eexists. split; [reflexivity|]. split; reflexivity. Qed.
