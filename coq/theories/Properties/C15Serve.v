(* C15, RPC half: rpc::Server::serve (Model/RpcServe.v) on top of the StreamQueue / limiter model.
   Quantifier: every label list over VQ (clock ticks, limiter scheduling, stream i calls acquire, aborts),
   VOpen i, VReq i, VFail i, VDone i — the remote side decides when and whether OPEN handshakes complete,
   requests arrive and streams end; labels that are not enabled are skipped.  n = number of reusable
   streams of the capability (= min(local, peer) INFLIGHT, C14 open_streams_bounded). *)
From Coq Require Import ZArith List Lia.
From EC Require Import Lib.Outcome Lib.Obs Model.Limiter Model.RpcServe Proofs.LimiterProofs Proofs.RpcServeProofs.
Import ListNotations.
Open Scope Z_scope.

Theorem C15_serve_no_panic : forall c n ls p, cfg_ok c -> vexec c (vinit c n) ls <> Panic p.
Proof. exact serve_no_panic. Qed.
Print Assumptions C15_serve_no_panic.

(* (a) handlers served concurrently <= INFLIGHT, for every schedule *)
Theorem C15_serve_concurrency : forall c n ls s, vexec c (vinit c n) ls = Ok s -> (n_running s <= n)%nat.
Proof. exact serve_concurrency. Qed.
Print Assumptions C15_serve_concurrency.

(* (b) stream OPENs (one limiter permit each) in any window <= burst + T/refresh + 1 *)
Theorem C15_serve_opens_bound : forall c n ls s t1 t2, cfg_ok c -> vexec c (vinit c n) ls = Ok s -> t1 <= t2 ->
  count_window (opens (rq s)) t1 t2 <= burst c + (t2 - t1) / refresh c + 1.
Proof. exact serve_opens_bound. Qed.
Print Assumptions C15_serve_opens_bound.

(* handler starts of a window are paid for by OPENs of the same window, except for at most one stream
   per slot that was opened before the window *)
Theorem C15_serve_starts_vs_opens : forall c n ls s t1 t2, vexec c (vinit c n) ls = Ok s ->
  count_window (starts s) t1 t2 <= count_window (opens (rq s)) t1 t2 + Z.of_nat n.
Proof. exact serve_starts_vs_opens. Qed.
Print Assumptions C15_serve_starts_vs_opens.

(* (c) handler STARTS in any window <= burst + T/refresh + 1 + INFLIGHT: the bound of the open known
   finding (known_findings.json, property=C15 rpc::Server::serve rate-limits stream OPENs only) *)
Theorem C15_serve_starts_bound : forall c n ls s t1 t2, cfg_ok c -> vexec c (vinit c n) ls = Ok s -> t1 <= t2 ->
  count_window (starts s) t1 t2 <= burst c + (t2 - t1) / refresh c + 1 + Z.of_nat n.
Proof. exact serve_starts_bound. Qed.
Print Assumptions C15_serve_starts_bound.

(* ... and the strict reading of C15 for handler starts is FALSE of serve: the withholding peer.
   burst 2, refresh 10 ns, INFLIGHT 5: the peer completes the five OPEN handshakes as the permits come
   (0, 0, 10, 20, 30 ns), withholds the requests until 80 ns and then sends a request on every stream
   and keeps going: 7 = INFLIGHT + burst handlers start at the instant 80 ns, against
   burst + 0/refresh + 1 = 3.  (The same schedule is what the real rpc::Service does: the harness
   input {mode: withhold, n: 5, rs: [2, 10]} produces this HandlerLog.) *)
Definition withhold_cfg : cfg := {| burst := 2; refresh := 10; start := 0 |}.
Definition withhold_trace : list (Z * bool) :=
  [(80, true); (80, false); (80, true); (80, false); (80, true); (80, false); (80, true); (80, false);
   (80, true); (80, false); (80, true); (80, false); (80, true); (80, false)].
Definition withhold_schedule : list vlabel :=
  Eval vm_compute in snd (serve_labels withhold_cfg 5 true withhold_trace).

Theorem C15_strict_handler_start_bound_refuted :
  exists c n ls s t1 t2, cfg_ok c /\ vexec c (vinit c n) ls = Ok s /\ t1 <= t2 /\
    count_window (starts s) t1 t2 > burst c + (t2 - t1) / refresh c + 1 /\
    count_window (starts s) t1 t2 = burst c + Z.of_nat n.
Proof.
  exists withhold_cfg, 5%nat, withhold_schedule.
  destruct (vexec withhold_cfg (vinit withhold_cfg 5) withhold_schedule) as [s|e|p] eqn:E;
    [|vm_compute in E; discriminate|vm_compute in E; discriminate].
  exists s, 80, 80. vm_compute in E. inversion E; subst s; clear E.
  split; [unfold cfg_ok; cbn; unfold usize_max; lia|]. split; [reflexivity|].
  split; [lia|]. split; vm_compute; reflexivity.
Qed.
Print Assumptions C15_strict_handler_start_bound_refuted.

(* the + INFLIGHT bound cannot be improved either: burst 1, refresh 10 ns, INFLIGHT 2; two streams opened at
   0 and 10 ns, requests withheld until 29 ns: 4 = 1 + (30 - 29)/10 + 1 + 2 handler starts in [29, 30]. *)
Definition tight_cfg : cfg := {| burst := 1; refresh := 10; start := 0 |}.
Definition tight_schedule : list vlabel :=
  Eval vm_compute in snd (serve_labels tight_cfg 2 true
    [(29, true); (29, false); (29, true); (29, false); (29, true); (29, false); (30, true); (30, false)]).

Example C15_serve_starts_bound_is_tight :
  exists s, vexec tight_cfg (vinit tight_cfg 2) tight_schedule = Ok s /\
    count_window (starts s) 29 30 = burst tight_cfg + (30 - 29) / refresh tight_cfg + 1 + 2.
Proof.
  destruct (vexec tight_cfg (vinit tight_cfg 2) tight_schedule) as [s|e|p] eqn:E;
    [|vm_compute in E; discriminate|vm_compute in E; discriminate].
  exists s. split; [reflexivity|]. vm_compute in E. inversion E; subst s. vm_compute. reflexivity.
Qed.

(* Tie: when the acceptance check reports (third component 1) that its schedule reproduces the observed
   HandlerLog, the observed handler starts are the start log of a run of the model, hence within the
   proved bound. *)
Theorem C15_accepted_trace_bounds : forall b r n eager evs o1 o2 o4 o5 t1 t2,
  cfg_ok {| burst := b; refresh := r; start := 0 |} ->
  accept_serve (b, r, n, eager, evs) = OL [o1; o2; OZ 1; o4; o5] -> t1 <= t2 ->
  count_times (observed_starts evs) t1 t2 <= b + (t2 - t1) / r + 1 + Z.of_nat n.
Proof. exact accepted_trace_bounds. Qed.
Print Assumptions C15_accepted_trace_bounds.

Example C15_withhold_trace_accepted :
  accept_serve (2, 10, 5%nat, true, withhold_trace) = OL [OZ 1; OZ 14; OZ 1; OZ 7; OZ 0] /\
  accept_serve (2, 10, 5%nat, false, withhold_trace) = OL [OZ 0; OZ 4; OZ 0; OZ 2; OZ 0].
Proof. split; vm_compute; reflexivity. Qed.
