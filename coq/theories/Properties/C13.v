(* C13 — The encrypted transport delivers exactly the bytes written, or fails.
   Statements only; proofs are in Proofs/NoiseProofs.v.

   [run enc dec (sim_init PC) ops] executes ANY list of operations on one direction of a session:
   poll_write of any bytes, poll_flush, poll_shutdown, poll_read with any buffer size, each with any
   transport script (Pending / error / accept or deliver k bytes: every fragmentation, delay and
   back-pressure pattern), and [OTamper f] for ANY function f on the bytes in flight.
   enc/dec is the AEAD (H-AEAD): only [aead_len] (16 byte tag) and [aead_correct]
   (dec n (enc n p) = Some p) are assumed; PC is MAX_PAYLOAD_LEN (any value with PC + 16 <= 65535,
   the code's 65519 included: [C13_real_constants]). *)
From Coq Require Import ZArith List.
From EC Require Import Lib.Obs Lib.Outcome Model.Noise Proofs.NoiseProofs.
Import ListNotations.
Open Scope nat_scope.

(* buffers_safe: no operation sequence panics (debug_assert, slice index, the n > 0 assertion of
   poll_write) or exhausts the model's fuel; snow's write_message is never handed a payload that does
   not fit; the buffers keep their sizes. *)
Theorem C13_buffers_safe : forall enc dec PC, pc_ok PC -> aead_len enc ->
  forall ops, exists s, run enc dec (sim_init PC) ops = Ok s /\
    buf_size (w_payload (s_w s)) = PC /\ buf_size (w_frame (s_w s)) = FC PC /\
    b_pre (w_payload (s_w s)) = [].
Proof. exact c13_safe. Qed.
Print Assumptions C13_buffers_safe.

(* in every reachable state poll_write returns Ok(0) iff the input is empty, else 1 <= n <= len *)
Theorem C13_poll_write_result : forall enc dec PC, pc_ok PC -> aead_len enc ->
  forall ops s bytes sc, run enc dec (sim_init PC) ops = Ok s ->
  exists w' n' r, poll_write enc (s_w s) (with_scripts (s_net s) sc []) bytes = Ok (w', n', r) /\
    forall k, r = PReady k -> (k = 0 <-> bytes = []) /\ k <= length bytes.
Proof. exact c13_poll_write. Qed.
Print Assumptions C13_poll_write_result.

(* frames_bounded + no_interleaved_frames: everything put on the transport, followed by the rest of
   the pending frame, is the in-order concatenation of whole frames <len:u16le> ++ enc i payload_i,
   nonce i = frame index, every payload has 1..PC bytes, every ciphertext at most 65535 bytes (so a
   frame has at most 2 + 65535 bytes), and the accepted bytes are exactly the payloads in order
   followed by the still unencrypted payload buffer. *)
Theorem C13_frames_bounded : forall enc dec PC, pc_ok PC -> aead_len enc ->
  forall ops s, run enc dec (sim_init PC) ops = Ok s ->
  let payloads := w_sent (s_w s) in
  n_hist (s_net s) ++ b_data (w_frame (s_w s)) = wire (encs enc 0 payloads) /\
  Forall (fun p => 1 <= length p <= PC) payloads /\
  Forall (fun c => (Z.of_nat (length c) <= 65535)%Z) (encs enc 0 payloads) /\
  s_accepted s = concat payloads ++ b_data (w_payload (s_w s)).
Proof. exact c13_frames. Qed.
Print Assumptions C13_frames_bounded.

(* reader_frames (the reader's dual of frames_bounded; ANY tampering, no assumption on dec): the bytes
   the reader took from the transport are exactly the frames it accepted, <len:u16le> ++ ciphertext,
   in order, followed by its frame buffer (nothing skipped, nothing read twice); what it delivered
   followed by its payload buffer is exactly the concatenation of the plaintexts of the accepted frames
   in order; and the i-th accepted frame (i counted from 0) carries a ciphertext of the announced length
   that decrypts under nonce i to that plaintext - the nonce is the frame index, so a replayed,
   dropped or reordered genuine frame meets the wrong nonce. *)
Theorem C13_reader_frames : forall enc dec PC, pc_ok PC -> aead_len enc ->
  forall ops s, run enc dec (sim_init PC) ops = Ok s ->
  n_rin (s_net s) = concat (map rawframe (r_got (s_r s))) ++ b_data (r_frame (s_r s)) /\
  s_delivered s ++ b_data (r_payload (s_r s)) = concat (map plain (r_got (s_r s))) /\
  (forall i h c p, nth_error (r_got (s_r s)) i = Some (h, c, p) ->
     dec i c = Some p /\ length c = dec16 h).
Proof. exact c13_reader_frames. Qed.
Print Assumptions C13_reader_frames.

(* tamper_detected: whatever the adversary does to the bytes in flight (any functions, at any
   points), if it cannot forge - every ciphertext the reader accepted at position i under nonce i
   decrypts to the i-th payload the writer encrypted ([authentic], the integrity half of H-AEAD) -
   then what the reader delivered is a prefix of what the writer accepted: never altered, reordered,
   duplicated or inserted plaintext. *)
Theorem C13_tamper_detected : forall enc dec PC, pc_ok PC -> aead_len enc ->
  forall ops s, run enc dec (sim_init PC) ops = Ok s -> authentic dec s ->
  exists rest, s_accepted s = s_delivered s ++ rest.
Proof. exact c13_tamper. Qed.
Print Assumptions C13_tamper_detected.

(* stream_refines_fifo: without tampering (only a correct AEAD is needed, no integrity assumption)
   the delivered bytes are always a prefix of the accepted bytes, and equal them once the last
   writer operation was a flush/shutdown that returned Ready(Ok) and the reader has drained the
   transport and its buffers: no loss, duplication, insertion or reordering, for every write
   size, read size and transport script. *)
Theorem C13_stream_refines_fifo : forall enc dec PC, pc_ok PC -> aead_len enc -> aead_correct enc dec ->
  forall ops s, untampered ops = true -> run enc dec (sim_init PC) ops = Ok s ->
  (exists rest, s_accepted s = s_delivered s ++ rest) /\
  (s_flushed s = true -> n_chan (s_net s) = [] -> b_data (r_frame (s_r s)) = [] ->
   b_data (r_payload (s_r s)) = [] -> s_delivered s = s_accepted s).
Proof. exact c13_fifo. Qed.
Print Assumptions C13_stream_refines_fifo.

(* replayed / reordered / spliced genuine frames: with a nonce-binding AEAD a genuine ciphertext is
   accepted only at its own position, so [authentic] holds for them *)
Theorem C13_nonce_binding : forall enc dec, aead_correct enc dec ->
  (forall n c p, dec n c = Some p -> c = enc n p) ->
  (forall n n' p p', enc n p = enc n' p' -> n = n' /\ p = p') ->
  forall i j q p, dec i (enc j q) = Some p -> i = j /\ p = q.
Proof. exact c13_nonce_binding. Qed.
Print Assumptions C13_nonce_binding.

(* the reader fails for good: after a decryption failure (InvalidData) every later poll_read, whatever
   the transport does, reports the same failure and leaves the state unchanged - the frame is not
   skipped, the nonce does not advance, nothing is delivered any more *)
Theorem C13_decrypt_error_sticky : forall dec r n cap r' n',
  poll_read dec r n cap = Ok (r', n', PErr EInvalidData) ->
  forall n2 cap2, poll_read dec r' n2 cap2 = Ok (r', n2, PErr EInvalidData).
Proof. exact c13_decrypt_error_sticky. Qed.
Print Assumptions C13_decrypt_error_sticky.

(* read_bounded + buffered-first: a poll_read that returns Ready(Ok) has put at most buf.remaining()
   bytes into the caller's buffer; and when decrypted bytes are waiting in the payload buffer they are
   what is handed out (the first min(remaining, buffered) of them, never an empty result that would
   read as end of stream), without touching the transport, the frame buffer or the nonce *)
Theorem C13_poll_read_bounded : forall dec r n cap r' n' out,
  poll_read dec r n cap = Ok (r', n', PReady out) ->
  length out <= cap /\
  (0 < cap -> 0 < buf_len (r_payload r) ->
   out = firstn (Nat.min cap (buf_len (r_payload r))) (buf_as_slice (r_payload r)) /\
   out <> [] /\ r_got r' = r_got r /\ r_frame r' = r_frame r /\ n' = n).
Proof. exact c13_poll_read_bounded. Qed.
Print Assumptions C13_poll_read_bounded.

(* read_eof_mid_frame: truncation inside a frame.  No decrypted byte is waiting, the frame buffer
   holds no complete frame (possibly a part of one) and the transport reports end of file (a read of
   0 bytes): poll_read returns Ready(Ok) with 0 bytes - the code reports a clean end of stream after
   the bytes of the complete frames, stated as is - nothing is decrypted, the nonce does not move and
   the partial frame stays in the buffer *)
Theorem C13_read_eof_mid_frame : forall dec r n cap n1,
  buf_len (r_payload r) = 0 -> frame_complete (r_frame r) = Ok None ->
  inner_read n (buf_capacity (r_frame r)) = (n1, PReady []) ->
  exists r', poll_read dec r n cap = Ok (r', n1, PReady []) /\
    r_got r' = r_got r /\ r_frame r' = r_frame r /\ b_data (r_payload r') = [].
Proof. exact c13_read_eof_mid_frame. Qed.
Print Assumptions C13_read_eof_mid_frame.

(* bad_frame_rejected (single-call form of tamper detection, no assumption on the AEAD): a complete
   frame whose ciphertext does not decrypt under the current nonce (= the number of frames accepted so
   far) is rejected in the same call with InvalidData: nothing is delivered, the transport is not
   touched, the nonce does not advance and the frame is not skipped (C13_decrypt_error_sticky then
   makes the failure permanent) *)
Theorem C13_bad_frame_rejected : forall dec r n cap L,
  buf_len (r_payload r) = 0 -> frame_complete (r_frame r) = Ok (Some L) ->
  dec (length (r_got r)) (firstn L (skipn LENF (buf_as_slice (r_frame r)))) = None ->
  exists r', poll_read dec r n cap = Ok (r', n, PErr EInvalidData) /\
    r_got r' = r_got r /\ r_frame r' = r_frame r /\ b_data (r_payload r') = [].
Proof. exact c13_bad_frame_rejected. Qed.
Print Assumptions C13_bad_frame_rejected.

(* good_frame_delivered (single-call form of the FIFO refinement, no assumption on the AEAD): a
   complete frame whose ciphertext (at most 65535 bytes) decrypts under the current nonce to a
   plaintext that fits the payload buffer is consumed in the same call: exactly the first
   min(remaining, |p|) bytes of p are handed out, the rest of p stays buffered (and is handed out
   next by C13_poll_read_bounded), the nonce advances by exactly one, the transport is not touched *)
Theorem C13_good_frame_delivered : forall dec r n cap L p,
  buf_len (r_payload r) = 0 -> frame_complete (r_frame r) = Ok (Some L) ->
  length (firstn L (skipn LENF (buf_as_slice (r_frame r)))) <= MAXMSG ->
  dec (length (r_got r)) (firstn L (skipn LENF (buf_as_slice (r_frame r)))) = Some p ->
  length p <= buf_size (r_payload r) ->
  exists r', poll_read dec r n cap = Ok (r', n, PReady (firstn (Nat.min cap (length p)) p)) /\
    length (r_got r') = S (length (r_got r)) /\
    b_data (r_payload r') = skipn (Nat.min cap (length p)) p.
Proof. exact c13_good_frame_delivered. Qed.
Print Assumptions C13_good_frame_delivered.

(* the constants of stream.rs are an instance *)
Theorem C13_real_constants : pc_ok MAX_PAYLOAD_LEN /\ FC MAX_PAYLOAD_LEN = MAX_PAYLOAD_LEN + 18.
Proof. split; [exact real_pc_ok|exact (FC_val MAX_PAYLOAD_LEN (proj1 real_pc_ok))]. Qed.
Print Assumptions C13_real_constants.

(* H-AEAD is satisfiable: the toy AEAD used by the correspondence check *)
Theorem C13_toy_aead : aead_len toy_enc /\ aead_correct toy_enc toy_dec.
Proof. split; [exact toy_enc_len|exact toy_dec_enc]. Qed.
Print Assumptions C13_toy_aead.

(* Non-vacuity (payload capacity 4 to keep the terms small): 6 bytes written in two writes, the
   first flush gets 3 bytes out and then sees Pending, the second completes; reads of 5 and 10. *)
Example C13_nonvacuous_delivery :
  exists s, run toy_enc toy_dec (sim_init 4)
      [OWrite [1; 2; 3; 4; 5; 6]%Z []; OWrite [5; 6]%Z []; OFlush [TOk 3; TPending];
       OFlush []; ORead 5 [TOk 1; TOk 7]; ORead 10 []; ORead 10 []] = Ok s /\
    s_accepted s = [1; 2; 3; 4; 5; 6]%Z /\ s_delivered s = [1; 2; 3; 4; 5; 6]%Z /\
    s_flushed s = true /\ s_failed s = false /\ length (w_sent (s_w s)) = 2.
Proof. eexists. split; [vm_compute; reflexivity|]. vm_compute. repeat split; reflexivity. Qed.

(* ... and the same traffic with one bit of the second frame flipped in flight: the reader delivers
   the first frame only and fails. *)
Example C13_nonvacuous_tamper :
  exists s, run toy_enc toy_dec (sim_init 4)
      [OWrite [1; 2; 3; 4; 5; 6]%Z []; OWrite [5; 6]%Z []; OFlush [];
       OTamper (tamper_of (KFlipBody 1 0 1)); ORead 10 []; ORead 10 []; ORead 10 []] = Ok s /\
    s_accepted s = [1; 2; 3; 4; 5; 6]%Z /\ s_delivered s = [1; 2; 3; 4]%Z /\ s_failed s = true.
Proof. eexists. split; [vm_compute; reflexivity|]. vm_compute. repeat split; reflexivity. Qed.

(* Non-vacuity of C13_read_eof_mid_frame (payload capacity 4): the frame buffer holds 3 bytes of a
   frame announcing 5 ciphertext bytes and the transport is closed and drained (end of file). *)
Example C13_nonvacuous_eof_mid_frame :
  let net_eof := {| n_wscript := []; n_rscript := []; n_hist := []; n_chan := []; n_rin := [];
                    n_cut := true; n_closed := true; n_log := [] |} in
  let r := {| r_payload := buf_new 4;
              r_frame := {| b_pre := []; b_data := [5; 0; 9]%Z; b_post := repeat 0%Z 19 |};
              r_got := [] |} in
  buf_len (r_payload r) = 0 /\ frame_complete (r_frame r) = Ok None /\
  inner_read net_eof (buf_capacity (r_frame r)) =
    (fst (inner_read net_eof (buf_capacity (r_frame r))), PReady []).
Proof. vm_compute. repeat split; reflexivity. Qed.

(* Non-vacuity of C13_good_frame_delivered / C13_bad_frame_rejected (toy AEAD, payload capacity 4):
   the frame buffer holds the complete frame of the plaintext [7; 8] encrypted under nonce 0; a reader
   that has accepted no frame so far decrypts it, a reader that has already accepted one (nonce 1: a
   replayed or reordered frame) does not. *)
Example C13_nonvacuous_good_and_bad_frame :
  let fr := {| b_pre := []; b_data := wire [toy_enc 0 [7; 8]%Z]; b_post := repeat 0%Z 2 |} in
  let c := firstn 18 (skipn LENF (buf_as_slice fr)) in
  let r0 := {| r_payload := buf_new 4; r_frame := fr; r_got := [] |} in
  let r1 := {| r_payload := buf_new 4; r_frame := fr; r_got := [((0, 0), [], [])]%Z |} in
  (buf_len (r_payload r0) = 0 /\ frame_complete (r_frame r0) = Ok (Some 18) /\
   Nat.leb (length c) MAXMSG = true /\ toy_dec (length (r_got r0)) c = Some [7; 8]%Z /\
   Nat.leb (length [7; 8]%Z) (buf_size (r_payload r0)) = true) /\
  (buf_len (r_payload r1) = 0 /\ frame_complete (r_frame r1) = Ok (Some 18) /\
   toy_dec (length (r_got r1)) c = None).
Proof. vm_compute. repeat split; reflexivity. Qed.
