(* C13 — encrypted transport (placeholder while the proofs are being built). *)
From Coq Require Import ZArith List.
From EC Require Import Lib.Obs Lib.Outcome Model.Noise.
Import ListNotations.

Example C13_nonvacuous_toy_roundtrip : toy_dec 3 (toy_enc 3 [1; 2; 3]%Z) = Some [1; 2; 3]%Z.
Proof. reflexivity. Qed.
