(* C07 — Quorum thresholds satisfy the n >= 5f+1 intersection arithmetic.
   This file contains only statements closed by [exact], pins and assumption prints. *)
From Coq Require Import ZArith List Lia.
From EC Require Import Lib.Outcome Lib.U64 Lib.ListW Model.Thresholds Proofs.ThresholdsProofs.
Import ListNotations.
Open Scope Z_scope.

(* For every total weight 1 <= n < 2^64 and both overflow semantics, the three
   library functions return values (no panic, no wrap) satisfying the spec. *)
Theorem C07_thresholds : forall chk n, 1 <= n < U64 ->
  exists f q s,
    max_faulty_weight chk n = Ok f /\ quorum_threshold chk n = Ok q /\
    subquorum_threshold chk n = Ok s /\ thresholds_spec n f q s.
Proof. exact thresholds_all. Qed.
Print Assumptions C07_thresholds.

Theorem C07_no_panic : forall chk n, 1 <= n < U64 ->
  is_panic (max_faulty_weight chk n) = false /\
  is_panic (quorum_threshold chk n) = false /\
  is_panic (subquorum_threshold chk n) = false.
Proof. exact no_panic. Qed.
Print Assumptions C07_no_panic.

(* Totals produced by Schedule::new are in the domain. *)
Theorem C07_schedule_total : forall ws t, schedule_total ws = Ok t ->
  t = total ws /\ all_pos ws /\ 1 <= t < U64 /\ ws <> [].
Proof. exact schedule_total_spec. Qed.
Print Assumptions C07_schedule_total.

(* Set-level consequences, for every committee (any length, any positive weights). *)
Theorem C07_two_quorums : forall ws, all_pos ws -> 1 <= total ws < U64 ->
  forall a b, length a = length ws -> length b = length ws ->
  total ws - (total ws - 1) / 5 <= weight ws a ->
  total ws - (total ws - 1) / 5 <= weight ws b ->
  (total ws - 1) / 5 < weight ws (band a b).
Proof. exact two_quorums_share_more_than_f. Qed.
Print Assumptions C07_two_quorums.

Theorem C07_commit_timeout_share_subquorum : forall ws, all_pos ws -> 1 <= total ws < U64 ->
  forall a b byz, length a = length ws -> length b = length ws -> length byz = length ws ->
  total ws - (total ws - 1) / 5 <= weight ws a ->
  total ws - (total ws - 1) / 5 <= weight ws b ->
  weight ws byz <= (total ws - 1) / 5 ->
  total ws - 3 * ((total ws - 1) / 5) <= weight ws (band (band a b) (bnot byz)).
Proof. exact (fun ws Hp _ => quorums_share_subquorum_of_correct ws Hp). Qed.
Print Assumptions C07_commit_timeout_share_subquorum.

Theorem C07_conflicting_below_subquorum : forall ws, all_pos ws -> 1 <= total ws < U64 ->
  forall a byz, length a = length ws -> length byz = length ws ->
  total ws - (total ws - 1) / 5 <= weight ws a ->
  weight ws byz <= (total ws - 1) / 5 ->
  weight ws (bor (bnot a) byz) <= 2 * ((total ws - 1) / 5) /\
  2 * ((total ws - 1) / 5) < total ws - 3 * ((total ws - 1) / 5).
Proof. exact (fun ws Hp _ => conflicting_reporters_below_subquorum ws Hp). Qed.
Print Assumptions C07_conflicting_below_subquorum.

(* Outside the domain (documented precondition): n = 0. *)
Theorem C07_zero_outside_domain :
  max_faulty_weight true 0 = Panic POverflow /\ max_faulty_weight false 0 = Ok 3689348814741910323.
Proof. exact (conj max_faulty_zero_dev max_faulty_zero_release). Qed.

(* Non-vacuity: a concrete committee (n = 11, f = 2, q = 9, s = 5) meeting every
   hypothesis above, with one quorum of weight exactly q and faulty weight exactly f. *)
Example C07_nonvacuous :
  let ws := [3; 1; 1; 1; 1; 4] in
  let a := [true; true; true; false; false; true] in
  let b := [true; false; true; true; true; true] in
  let byz := [false; true; true; false; false; false] in
  all_pos ws /\ 1 <= total ws < U64 /\
  length a = length ws /\ length b = length ws /\ length byz = length ws /\
  weight ws a = total ws - (total ws - 1) / 5 /\
  total ws - (total ws - 1) / 5 <= weight ws b /\
  weight ws byz = (total ws - 1) / 5.
Proof.
  cbv zeta. split; [repeat constructor; lia|].
  vm_compute. repeat split; congruence.
Qed.
