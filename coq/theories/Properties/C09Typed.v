(* C09 — closed byte-level round trips: for every modelled wire / storage type and every value of
   its domain whose encoding is below 4 GiB, decode_T (encode_T v) = Ok v, where
     encode_T v = canon schema idx_T (build_T v)      (zksync_protobuf::encode: canonical bytes)
     decode_T b = read_T (denote schema idx_T b)      (prost decode, then ProtoFmt::read)
   over the schema regenerated from the .proto files.  [O] are the validity predicates of keys,
   signatures and the semver string (opaque).  Generated list of instances of
   Proofs.ProtoBytesProofs.bytes_roundtrip; the per-type obligations (the built message is well
   formed for the schema; read inverts build) are in Proofs/ProtoTyped2Proofs.v. *)
From Coq Require Import String ZArith List Bool Lia Permutation.
From EC Require Import Lib.Outcome Model.Wire Model.ProtoSchema Model.ProtoTyped Model.ProtoTyped2 Gen.Schema.
From EC Require Import Proofs.ProtoTypedProofs Proofs.ProtoBytesProofs Proofs.ProtoTyped2Proofs.
Import ListNotations.
Open Scope list_scope.
Open Scope Z_scope.

(* ---- part 1 types ---- *)
Theorem C09_bytes_duration : forall chk tn, dur_dom tn ->
  exists d, build_duration chk tn = Ok d /\
    (small (canon schema idx_zksync_std_Duration d) ->
     decode idx_zksync_std_Duration read_duration (canon schema idx_zksync_std_Duration d) = Ok tn).
Proof. exact bytes_duration. Qed.
Print Assumptions C09_bytes_duration.

Theorem C09_bytes_timestamp : forall chk tn, dur_dom tn ->
  exists d, build_timestamp chk tn = Ok d /\
    (small (canon schema idx_zksync_std_Timestamp d) ->
     decode idx_zksync_std_Timestamp read_timestamp (canon schema idx_zksync_std_Timestamp d) = Ok tn).
Proof. exact bytes_timestamp. Qed.
Print Assumptions C09_bytes_timestamp.

Theorem C09_bytes_sockaddr : forall a, sockaddr_dom a -> small (encode idx_zksync_std_SocketAddr build_sockaddr a) ->
  decode idx_zksync_std_SocketAddr read_sockaddr (encode idx_zksync_std_SocketAddr build_sockaddr a) = Ok a.
Proof. exact bytes_sockaddr. Qed.
Print Assumptions C09_bytes_sockaddr.

Theorem C09_bytes_bitvec : forall l, bits_ok l -> small (encode idx_zksync_std_BitVector build_bitvec l) ->
  decode idx_zksync_std_BitVector read_bitvec (encode idx_zksync_std_BitVector build_bitvec l) = Ok l.
Proof. exact bytes_bitvec. Qed.
Print Assumptions C09_bytes_bitvec.

(* GenesisHash; PayloadHash and MsgHash have the same message shape *)
Theorem C09_bytes_hash : forall h, length h = 32%nat -> small (encode idx_zksync_roles_validator_GenesisHash build_hash h) ->
  decode idx_zksync_roles_validator_GenesisHash read_hash (encode idx_zksync_roles_validator_GenesisHash build_hash h) = Ok h.
Proof. exact bytes_hash. Qed.
Print Assumptions C09_bytes_hash.

Theorem C09_bytes_view : forall v, view_ok v -> small (encode idx_zksync_roles_validator_ViewV2 build_view v) ->
  decode idx_zksync_roles_validator_ViewV2 read_view (encode idx_zksync_roles_validator_ViewV2 build_view v) = Ok v.
Proof. exact bytes_view. Qed.
Print Assumptions C09_bytes_view.

Theorem C09_bytes_block_header : forall h, header_ok h -> small (encode idx_zksync_roles_validator_BlockHeaderV2 build_header h) ->
  decode idx_zksync_roles_validator_BlockHeaderV2 read_header (encode idx_zksync_roles_validator_BlockHeaderV2 build_header h) = Ok h.
Proof. exact bytes_header. Qed.
Print Assumptions C09_bytes_block_header.

Theorem C09_bytes_replica_commit : forall c, commit_ok c -> small (encode idx_zksync_roles_validator_ReplicaCommitV2 build_commit c) ->
  decode idx_zksync_roles_validator_ReplicaCommitV2 read_commit (encode idx_zksync_roles_validator_ReplicaCommitV2 build_commit c) = Ok c.
Proof. exact bytes_commit. Qed.
Print Assumptions C09_bytes_replica_commit.

Theorem C09_bytes_commit_qc : forall sig_ok q, commit_qc_ok sig_ok q ->
  small (encode idx_zksync_roles_validator_CommitQCV2 build_commit_qc q) ->
  decode idx_zksync_roles_validator_CommitQCV2 (read_commit_qc sig_ok) (encode idx_zksync_roles_validator_CommitQCV2 build_commit_qc q) = Ok q.
Proof. exact bytes_commit_qc. Qed.
Print Assumptions C09_bytes_commit_qc.

Theorem C09_bytes_replica_timeout : forall sig_ok t, timeout_ok sig_ok t ->
  small (encode idx_zksync_roles_validator_ReplicaTimeoutV2 build_timeout t) ->
  decode idx_zksync_roles_validator_ReplicaTimeoutV2 (read_timeout sig_ok) (encode idx_zksync_roles_validator_ReplicaTimeoutV2 build_timeout t) = Ok t.
Proof. exact bytes_timeout. Qed.
Print Assumptions C09_bytes_replica_timeout.

Theorem C09_bytes_timeout_qc : forall sig_ok q, timeout_qc_ok sig_ok q ->
  small (encode idx_zksync_roles_validator_TimeoutQCV2 build_timeout_qc q) ->
  decode idx_zksync_roles_validator_TimeoutQCV2 (read_timeout_qc sig_ok) (encode idx_zksync_roles_validator_TimeoutQCV2 build_timeout_qc q) = Ok q.
Proof. exact bytes_timeout_qc. Qed.
Print Assumptions C09_bytes_timeout_qc.

(* ---- part 2 types ---- *)

Theorem C09_bytes_justification : forall (O : oracles) v, just_ok O v -> small (encode idx_zksync_roles_validator_ProposalJustificationV2 build_justification v) ->
  decode idx_zksync_roles_validator_ProposalJustificationV2 (read_justification O) (encode idx_zksync_roles_validator_ProposalJustificationV2 build_justification v) = Ok v.
Proof. intros O v H Hs. apply bytes_roundtrip; [revert H; apply wf_justification | exact Hs | revert H; apply rt_justification]; try exact O. Qed.
Print Assumptions C09_bytes_justification.

Theorem C09_bytes_leader_proposal : forall (O : oracles) v, leader_proposal_ok O v -> small (encode idx_zksync_roles_validator_LeaderProposalV2 build_leader_proposal v) ->
  decode idx_zksync_roles_validator_LeaderProposalV2 (read_leader_proposal O) (encode idx_zksync_roles_validator_LeaderProposalV2 build_leader_proposal v) = Ok v.
Proof. intros O v H Hs. apply bytes_roundtrip; [revert H; apply wf_leader_proposal | exact Hs | revert H; apply rt_leader_proposal]; try exact O. Qed.
Print Assumptions C09_bytes_leader_proposal.

Theorem C09_bytes_new_view : forall (O : oracles) v, just_ok O v -> small (encode idx_zksync_roles_validator_ReplicaNewViewV2 build_new_view v) ->
  decode idx_zksync_roles_validator_ReplicaNewViewV2 (read_new_view O) (encode idx_zksync_roles_validator_ReplicaNewViewV2 build_new_view v) = Ok v.
Proof. intros O v H Hs. apply bytes_roundtrip; [revert H; apply wf_new_view | exact Hs | revert H; apply rt_new_view]; try exact O. Qed.
Print Assumptions C09_bytes_new_view.

Theorem C09_bytes_chonky_msg : forall (O : oracles) v, chonky_ok O v -> small (encode idx_zksync_roles_validator_ChonkyMsgV2 build_chonky v) ->
  decode idx_zksync_roles_validator_ChonkyMsgV2 (read_chonky O) (encode idx_zksync_roles_validator_ChonkyMsgV2 build_chonky v) = Ok v.
Proof. intros O v H Hs. apply bytes_roundtrip; [revert H; apply wf_chonky | exact Hs | revert H; apply rt_chonky]; try exact O. Qed.
Print Assumptions C09_bytes_chonky_msg.

Theorem C09_bytes_consensus_msg : forall (O : oracles) v, chonky_ok O v -> small (encode idx_zksync_roles_validator_ConsensusMsg build_consensus_msg v) ->
  decode idx_zksync_roles_validator_ConsensusMsg (read_consensus_msg O) (encode idx_zksync_roles_validator_ConsensusMsg build_consensus_msg v) = Ok v.
Proof. intros O v H Hs. apply bytes_roundtrip; [revert H; apply wf_consensus_msg | exact Hs | revert H; apply rt_consensus_msg]; try exact O. Qed.
Print Assumptions C09_bytes_consensus_msg.

Theorem C09_bytes_net_address : forall (O : oracles) v, net_address_ok v -> small (encode idx_zksync_roles_validator_NetAddress build_net_address v) ->
  decode idx_zksync_roles_validator_NetAddress (read_net_address) (encode idx_zksync_roles_validator_NetAddress build_net_address v) = Ok v.
Proof. intros O v H Hs. apply bytes_roundtrip; [revert H; apply wf_net_address | exact Hs | revert H; apply rt_net_address]; try exact O. Qed.
Print Assumptions C09_bytes_net_address.

Theorem C09_bytes_msg : forall (O : oracles) v, msg_ok O v -> small (encode idx_zksync_roles_validator_Msg build_msg v) ->
  decode idx_zksync_roles_validator_Msg (read_msg O) (encode idx_zksync_roles_validator_Msg build_msg v) = Ok v.
Proof. intros O v H Hs. apply bytes_roundtrip; [revert H; apply wf_msg | exact Hs | revert H; apply rt_msg]; try exact O. Qed.
Print Assumptions C09_bytes_msg.

Theorem C09_bytes_final_block : forall (O : oracles) v, final_block_ok O v -> small (encode idx_zksync_roles_validator_FinalBlockV2 build_final_block v) ->
  decode idx_zksync_roles_validator_FinalBlockV2 (read_final_block O) (encode idx_zksync_roles_validator_FinalBlockV2 build_final_block v) = Ok v.
Proof. intros O v H Hs. apply bytes_roundtrip; [revert H; apply wf_final_block | exact Hs | revert H; apply rt_final_block]; try exact O. Qed.
Print Assumptions C09_bytes_final_block.

Theorem C09_bytes_pre_genesis_block : forall (O : oracles) v, pre_genesis_ok v -> small (encode idx_zksync_roles_validator_PreGenesisBlock build_pre_genesis v) ->
  decode idx_zksync_roles_validator_PreGenesisBlock (read_pre_genesis) (encode idx_zksync_roles_validator_PreGenesisBlock build_pre_genesis v) = Ok v.
Proof. intros O v H Hs. apply bytes_roundtrip; [revert H; apply wf_pre_genesis | exact Hs | revert H; intros; apply rt_pre_genesis]; try exact O. Qed.
Print Assumptions C09_bytes_pre_genesis_block.

Theorem C09_bytes_block : forall (O : oracles) v, block_ok O v -> small (encode idx_zksync_roles_validator_Block build_block v) ->
  decode idx_zksync_roles_validator_Block (read_block O) (encode idx_zksync_roles_validator_Block build_block v) = Ok v.
Proof. intros O v H Hs. apply bytes_roundtrip; [revert H; apply wf_block | exact Hs | revert H; apply rt_block]; try exact O. Qed.
Print Assumptions C09_bytes_block.

Theorem C09_bytes_proposal : forall (O : oracles) v, proposal_ok v -> small (encode idx_zksync_roles_validator_Proposal build_proposal v) ->
  decode idx_zksync_roles_validator_Proposal (read_proposal) (encode idx_zksync_roles_validator_Proposal build_proposal v) = Ok v.
Proof. intros O v H Hs. apply bytes_roundtrip; [revert H; apply wf_proposal | exact Hs | revert H; intros; apply rt_proposal]; try exact O. Qed.
Print Assumptions C09_bytes_proposal.

Theorem C09_bytes_phase : forall (O : oracles) v, True -> small (encode idx_zksync_roles_validator_PhaseV2 build_phase v) ->
  decode idx_zksync_roles_validator_PhaseV2 (read_phase) (encode idx_zksync_roles_validator_PhaseV2 build_phase v) = Ok v.
Proof. intros O v H Hs. apply bytes_roundtrip; [revert H; intros; apply wf_phase | exact Hs | revert H; intros; apply rt_phase]; try exact O. Qed.
Print Assumptions C09_bytes_phase.

Theorem C09_bytes_chonky_v2_state : forall (O : oracles) v, state_ok O v -> small (encode idx_zksync_roles_validator_ChonkyV2State build_state v) ->
  decode idx_zksync_roles_validator_ChonkyV2State (read_state O) (encode idx_zksync_roles_validator_ChonkyV2State build_state v) = Ok v.
Proof. intros O v H Hs. apply bytes_roundtrip; [revert H; apply wf_state | exact Hs | revert H; apply rt_state]; try exact O. Qed.
Print Assumptions C09_bytes_chonky_v2_state.

Theorem C09_bytes_replica_state : forall (O : oracles) v, state_ok O v -> small (encode idx_zksync_roles_validator_ReplicaState build_replica_state v) ->
  decode idx_zksync_roles_validator_ReplicaState (read_replica_state O) (encode idx_zksync_roles_validator_ReplicaState build_replica_state v) = Ok v.
Proof. intros O v H Hs. apply bytes_roundtrip; [revert H; apply wf_replica_state | exact Hs | revert H; apply rt_replica_state]; try exact O. Qed.
Print Assumptions C09_bytes_replica_state.

Theorem C09_bytes_validator_info : forall (O : oracles) v, validator_info_ok O v -> small (encode idx_zksync_roles_validator_ValidatorInfo build_validator_info v) ->
  decode idx_zksync_roles_validator_ValidatorInfo (read_validator_info O) (encode idx_zksync_roles_validator_ValidatorInfo build_validator_info v) = Ok v.
Proof. intros O v H Hs. apply bytes_roundtrip; [revert H; apply wf_validator_info | exact Hs | revert H; apply rt_validator_info]; try exact O. Qed.
Print Assumptions C09_bytes_validator_info.

Theorem C09_bytes_leader_selection_mode : forall (O : oracles) v, True -> small (encode idx_zksync_roles_validator_LeaderSelectionMode build_mode v) ->
  decode idx_zksync_roles_validator_LeaderSelectionMode (read_mode) (encode idx_zksync_roles_validator_LeaderSelectionMode build_mode v) = Ok v.
Proof. intros O v H Hs. apply bytes_roundtrip; [revert H; intros; apply wf_mode | exact Hs | revert H; intros; apply rt_mode]; try exact O. Qed.
Print Assumptions C09_bytes_leader_selection_mode.

Theorem C09_bytes_leader_selection : forall (O : oracles) v, selection_ok v -> small (encode idx_zksync_roles_validator_LeaderSelection build_selection v) ->
  decode idx_zksync_roles_validator_LeaderSelection (read_selection) (encode idx_zksync_roles_validator_LeaderSelection build_selection v) = Ok v.
Proof. intros O v H Hs. apply bytes_roundtrip; [revert H; apply wf_selection | exact Hs | revert H; intros; apply rt_selection]; try exact O. Qed.
Print Assumptions C09_bytes_leader_selection.

Theorem C09_bytes_schedule : forall (O : oracles) v, schedule_ok O v -> small (encode idx_zksync_roles_validator_ValidatorSchedule build_schedule v) ->
  decode idx_zksync_roles_validator_ValidatorSchedule (read_schedule O) (encode idx_zksync_roles_validator_ValidatorSchedule build_schedule v) = Ok v.
Proof. intros O v H Hs. apply bytes_roundtrip; [revert H; apply wf_schedule | exact Hs | revert H; apply rt_schedule]; try exact O. Qed.
Print Assumptions C09_bytes_schedule.

Theorem C09_bytes_validator_public_key : forall (O : oracles) v, vpk_ok O v = true -> small (encode idx_zksync_roles_validator_PublicKey build_key v) ->
  decode idx_zksync_roles_validator_PublicKey (read_key (vpk_ok O)) (encode idx_zksync_roles_validator_PublicKey build_key v) = Ok v.
Proof. intros O v H Hs. apply bytes_roundtrip; [revert H; intros; apply wf_vpk | exact Hs | revert H; apply rt_key]; try exact O. Qed.
Print Assumptions C09_bytes_validator_public_key.

Theorem C09_bytes_validator_signature : forall (O : oracles) v, vsig_ok O v = true -> small (encode idx_zksync_roles_validator_Signature build_key v) ->
  decode idx_zksync_roles_validator_Signature (read_key (vsig_ok O)) (encode idx_zksync_roles_validator_Signature build_key v) = Ok v.
Proof. intros O v H Hs. apply bytes_roundtrip; [revert H; intros; apply wf_vsig | exact Hs | revert H; apply rt_key]; try exact O. Qed.
Print Assumptions C09_bytes_validator_signature.

Theorem C09_bytes_aggregate_signature : forall (O : oracles) v, agg_ok O v = true -> small (encode idx_zksync_roles_validator_AggregateSignature build_key v) ->
  decode idx_zksync_roles_validator_AggregateSignature (read_key (agg_ok O)) (encode idx_zksync_roles_validator_AggregateSignature build_key v) = Ok v.
Proof. intros O v H Hs. apply bytes_roundtrip; [revert H; intros; apply wf_agg | exact Hs | revert H; apply rt_key]; try exact O. Qed.
Print Assumptions C09_bytes_aggregate_signature.

Theorem C09_bytes_node_msg : forall (O : oracles) v, True -> small (encode idx_zksync_roles_node_Msg build_node_msg v) ->
  decode idx_zksync_roles_node_Msg (read_node_msg) (encode idx_zksync_roles_node_Msg build_node_msg v) = Ok v.
Proof. intros O v H Hs. apply bytes_roundtrip; [revert H; intros; apply wf_node_msg | exact Hs | revert H; intros; apply rt_node_msg]; try exact O. Qed.
Print Assumptions C09_bytes_node_msg.

Theorem C09_bytes_node_public_key : forall (O : oracles) v, npk_ok O v = true -> small (encode idx_zksync_roles_node_PublicKey build_key v) ->
  decode idx_zksync_roles_node_PublicKey (read_key (npk_ok O)) (encode idx_zksync_roles_node_PublicKey build_key v) = Ok v.
Proof. intros O v H Hs. apply bytes_roundtrip; [revert H; intros; apply wf_npk | exact Hs | revert H; apply rt_key]; try exact O. Qed.
Print Assumptions C09_bytes_node_public_key.

Theorem C09_bytes_node_signature : forall (O : oracles) v, nsig_ok O v = true -> small (encode idx_zksync_roles_node_Signature build_key v) ->
  decode idx_zksync_roles_node_Signature (read_key (nsig_ok O)) (encode idx_zksync_roles_node_Signature build_key v) = Ok v.
Proof. intros O v H Hs. apply bytes_roundtrip; [revert H; intros; apply wf_nsig | exact Hs | revert H; apply rt_key]; try exact O. Qed.
Print Assumptions C09_bytes_node_signature.

Theorem C09_bytes_node_signed : forall (O : oracles) v, node_signed_ok O v -> small (encode idx_zksync_roles_node_Signed build_node_signed v) ->
  decode idx_zksync_roles_node_Signed (read_node_signed O) (encode idx_zksync_roles_node_Signed build_node_signed v) = Ok v.
Proof. intros O v H Hs. apply bytes_roundtrip; [revert H; intros; apply wf_node_signed | exact Hs | revert H; apply rt_node_signed]; try exact O. Qed.
Print Assumptions C09_bytes_node_signed.

Theorem C09_bytes_gossip_handshake : forall (O : oracles) v, gossip_handshake_ok O v -> small (encode idx_zksync_network_gossip_Handshake build_gossip_handshake v) ->
  decode idx_zksync_network_gossip_Handshake (read_gossip_handshake O) (encode idx_zksync_network_gossip_Handshake build_gossip_handshake v) = Ok v.
Proof. intros O v H Hs. apply bytes_roundtrip; [revert H; intros; apply wf_gossip_handshake | exact Hs | revert H; apply rt_gossip_handshake]; try exact O. Qed.
Print Assumptions C09_bytes_gossip_handshake.

Theorem C09_bytes_consensus_handshake : forall (O : oracles) v, consensus_handshake_ok O v -> small (encode idx_zksync_network_consensus_Handshake build_consensus_handshake v) ->
  decode idx_zksync_network_consensus_Handshake (read_consensus_handshake O) (encode idx_zksync_network_consensus_Handshake build_consensus_handshake v) = Ok v.
Proof. intros O v H Hs. apply bytes_roundtrip; [revert H; apply wf_consensus_handshake | exact Hs | revert H; apply rt_consensus_handshake]; try exact O. Qed.
Print Assumptions C09_bytes_consensus_handshake.

Theorem C09_bytes_preface_encryption : forall (O : oracles) v, True -> small (encode idx_zksync_network_preface_Encryption build_encryption v) ->
  decode idx_zksync_network_preface_Encryption (read_encryption) (encode idx_zksync_network_preface_Encryption build_encryption v) = Ok v.
Proof. intros O v H Hs. apply bytes_roundtrip; [revert H; intros; apply wf_encryption | exact Hs | revert H; intros; apply rt_encryption]; try exact O. Qed.
Print Assumptions C09_bytes_preface_encryption.

Theorem C09_bytes_preface_endpoint : forall (O : oracles) v, True -> small (encode idx_zksync_network_preface_Endpoint build_endpoint v) ->
  decode idx_zksync_network_preface_Endpoint (read_endpoint) (encode idx_zksync_network_preface_Endpoint build_endpoint v) = Ok v.
Proof. intros O v H Hs. apply bytes_roundtrip; [revert H; intros; apply wf_endpoint | exact Hs | revert H; intros; apply rt_endpoint]; try exact O. Qed.
Print Assumptions C09_bytes_preface_endpoint.

Theorem C09_bytes_rpc_consensus_req : forall (O : oracles) v, signed_ok O VConsensus v -> small (encode idx_zksync_network_consensus_ConsensusReq build_consensus_req v) ->
  decode idx_zksync_network_consensus_ConsensusReq (read_consensus_req O) (encode idx_zksync_network_consensus_ConsensusReq build_consensus_req v) = Ok v.
Proof. intros O v H Hs. apply bytes_roundtrip; [revert H; apply wf_consensus_req | exact Hs | revert H; apply rt_consensus_req]; try exact O. Qed.
Print Assumptions C09_bytes_rpc_consensus_req.

Theorem C09_bytes_rpc_consensus_resp : forall (O : oracles) v, True -> small (encode idx_zksync_network_consensus_ConsensusResp build_consensus_resp v) ->
  decode idx_zksync_network_consensus_ConsensusResp (read_consensus_resp) (encode idx_zksync_network_consensus_ConsensusResp build_consensus_resp v) = Ok v.
Proof. intros O v H Hs. apply bytes_roundtrip; [revert H; intros; apply wf_consensus_resp | exact Hs | revert H; intros; apply rt_consensus_resp]; try exact O. Qed.
Print Assumptions C09_bytes_rpc_consensus_resp.

Theorem C09_bytes_rpc_get_block_req : forall (O : oracles) v, u64 v -> small (encode idx_zksync_network_gossip_GetBlockRequest build_get_block_req v) ->
  decode idx_zksync_network_gossip_GetBlockRequest (read_get_block_req) (encode idx_zksync_network_gossip_GetBlockRequest build_get_block_req v) = Ok v.
Proof. intros O v H Hs. apply bytes_roundtrip; [revert H; apply wf_get_block_req | exact Hs | revert H; intros; apply rt_get_block_req]; try exact O. Qed.
Print Assumptions C09_bytes_rpc_get_block_req.

Theorem C09_bytes_rpc_get_block_resp : forall (O : oracles) v, get_block_resp_ok O v -> small (encode idx_zksync_network_gossip_GetBlockResponse build_get_block_resp v) ->
  decode idx_zksync_network_gossip_GetBlockResponse (read_get_block_resp O) (encode idx_zksync_network_gossip_GetBlockResponse build_get_block_resp v) = Ok v.
Proof. intros O v H Hs. apply bytes_roundtrip; [revert H; apply wf_get_block_resp | exact Hs | revert H; apply rt_get_block_resp]; try exact O. Qed.
Print Assumptions C09_bytes_rpc_get_block_resp.

Theorem C09_bytes_rpc_push_block_store_state_req : forall (O : oracles) v, store_state_ok O v -> small (encode idx_zksync_network_gossip_PushBlockStoreState build_push_store_state v) ->
  decode idx_zksync_network_gossip_PushBlockStoreState (read_push_store_state O) (encode idx_zksync_network_gossip_PushBlockStoreState build_push_store_state v) = Ok v.
Proof. intros O v H Hs. apply bytes_roundtrip; [revert H; apply wf_push_store_state | exact Hs | revert H; apply rt_push_store_state]; try exact O. Qed.
Print Assumptions C09_bytes_rpc_push_block_store_state_req.

Theorem C09_bytes_rpc_push_validator_addrs_req : forall (O : oracles) v, Forall (signed_ok O VNetAddress) v -> small (encode idx_zksync_network_gossip_PushValidatorAddrs build_push_addrs v) ->
  decode idx_zksync_network_gossip_PushValidatorAddrs (read_push_addrs O) (encode idx_zksync_network_gossip_PushValidatorAddrs build_push_addrs v) = Ok v.
Proof. intros O v H Hs. apply bytes_roundtrip; [revert H; apply wf_push_addrs | exact Hs | revert H; apply rt_push_addrs]; try exact O. Qed.
Print Assumptions C09_bytes_rpc_push_validator_addrs_req.

Theorem C09_bytes_rpc_push_tx_req : forall (O : oracles) v, True -> small (encode idx_zksync_network_gossip_PushTx build_push_tx v) ->
  decode idx_zksync_network_gossip_PushTx (read_push_tx) (encode idx_zksync_network_gossip_PushTx build_push_tx v) = Ok v.
Proof. intros O v H Hs. apply bytes_roundtrip; [revert H; intros; apply wf_push_tx | exact Hs | revert H; intros; apply rt_push_tx]; try exact O. Qed.
Print Assumptions C09_bytes_rpc_push_tx_req.

Theorem C09_bytes_rpc_ping_req : forall (O : oracles) v, length v = 32%nat -> small (encode idx_zksync_network_ping_PingReq build_ping v) ->
  decode idx_zksync_network_ping_PingReq (read_ping) (encode idx_zksync_network_ping_PingReq build_ping v) = Ok v.
Proof. intros O v H Hs. apply bytes_roundtrip; [revert H; intros; apply wf_ping_req | exact Hs | revert H; apply rt_ping]; try exact O. Qed.
Print Assumptions C09_bytes_rpc_ping_req.

Theorem C09_bytes_rpc_ping_resp : forall (O : oracles) v, length v = 32%nat -> small (encode idx_zksync_network_ping_PingResp build_ping v) ->
  decode idx_zksync_network_ping_PingResp (read_ping) (encode idx_zksync_network_ping_PingResp build_ping v) = Ok v.
Proof. intros O v H Hs. apply bytes_roundtrip; [revert H; intros; apply wf_ping_resp | exact Hs | revert H; apply rt_ping]; try exact O. Qed.
Print Assumptions C09_bytes_rpc_ping_resp.

(* Signed<V>: one theorem for each message variant the Rust type parameter selects *)
Theorem C09_bytes_signed : forall (O : oracles) w v, signed_ok O w v -> small (encode idx_zksync_roles_validator_Signed build_signed v) ->
  decode idx_zksync_roles_validator_Signed (read_signed O w) (encode idx_zksync_roles_validator_Signed build_signed v) = Ok v.
Proof. intros O w v H Hs. apply bytes_roundtrip; [eapply wf_signed; exact H | exact Hs | apply rt_signed; exact H]. Qed.
Print Assumptions C09_bytes_signed.

(* Genesis: build is partial (unreachable!() for a protocol version other than 2); read rejects
   every other version (repair 900c4da) *)
Theorem C09_bytes_genesis : forall (O : oracles) g, genesis_ok O g ->
  exists d, build_genesis g = Ok d /\
    (small (canon schema idx_zksync_roles_validator_Genesis d) ->
     decode idx_zksync_roles_validator_Genesis (read_genesis O) (canon schema idx_zksync_roles_validator_Genesis d) = Ok g).
Proof.
  intros O g H. destruct (rt_genesis O g H) as [d [Hb [Hr Hw]]]. exists d. split; [exact Hb|].
  intros Hs. apply (bytes_roundtrip Genesis idx_zksync_roles_validator_Genesis (fun _ => d) (read_genesis O) g); assumption.
Qed.
Print Assumptions C09_bytes_genesis.

Theorem C09_genesis_version_guard : forall (O : oracles) d g, read_genesis O d = Ok g -> g_protocol_version g = 2.
Proof.
  intros O d g H. unfold read_genesis in H.
  destruct (req_var 8 d) as [v| |]; cbn [bind] in H; try discriminate.
  destruct (as_u32 v =? 2) eqn:E; cbn [negb] in H; [|discriminate]. apply Z.eqb_eq in E.
  destruct (read_opt 10 (read_schedule O) d) as [s| |]; cbn [bind] in H; try discriminate.
  destruct (req_var 5 d) as [c| |]; cbn [bind] in H; try discriminate.
  destruct (req_var 6 d) as [f| |]; cbn [bind] in H; try discriminate.
  destruct (req_var 7 d) as [b| |]; cbn [bind] in H; try discriminate.
  inversion H; subst. cbn [g_protocol_version]. exact E.
Qed.
Print Assumptions C09_genesis_version_guard.

(* non-vacuity: the domains are inhabited and the statements compute on a concrete value *)
Example C09_bytes_nonvacuous :
  let v := {| v_genesis := repeat 7 32; v_number := 5; v_epoch := 1 |} in
  let c := {| rc_view := v; rc_proposal := {| bh_number := 9; bh_payload := repeat 3 32 |} |} in
  let m := MConsensus (CReplicaCommit c) in
  msg_ok pool_oracles m /\
  decode idx_zksync_roles_validator_Msg (read_msg pool_oracles) (encode idx_zksync_roles_validator_Msg build_msg m) = Ok m.
Proof.
  split; [|vm_compute; reflexivity].
  cbn [msg_ok chonky_ok]. unfold commit_ok, view_ok, header_ok, view_dom, header_dom, u64, two64. cbn. repeat split; lia.
Qed.

(* mux::Handshake: lossless only.  The value lists its two HashMaps in iteration order; the same map
   in another order has other bytes (second part), which is why the message is outside the
   "equal values encode identically" clause (it is neither signed nor stored). *)
Theorem C09_bytes_mux_handshake : forall h, mux_ok h -> small (encode idx_zksync_network_mux_Handshake build_mux h) ->
  decode idx_zksync_network_mux_Handshake read_mux (encode idx_zksync_network_mux_Handshake build_mux h) = Ok h.
Proof. intros h H Hs. apply bytes_roundtrip; [apply wf_mux; exact H | exact Hs | apply rt_mux; exact H]. Qed.
Print Assumptions C09_bytes_mux_handshake.

Example C09_mux_handshake_not_canonical :
  let h1 := {| mx_accept := [(1, 10); (2, 20)]; mx_connect := [] |} in
  let h2 := {| mx_accept := [(2, 20); (1, 10)]; mx_connect := [] |} in
  mux_ok h1 /\ mux_ok h2 /\ Permutation (mx_accept h1) (mx_accept h2) /\
  encode idx_zksync_network_mux_Handshake build_mux h1 <> encode idx_zksync_network_mux_Handshake build_mux h2.
Proof.
  split; [|split; [|split]].
  - unfold mux_ok, cap_ok, u64, two64, two32. cbn. repeat split; repeat constructor; cbn; lia.
  - unfold mux_ok, cap_ok, u64, two64, two32. cbn. repeat split; repeat constructor; cbn; lia.
  - apply perm_swap.
  - vm_compute. discriminate.
Qed.

(* Schedule::new (run by Schedule's read on the decoded validators) does not depend on the order in
   which the validators are listed: same schedule, or the same rejection, for every permutation *)
Theorem C09_schedule_listing_order_irrelevant : forall l l',
  Permutation l l' -> sched_new l [] 0 = sched_new l' [] 0.
Proof. exact schedule_new_order_irrelevant. Qed.
Print Assumptions C09_schedule_listing_order_irrelevant.
