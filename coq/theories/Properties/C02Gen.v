(* C02 / C01, translator tie: the implied-block decision as regenerated from the source on every run
   (Gen/Justification.v:  TimeoutQC::high_vote, TimeoutQC::high_qc of replica_timeout.rs,
   ProposalJustification::{view, get_implied_block} of leader_proposal.rs, CommitQC::{header, view},
   View::next_view) equals the hand model Model/Msgs.v, for every certificate, committee and both overflow
   profiles.  Every theorem proved about Model.Msgs.{high_vote, high_qc, get_implied_block} (Proofs/QCProofs.v,
   the refinement to Layer A in Properties/C02.v / C01.v) is thereby a theorem about what the source says
   now.  If the source changes meaning (what is tallied, by which key, with which weight, which selection),
   this file stops compiling. *)
From Coq Require Import ZArith List Lia Bool Permutation.
From EC Require Import Lib.Outcome Lib.U64 Lib.RustSem Lib.ListW Model.Msgs Proofs.ListWFacts Proofs.GenTac.
From EC Require Import Gen.Numbers Gen.Justification.
Import ListNotations.
Open Scope Z_scope.

(* ---------- accessors ---------- *)
Theorem C02_generated_header : forall q, gen_CommitQC_header q = cprop (qmsg q).
Proof. intros q. reflexivity. Qed.
Print Assumptions C02_generated_header.

Theorem C02_generated_qc_view : forall q, gen_CommitQC_view q = cview (qmsg q).
Proof. intros q. reflexivity. Qed.
Print Assumptions C02_generated_qc_view.

(* ---------- high_qc: last maximal high certificate in map order ---------- *)
Lemma high_qc_from_fold : forall entries best,
  high_qc_from entries best =
  fold_left (max_by_key_step (fun q => vnum (gen_CommitQC_view q))) (filter_map (fun m => thq m) (map fst entries)) best.
Proof.
  induction entries as [|[msg s] rest IH]; intros best; [reflexivity|].
  cbn [high_qc_from map fst filter_map]. destruct (thq msg) as [q|]; [|apply IH].
  cbn [fold_left]. rewrite <- IH. unfold max_by_key_step, gen_CommitQC_view.
  destruct best as [b|]; [|reflexivity].
  destruct (vnum (cview (qmsg b)) <=? vnum (cview (qmsg q))); reflexivity.
Qed.

Theorem C02_generated_high_qc : forall t, gen_TimeoutQC_high_qc t = high_qc t.
Proof. intros t. unfold gen_TimeoutQC_high_qc, high_qc, max_by_key. symmetry. apply high_qc_from_fold. Qed.
Print Assumptions C02_generated_high_qc.

(* ---------- high_vote ---------- *)
(* The source adds u64 weights with `+=`; the hand model adds in Z.  They agree when the tally cannot
   overflow, i.e. the weights of all entries together stay below 2^64 (true for every certificate over a
   Schedule: its total weight is a u64 and verified entries are disjoint). *)
Fixpoint entries_weight (C : committee) (entries : list (timeout * list bool)) : Z :=
  match entries with
  | [] => 0
  | (_, s) :: rest => weight (cweights C) s + entries_weight C rest
  end.
Definition tally_ok (C : committee) (t : tqc) : Prop :=
  all_pos (cweights C) /\ entries_weight C (tqmap t) < U64.

Fixpoint cnt_total (cnt : list (header * Z)) : Z :=
  match cnt with [] => 0 | (_, w) :: r => w + cnt_total r end.
Definition cnt_nonneg (cnt : list (header * Z)) : Prop := Forall (fun x => 0 <= snd x) cnt.

Lemma hm_entry_add_count_add : forall (E : Type) chk cnt h w,
  cnt_nonneg cnt -> 0 <= w -> cnt_total cnt + w < U64 ->
  @hm_entry_add E header header_eqb chk cnt h w = Ok (count_add h w cnt) /\
  cnt_nonneg (count_add h w cnt) /\ cnt_total (count_add h w cnt) = cnt_total cnt + w.
Proof.
  intros E chk cnt h w. induction cnt as [|[h' w'] rest IH]; intros Hnn Hw Hlt.
  - cbn [hm_entry_add count_add cnt_total] in *. unfold u64_add.
    destruct (0 + w <? U64) eqn:Hc; [|lia]. cbn [bind]. repeat split.
    + constructor; [cbn; lia|constructor].
    + cbn [cnt_total]. lia.
  - inversion Hnn as [|x l Hx Hrest]; subst. cbn [snd] in Hx. cbn [cnt_total] in Hlt.
    assert (Hrt : 0 <= cnt_total rest).
    { clear -Hrest. induction Hrest as [|[a b] l Hb _ IHl]; cbn [cnt_total]; [lia|cbn [snd] in Hb; lia]. }
    cbn [hm_entry_add count_add]. destruct (header_eqb h' h).
    + unfold u64_add. destruct (w' + w <? U64) eqn:Hc; [|lia]. cbn [bind]. repeat split.
      * constructor; [cbn [snd]; lia|exact Hrest].
      * cbn [cnt_total]. lia.
    + destruct (IH Hrest Hw ltac:(lia)) as (Heq & Hnn' & Htot). rewrite Heq. cbn [bind]. repeat split.
      * constructor; [exact Hx|exact Hnn'].
      * cbn [cnt_total]. lia.
Qed.

Lemma entries_weight_nonneg : forall C entries, all_pos (cweights C) -> 0 <= entries_weight C entries.
Proof.
  intros C entries Hp. induction entries as [|[m s] rest IH]; cbn [entries_weight]; [lia|].
  pose proof (weight_nonneg _ Hp s). lia.
Qed.

Lemma tally_fold : forall (E : Type) chk C entries cnt,
  all_pos (cweights C) -> cnt_nonneg cnt -> cnt_total cnt + entries_weight C entries < U64 ->
  @fold_m E _ _
    (fun cnt0 '(msg, s) =>
       match thv msg with
       | Some v => let* w := signers_weight C s in hm_entry_add header_eqb chk cnt0 (cprop v) w
       | _ => Ok cnt0
       end) entries cnt
  = high_vote_count C entries cnt.
Proof.
  intros E chk C entries. induction entries as [|[msg s] rest IH]; intros cnt Hp Hnn Hlt; [reflexivity|].
  cbn [fold_m high_vote_count]. cbn [entries_weight] in Hlt.
  pose proof (weight_nonneg _ Hp s) as Hws. pose proof (entries_weight_nonneg C rest Hp) as Hr.
  destruct (thv msg) as [v|].
  - unfold signers_weight. destruct (Nat.eqb (length s) (length C)); [|reflexivity].
    cbn [bind].
    destruct (hm_entry_add_count_add E chk cnt (cprop v) (weight (cweights C) s) Hnn Hws ltac:(lia)) as (Heq & Hnn' & Htot).
    rewrite Heq. cbn [bind]. apply IH; [exact Hp|exact Hnn'|lia].
  - cbn [bind]. apply IH; [exact Hp|exact Hnn|lia].
Qed.

(* selection: "exactly one proposal reaches the sub-quorum" *)
Lemma select_one : forall (E : Type) (l : list (header * Z)),
  (if vec_len l =? 1 then let '(o, _) := vec_pop l in @Ok E _ (option_map (fun x => fst x) o) else Ok None)
  = match l with [x] => Ok (Some (fst x)) | _ => Ok None end.
Proof.
  intros E l. destruct l as [|x [|y l']]; [reflexivity|reflexivity|].
  unfold vec_len. cbn [length].
  destruct (Z.of_nat (S (S (length l'))) =? 1) eqn:Hc; [apply Z.eqb_eq in Hc; rewrite !Nat2Z.inj_succ in Hc; lia|reflexivity].
Qed.

Theorem C02_generated_high_vote : forall (E : Type) chk C t, tally_ok C t ->
  @gen_TimeoutQC_high_vote E chk t C = high_vote C t.
Proof.
  intros E chk C t [Hp Hlt]. unfold gen_TimeoutQC_high_vote, high_vote.
  rewrite (tally_fold E chk C (tqmap t) [] Hp ltac:(constructor) ltac:(cbn [cnt_total]; lia)).
  destruct (high_vote_count C (tqmap t) []) as [cnt|e|p]; cbn [bind]; try reflexivity.
  apply select_one.
Qed.
Print Assumptions C02_generated_high_vote.

(* The tally is a HashMap in the source and an insertion-ordered list in the translation: the selection
   does not depend on the iteration order. *)
Theorem C02_generated_high_vote_order_irrelevant : forall (E : Type) (f : header * Z -> bool) (l l' : list (header * Z)),
  Permutation l l' ->
  (match filter f l with [x] => @Ok E _ (Some (fst x)) | _ => Ok None end) =
  (match filter f l' with [x] => Ok (Some (fst x)) | _ => Ok None end).
Proof.
  intros E f l l' HP.
  assert (HF : Permutation (filter f l) (filter f l')).
  { induction HP as [|x a b _ IH|x y a|a b c _ IH1 _ IH2]; cbn [filter].
    - constructor.
    - destruct (f x); [constructor; exact IH|exact IH].
    - destruct (f x), (f y); try apply Permutation_refl. apply perm_swap.
    - eapply Permutation_trans; eassumption. }
  destruct (filter f l) as [|x [|y r]] eqn:H1.
  - apply Permutation_nil in HF. rewrite HF. reflexivity.
  - apply Permutation_length_1_inv in HF. rewrite HF. reflexivity.
  - pose proof (Permutation_length HF) as HL. cbn [length] in HL.
    destruct (filter f l') as [|x' [|y' r']]; cbn [length] in HL; try discriminate. reflexivity.
Qed.
Print Assumptions C02_generated_high_vote_order_irrelevant.

(* ---------- the view of a justification ---------- *)
Theorem C02_generated_justification_view : forall (E : Type) chk j,
  @gen_ProposalJustification_view E chk j = justification_view chk j.
Proof.
  intros E chk j. unfold gen_ProposalJustification_view, justification_view, gen_View_next_view,
    gen_ViewNumber_next, gen_CommitQC_view, num_next.
  destruct j as [q|t]; gen_auto.
Qed.
Print Assumptions C02_generated_justification_view.

(* ---------- get_implied_block ---------- *)
(* block numbers below u64::MAX (BlockNumber::next is `checked_add(1).unwrap()`, see Properties/C05Gen.v) *)
Definition just_nums_ok (j : justification) : Prop :=
  match j with
  | JCommit q => hnum (cprop (qmsg q)) + 1 < U64
  | JTimeout t => match high_qc t with Some q => hnum (cprop (qmsg q)) + 1 < U64 | None => True end
  end.
Definition just_tally_ok (C : committee) (j : justification) : Prop :=
  match j with JCommit _ => True | JTimeout t => tally_ok C t end.

Theorem C02_generated_get_implied_block : forall (E : Type) chk C fb j,
  just_tally_ok C j -> just_nums_ok j ->
  @gen_ProposalJustification_get_implied_block E chk j C fb = get_implied_block chk C fb j.
Proof.
  intros E chk C fb j Ht Hn. unfold gen_ProposalJustification_get_implied_block, get_implied_block.
  destruct j as [q|t]; cbn [just_tally_ok just_nums_ok] in *.
  - unfold gen_BlockNumber_next, gen_CommitQC_header, num_next. gen_auto.
  - rewrite (C02_generated_high_vote E chk C t Ht), C02_generated_high_qc.
    destruct (high_vote C t) as [[v|]|e|p]; cbn [bind]; try reflexivity;
      destruct (high_qc t) as [q|]; unfold gen_BlockNumber_next, gen_CommitQC_header, num_next in *; gen_auto.
Qed.
Print Assumptions C02_generated_get_implied_block.

(* non-vacuity: a committee of weights [5;1;1] (sub-quorum 1 ... total 7, f = 1, n - 3f = 4): the heavy
   validator alone re-proposes; two light ones do not.  Weight, not head count. *)
Example C02_generated_high_vote_example :
  let C := [ {| mkey := 0; mweight := 5 |}; {| mkey := 1; mweight := 1 |}; {| mkey := 2; mweight := 1 |} ] in
  let v := {| vgen := 0; vepoch := 0; vnum := 3 |} in
  let h := {| hnum := 9; hpay := 1 |} in
  let tm := {| tview := v; thv := Some {| cview := v; cprop := h |}; thq := None |} in
  let tn := {| tview := v; thv := None; thq := None |} in
  @gen_TimeoutQC_high_vote unit true {| tqview := v; tqmap := [(tm, [true; false; false]); (tn, [false; true; true])]; tqagg := [] |} C = Ok (Some h) /\
  @gen_TimeoutQC_high_vote unit true {| tqview := v; tqmap := [(tm, [false; true; true]); (tn, [true; false; false])]; tqagg := [] |} C = Ok None.
Proof. split; reflexivity. Qed.
