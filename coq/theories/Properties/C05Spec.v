(* C05, last clause — "on every input its reaction — accept or reject, resulting state, messages
   emitted — is the one prescribed by the ChonkyBFT replica specification (with the
   implementation's documented refinements)".

   Model/Spec.v is an independent transcription of /repo/spec/informal-spec (replica.rs, types.rs,
   fetcher.rs); Model/Replica.v is the transcription of the implementation, tied to the Rust code
   by the replica correspondence.  One step [rstep cfg s i] of the implementation is compared with
   one step [spec_step cfg (abs cfg s) i] of the specification from the abstracted state:
   [abs] keeps view, phase, high vote and both high certificates, the proposal cache, the block
   store's next number, and maps the certificates under construction to the specification's vote
   stores (every signer of a cached certificate is a stored vote).

   [refines cfg s i] says, by the outcome of the implementation:
     Ok     : the specification accepts too and post-states and emitted messages agree on
              (view, phase, high vote, both high certificates, messages) — certificates formed in
              this very step are identified up to their signer set ([cqc_sim]: same vote;
              [tqc_sim]: same view and same sequence of timeout messages) — OR the input is a
              proposal falling under a named [relaxation] (the implementation is more permissive);
     Err e  : the specification refuses too, OR [refinement cfg s i e]: one of the documented
              refinements, each a constructor with its defining condition;
     Panic p: the specification refuses too, OR p is the u64 overflow of view.next() /
              number.next() (the specification's numbers are unbounded).
   Statements only; proofs in Proofs/ReplicaSpec.v. *)
From Coq Require Import ZArith List.
From EC Require Import Lib.Outcome Model.Msgs Model.Replica Model.Spec.
From EC Require Import Proofs.ReplicaCaches Proofs.ReplicaJustified Proofs.ReplicaSpec.
Import ListNotations.
Open Scope Z_scope.

(* refines_spec: every state satisfying the invariants proved elsewhere (cache_inv: C16;
   certs_ok: C05 held_certificates_verify), every input *)
Theorem C05_refines_spec : forall cfg s i, cchk cfg = true -> cache_inv cfg s -> certs_ok cfg s ->
  refines cfg s i.
Proof. exact refines_spec. Qed.
Print Assumptions C05_refines_spec.

(* ... hence in every state reachable from any verified persisted state by any input sequence *)
Theorem C05_refines_spec_reachable : forall cfg d first next (ops : list rinput) i,
  cchk cfg = true -> durable_ok cfg d ->
  refines cfg (rrun cfg (rstart cfg d first next) ops) i.
Proof. exact refines_spec_reachable. Qed.
Print Assumptions C05_refines_spec_reachable.

(* the same, spelled out for the direction "the implementation accepts": unless the input is a
   proposal under a named relaxation, the specification accepts and agrees *)
Theorem C05_accepts_as_specified : forall cfg s i s' es, cchk cfg = true -> cache_inv cfg s -> certs_ok cfg s ->
  rstep cfg s i = (s', es, Ok tt) -> ~ relaxation cfg s i ->
  exists a' ms, spec_step cfg (abs cfg s) i = (a', ms, true) /\ core_sim s' a' /\ Forall2 msg_sim (sent es) ms.
Proof.
  intros cfg s i s' es Hchk Hinv Hc Hstep Hnr. pose proof (refines_spec cfg s i Hchk Hinv Hc) as H.
  unfold refines in H. rewrite Hstep in H. destruct (spec_step cfg (abs cfg s) i) as [[a' ms] acc].
  destruct H as [(-> & H1 & H2)|H]; [eauto|contradiction].
Qed.
Print Assumptions C05_accepts_as_specified.

(* ... and for the direction "the specification accepts, the implementation refuses" *)
Theorem C05_refuses_only_by_refinement : forall cfg s i s' es err a' ms,
  cchk cfg = true -> cache_inv cfg s -> certs_ok cfg s ->
  rstep cfg s i = (s', es, Err err) -> spec_step cfg (abs cfg s) i = (a', ms, true) ->
  refinement cfg s i err.
Proof.
  intros cfg s i s' es err a' ms Hchk Hinv Hc Hstep Hspec. pose proof (refines_spec cfg s i Hchk Hinv Hc) as H.
  unfold refines in H. rewrite Hstep, Hspec in H. destruct H as [H|H]; [discriminate|exact H].
Qed.
Print Assumptions C05_refuses_only_by_refinement.

(* votes and new-views are never accepted against the specification: the relaxations only
   concern proposals *)
Theorem C05_relaxations_only_proposals : forall cfg s i, relaxation cfg s i ->
  exists m p j, i = IMsg m /\ m_msg m = MProposal p j.
Proof. intros cfg s i H. destruct H as [m p j Hm _|m p j Hm _]; exists m, p, j; auto. Qed.

(* Non-vacuity: committee of one; the replica times out in view 0, receives its own timeout vote
   and forms the TimeoutQC: implementation and specification both accept, move to view 1 and
   send a new-view carrying a TimeoutQC of view 0 (classifier code 1); the same vote again is
   refused by both (code 0). *)
Example C05_spec_nonvacuous :
  let C := [{| mkey := 0; mweight := 1 |}] in
  let cfg := {| cg := 0; ce := 0; cC := C; cme := 0; cfirst := 0; cmaxpay := 100;
                cpsize := (fun _ => 10); cpok := (fun _ _ => true); cchk := true |} in
  let s1 := st_of (rprologue cfg (rstart cfg durable_default 0 0)) in
  let t := {| tview := {| vgen := 0; vepoch := 0; vnum := 0 |}; thv := None; thq := None |} in
  let i := IMsg {| m_key := 0; m_sig_ok := true; m_msg := MTimeout t |} in
  classify cfg s1 i = 1 /\
  snd (spec_step cfg (abs cfg s1) i) = true /\ sp_view (fst (fst (spec_step cfg (abs cfg s1) i))) = 1 /\
  classify cfg (st_of (rstep cfg s1 i)) i = 0.
Proof. vm_compute. repeat split. Qed.
