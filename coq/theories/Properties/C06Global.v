(* C06 — progress after the network heals, on the concrete protocol model (Model/Protocol.v)
   with the synchronous-round operator of Model/ProtocolSync.v.
   PROVED here (for every reachable state = every adversarial prefix of partitions, drops,
   crashes, restarts and Byzantine messages): the round operator stays inside the reachable
   states; no reachable state deadlocks a replica (timer always enabled, retransmits); a
   verifying new-view in the soup brings every running honest node to its view within one
   round; at the end of every round every node that made no view progress has retransmitted.
   Also proved: no honest node stops during a synchronous suffix with headroom; catch-up within
   three rounds (b); and (d) in the form that holds of the model: a view in which all honest
   nodes wait with the leader's single proposal on the network is decided within two rounds
   (every honest node stores the block and enters the next view).
   NOT PROVED (stated as Definitions at the end): alignment of all honest nodes (c) and the
   bounded-progress theorems (e), C06_full. *)
From Coq Require Import ZArith List Bool Lia.
From EC Require Import Lib.Outcome Lib.ListW Model.Msgs Model.Replica Model.ReplicaRun Model.Protocol
  Model.ProtocolSync Proofs.ReplicaLive Proofs.ProtocolRefinesExec Proofs.ProtocolRefinesExample
  Proofs.ProtocolLive Proofs.ProtocolLiveInv Proofs.ProtocolLiveExample
  Proofs.ProtocolLiveCatch Proofs.ProtocolLiveNoStop Proofs.ProtocolLiveCommitStep
  Proofs.ProtocolLiveCommitLock Proofs.ProtocolLiveCommit Proofs.ProtocolLiveTimeoutStep
  Proofs.ProtocolLiveTimeoutLock Proofs.ProtocolLiveTimeout Proofs.ProtocolLiveTidy
  Proofs.ProtocolLiveLockstep Proofs.ProtocolLiveAlign Proofs.ProtocolLiveAvail Proofs.ProtocolLiveGoals.
From EC Require Proofs.ReplicaCaches Proofs.ReplicaJustified Proofs.ProtocolRefinesStep.
Import ListNotations.
Open Scope Z_scope.

(* ---- the synchronous suffix is a schedule of the protocol model ---- *)
Theorem C06G_sync_round_reach : forall P pay fetch s, preach P s -> preach P (sync_round P pay fetch s).
Proof. exact sync_round_reach. Qed.
Print Assumptions C06G_sync_round_reach.

Theorem C06G_sync_rounds_reach : forall P pay fetch n s, preach P s -> preach P (sync_rounds P pay fetch n s).
Proof. exact sync_rounds_reach. Qed.
Print Assumptions C06G_sync_rounds_reach.

(* ---- (a) no deadlock ---- *)
(* a replica beyond view 0 always holds a certificate, in memory and on disk, in every
   reachable global state (also while stopped) *)
Theorem C06G_just_ok : forall P s, preach P s -> forall k,
  ReplicaLive.dur_ok (n_dur (g_node s k)) /\ just_ok (n_live (g_node s k)).
Proof. exact preach_just_ok. Qed.
Print Assumptions C06G_just_ok.

(* the PTimer transition of every running node succeeds, keeps it running in the same view,
   phase Timeout (durably), and puts on the network its timeout vote for the current view and,
   beyond view 0, a new-view message carrying its highest certificate *)
Theorem C06G_no_deadlock : forall P s k, preach P s -> n_alive (g_node s k) = true ->
  let live := n_live (g_node s k) in
  let x := node_input (pcfg P k) (g_node s k) ITimer in
  n_alive (fst x) = true /\ n_live (fst x) = set_phase live PTimeout /\
  r_view (n_live (fst x)) = r_view live /\ r_phase (n_live (fst x)) = PTimeout /\
  d_view (n_dur (fst x)) = r_view live /\ d_phase (n_dur (fst x)) = PTimeout /\
  In (ESend (MTimeout {| tview := {| vgen := p_g P; vepoch := p_e P; vnum := r_view live |};
                         thv := r_high_vote live; thq := r_high_cqc live |})) (snd x) /\
  (r_view live <> 0 -> exists j, get_justification live = Ok j /\ In (ESend (MNewView j)) (snd x)).
Proof. exact no_deadlock. Qed.
Print Assumptions C06G_no_deadlock.

(* ---- (b) catching up ---- *)
(* one replica: a verifying new-view for a higher view is adopted unless the replica stops *)
Theorem C06G_catch_up_or_stop : forall cfg s key j mv,
  ccontains cfg key = true ->
  justification_view (E := unit) (cchk cfg) j = Ok mv ->
  justification_verify (cg cfg) (ce cfg) (cC cfg) j = Ok tt ->
  r_view s < vnum mv ->
  let x := rstep_t cfg s (IMsg {| m_key := key; m_sig_ok := true; m_msg := MNewView j |}) in
  stops (snd x) = true \/ r_view (fst (fst x)) = vnum mv.
Proof. exact catch_up_or_stop. Qed.
Print Assumptions C06G_catch_up_or_stop.

(* one round: if the soup contains a verifying new-view message of a committee member for view
   V (e.g. the one a node in view V sent when it entered V, or retransmitted at the end of the
   previous round), every honest node running at the end of the round is in a view >= V *)
Theorem C06G_catch_up_round : forall P pay fetch s i0 key j mv k,
  is_member P key = true ->
  justification_view (E := unit) true j = Ok mv ->
  justification_verify (p_g P) (p_e P) (p_C P) j = Ok tt ->
  nth_error (g_soup s) i0 = Some {| m_key := key; m_sig_ok := true; m_msg := MNewView j |} ->
  honestb P k = true ->
  n_alive (g_node (sync_round P pay fetch s) k) = true ->
  vnum mv <= r_view (n_live (g_node (sync_round P pay fetch s) k)).
Proof. exact catch_up_round. Qed.
Print Assumptions C06G_catch_up_round.

(* lost messages are retransmitted: at the end of every round every running honest node whose
   view did not change during the round is in phase Timeout and its timeout vote for its view
   and (beyond view 0) a new-view message with its highest certificate are on the network *)
Theorem C06G_round_retransmits : forall P pay fetch s k, preach P s -> honestb P k = true ->
  let s' := sync_round P pay fetch s in
  n_alive (g_node s' k) = true ->
  r_view (n_live (g_node s' k)) = r_view (n_live (g_node (revive_all P s) k)) ->
  retransmitted P s' k.
Proof. exact round_retransmits. Qed.
Print Assumptions C06G_round_retransmits.

Theorem C06G_retransmitted_unfold : forall P s k,
  retransmitted P s k <->
  (let live := n_live (g_node s k) in
   r_phase live = PTimeout /\
   In {| m_key := k; m_sig_ok := true;
         m_msg := MTimeout {| tview := {| vgen := p_g P; vepoch := p_e P; vnum := r_view live |};
                              thv := r_high_vote live; thq := r_high_cqc live |} |} (g_soup s) /\
   (r_view live <> 0 -> exists j, get_justification live = Ok j /\
      In {| m_key := k; m_sig_ok := true; m_msg := MNewView j |} (g_soup s))).
Proof. exact (fun P s k => iff_refl _). Qed.
Print Assumptions C06G_retransmitted_unfold.

(* a principle used for (a), reusable: single-replica invariants (of the volatile state of a
   node that has not stopped, and of everything durable) hold in all reachable global states *)
Theorem C06G_node_invariants : forall P (I : rstate -> Prop) (D : durable -> Prop),
  (forall k s i s' es r, I s -> rstep_t (pcfg P k) s i = (s', es, r) ->
     persists_D D es /\ (stops r = false -> I s')) ->
  (forall k s s' es r, I s -> rprologue (pcfg P k) s = (s', es, r) ->
     persists_D D es /\ (is_ok r = true -> I s')) ->
  (forall k d f n, D d -> I (rstart (pcfg P k) d f n)) ->
  D durable_default ->
  forall s, preach P s -> forall k, node_ok I D (g_node s k).
Proof. exact preach_node_ok. Qed.
Print Assumptions C06G_node_invariants.

(* ---- the single-replica liveness invariants, in every reachable global state ---- *)
(* everything durable: certificates verify (ReplicaJustified.durable_ok), a non-zero view has a
   certificate (ReplicaLive.dur_ok), views are >= 0, and beyond view 0 a certificate for at least
   view - 1 is held; every node that has not stopped: well-formed vote caches
   (ReplicaCaches.cache_inv), both held certificates verify (ReplicaJustified.certs_ok), and the
   same bounds on its volatile state ("justified") *)
Theorem C06G_live_invariant : forall P s, preach P s -> forall k,
  LD P (n_dur (g_node s k)) /\ (n_alive (g_node s k) = true -> LI P (n_live (g_node s k))).
Proof. exact preach_LI. Qed.
Print Assumptions C06G_live_invariant.

Theorem C06G_live_invariant_unfold : forall P s d,
  (LI P s <->
   (ReplicaCaches.cache_inv (pcfg P 0) s /\ ReplicaJustified.certs_ok (pcfg P 0) s /\ just_ok s /\
    0 <= r_view s /\ (r_view s <> 0 -> ReplicaJustified.justified s))) /\
  (LD P d <->
   (ReplicaJustified.durable_ok (pcfg P 0) d /\ ReplicaLive.dur_ok d /\ 0 <= d_view d /\
    (d_view d <> 0 -> dheld d (d_view d - 1)))).
Proof. exact (fun P s d => conj (iff_refl _) (iff_refl _)). Qed.
Print Assumptions C06G_live_invariant_unfold.

(* the view bound: the justification a running node sends is for at least its own view *)
Theorem C06G_view_bound : forall P s j, ReplicaJustified.certs_ok (pcfg P 0) s ->
  ReplicaJustified.justified s -> get_justification s = Ok j -> r_view s - 1 <= just_vnum j.
Proof. exact justified_highest. Qed.
Print Assumptions C06G_view_bound.

(* a running honest node that has retransmitted (end of a round without view change) has put a
   verifying new-view message for at least its own view on the network *)
Theorem C06G_retransmitted_announces : forall P s k,
  preach P s -> honestb P k = true -> n_alive (g_node s k) = true ->
  retransmitted P s k -> cert_headroom s k ->
  r_view (n_live (g_node s k)) = 0 \/ announced P s (r_view (n_live (g_node s k))).
Proof. exact retransmitted_announces. Qed.
Print Assumptions C06G_retransmitted_announces.

Theorem C06G_announced_catch_up : forall P pay fetch s V k,
  announced P s V -> honestb P k = true -> n_alive (g_node (sync_round P pay fetch s) k) = true ->
  V <= r_view (n_live (g_node (sync_round P pay fetch s) k)).
Proof. exact announced_catch_up. Qed.
Print Assumptions C06G_announced_catch_up.

(* (b), two rounds: every running honest node reaches the view of any honest node that ended the
   previous round running without having changed its view *)
Theorem C06G_catch_up_two_rounds : forall P pay fetch s h k,
  preach P s -> honestb P h = true -> honestb P k = true ->
  let s1 := sync_round P pay fetch s in
  let s2 := sync_round P pay fetch s1 in
  n_alive (g_node s1 h) = true ->
  r_view (n_live (g_node s1 h)) = r_view (n_live (g_node (revive_all P s) h)) ->
  cert_headroom s1 h ->
  n_alive (g_node s2 k) = true ->
  r_view (n_live (g_node s1 h)) <= r_view (n_live (g_node s2 k)).
Proof. exact catch_up_two_rounds. Qed.
Print Assumptions C06G_catch_up_two_rounds.

(* (b), complete: within three rounds every running honest node reaches the view any honest node
   was running in at the start -- provided no honest node stops (Panic / RBlocked / RInternal)
   during the first two rounds (the remaining obligation [C06_no_stop]) and the durable view
   numbers have headroom.  [up s k] = node k is running, [hview] = its view, [dview] = its durable
   view. *)
Theorem C06G_catch_up_three_rounds : forall P, params_ok P -> forall pay fetch s h k,
  preach P s ->
  let s1 := sync_round P pay fetch s in
  let s2 := sync_round P pay fetch s1 in
  let s3 := sync_round P pay fetch s2 in
  (forall k', honestb P k' = true -> up s1 k' /\ up s2 k') ->
  (forall k', honestb P k' = true -> dview s k' + 4 < U64.U64) ->
  honestb P h = true -> honestb P k = true -> up s h -> up s3 k ->
  hview s h <= hview s3 k.
Proof. exact catch_up_three_rounds. Qed.
Print Assumptions C06G_catch_up_three_rounds.

Theorem C06G_up_hview_dview_unfold : forall s k,
  (up s k <-> n_alive (g_node s k) = true) /\ hview s k = r_view (n_live (g_node s k)) /\
  dview s k = d_view (n_dur (g_node s k)).
Proof. exact (fun s k => conj (iff_refl _) (conj eq_refl eq_refl)). Qed.
Print Assumptions C06G_up_hview_dview_unfold.

(* ingredients of the proof, of independent interest *)
(* a verifying commit / timeout certificate without forged honest signatures is never ahead of
   every honest node's durable view (Layer A + B) *)
Theorem C06G_cqc_view_bound : forall P, params_ok P -> forall s q,
  preach P s -> ProtocolRefinesStep.gq (pcfg P 0) (honestb P) (g_soup s) q ->
  exists k, honestb P k = true /\ vnum (cview (qmsg q)) <= dview s k.
Proof. exact cqc_view_bound. Qed.
Print Assumptions C06G_cqc_view_bound.

Theorem C06G_tqc_view_bound : forall P, params_ok P -> forall s t,
  preach P s -> tqc_verify (p_g P) (p_e P) (p_C P) t = Ok tt ->
  ProtocolRefinesStep.kt (honestb P) (g_soup s) t ->
  exists k, honestb P k = true /\ vnum (tqview t) <= dview s k.
Proof. exact tqc_view_bound. Qed.
Print Assumptions C06G_tqc_view_bound.

(* during a round nobody gets more than one view ahead of the durable views at its start *)
Theorem C06G_round_view_bound : forall P, params_ok P -> forall s0 t k B,
  preach P s0 -> RInv P (g_soup s0) t -> (forall k', honestb P k' = true -> dview s0 k' <= B) ->
  honestb P k = true -> up t k ->
  hview t k <= B + 1 /\ 0 <= hview t k /\
  (forall j, get_justification (n_live (g_node t k)) = Ok j -> just_vnum j <= B).
Proof. exact (fun P HP => round_cert_bound P HP (fun _ => 0) (fun _ _ => None)). Qed.
Print Assumptions C06G_round_view_bound.

(* at the end of a round a running honest node has announced its view, or it sits in phase
   Commit in a view it entered during the round through a proposal of the snapshot *)
Theorem C06G_round_end : forall P, params_ok P -> forall pay fetch s k B Bv,
  preach P s -> honestb P k = true ->
  let s0 := revive_all P s in
  let s1 := sync_round P pay fetch s in
  (forall k', honestb P k' = true -> dview s0 k' <= B) -> B + 1 < U64.U64 ->
  prop_bound P (g_soup s0) Bv -> up s1 k ->
  ann_own P s1 k \/
  (r_phase (n_live (g_node s1 k)) = PCommit /\ hview s1 k <= Bv /\ hview s1 k <> hview s0 k).
Proof. exact round_end. Qed.
Print Assumptions C06G_round_end.

(* honest nodes do not stop (Panic / RBlocked / RInternal) during a synchronous suffix with
   arithmetic headroom: for every number of rounds R, at the end of each of the first R rounds
   every honest node is running *)
Theorem C06G_no_stop : forall R P pay fetch, params_ok P -> env_ok P pay -> forall s, preach P s ->
  headroom P s (Z.of_nat R + 2) ->
  forall r k, (1 <= r <= R)%nat -> honestb P k = true -> up (sync_rounds P pay fetch r s) k.
Proof. exact no_stop_holds. Qed.
Print Assumptions C06G_no_stop.

Theorem C06G_headroom_unfold : forall P s B,
  headroom P s B <->
  ((forall k, honestb P k = true -> p_first P + dview s k + B < U64.U64) /\
   (forall m, In m (g_soup s) -> msg_view (m_msg m) + B < U64.U64)).
Proof. exact (fun P s B => iff_refl _). Qed.
Print Assumptions C06G_headroom_unfold.

(* (b), exact form: within three synchronous rounds every running honest node reaches the view
   any honest node was running in at the start *)
Theorem C06G_catch_up : forall P pay fetch, params_ok P -> env_ok P pay -> forall s, preach P s ->
  headroom P s 5 ->
  forall h k, honestb P h = true -> honestb P k = true -> up s h -> up (sync_rounds P pay fetch 3 s) k ->
  hview s h <= hview (sync_rounds P pay fetch 3 s) k.
Proof. exact catch_up_holds. Qed.
Print Assumptions C06G_catch_up.

(* the three ingredients of no_stop *)
(* cached proposals are never ahead of the block store, in every reachable state *)
Theorem C06G_cache_below_store : forall P s, 0 <= p_first P -> preach P s -> forall k,
  CLI (n_live (g_node s k)) /\ DLI (n_dur (g_node s k)) (r_store_next (n_live (g_node s k))).
Proof. exact preach_NC. Qed.
Print Assumptions C06G_cache_below_store.

(* a verifying certificate without forged signatures certifies a block number <= first + view *)
Theorem C06G_cert_number_bound : forall P, params_ok P -> forall s q,
  preach P s -> ProtocolRefinesStep.gq (pcfg P 0) (honestb P) (g_soup s) q ->
  hnum (cprop (qmsg q)) <= p_first P + vnum (cview (qmsg q)).
Proof. exact gq_number_bound. Qed.
Print Assumptions C06G_cert_number_bound.

(* with headroom on the numbers it increments, in a state satisfying the reachable-state
   invariants, no handler invocation stops *)
Theorem C06G_handler_no_stop : forall cfg s i,
  cchk cfg = true -> ReplicaCaches.cache_inv cfg s -> just_ok s -> CLI s -> arith_ok cfg i ->
  stopsA (snd (rstep_t cfg s i)) = false.
Proof. exact rstep_t_nostop. Qed.
Print Assumptions C06G_handler_no_stop.

(* (d) as first stated is false of the model *)
Theorem C06G_aligned_view_commits_4_refuted : ~ C06_aligned_view_commits 4.
Proof. exact aligned_view_commits_refuted. Qed.
Print Assumptions C06G_aligned_view_commits_4_refuted.

(* the first correction ("the leader of the aligned view has been notified") is false as well,
   for three rounds: a proposal sent during a round in which nobody enters the view arrives
   after the view timers of that round fired *)
Theorem C06G_aligned_view_commits'_3_refuted : ~ C06_aligned_view_commits' 3.
Proof. exact aligned_view_commits'_3_refuted. Qed.
Print Assumptions C06G_aligned_view_commits'_3_refuted.

(* (d) as it holds: every honest node waits in view V (phase Prepare, block store at number n),
   and the one proposal for view V signed by its leader that is on the network proposes the
   environment's payload for the new block n with a verifying justification.  Then within two
   synchronous rounds every honest node has stored block n and entered a later view.  (No
   assumption on the leader being honest is needed beyond its single proposal; H-FETCH is not
   needed; nothing is assumed about messages of Byzantine validators on the network.) *)
Theorem C06G_view_commits : forall P pay fetch, params_ok P -> env_ok P pay -> forall s V n,
  preach P s -> headroom P s 4 -> 0 < V -> waiting P s V n -> proposal_on_network P pay s V n ->
  forall k, honestb P k = true ->
    up (sync_rounds P pay fetch 2 s) k /\ V < hview (sync_rounds P pay fetch 2 s) k /\
    height s k < height (sync_rounds P pay fetch 2 s) k.
Proof. exact view_commits_holds. Qed.
Print Assumptions C06G_view_commits.

Theorem C06G_waiting_unfold : forall P s V n,
  waiting P s V n <->
  (forall k, honestb P k = true ->
     up s k /\ hview s k = V /\ r_phase (n_live (g_node s k)) = Prepare /\
     r_store_next (n_live (g_node s k)) = n).
Proof. exact (fun P s V n => iff_refl _). Qed.
Print Assumptions C06G_waiting_unfold.

Theorem C06G_proposal_on_network_unfold : forall P pay s V n,
  proposal_on_network P pay s V n <->
  (exists j mv,
    justification_view (E := unit) true j = Ok mv /\ vnum mv = V /\
    justification_verify (p_g P) (p_e P) (p_C P) j = Ok tt /\
    get_implied_block (E := unit) true (p_C P) (p_first P) j = Ok (n, None) /\
    In {| m_key := cleader (pcfg P 0) V; m_sig_ok := true; m_msg := MProposal (Some (pay n)) j |} (g_soup s) /\
    (forall m p' j' mv', In m (g_soup s) -> m_msg m = MProposal p' j' -> m_key m = cleader (pcfg P 0) V ->
       m_sig_ok m = true -> justification_view (E := unit) true j' = Ok mv' -> vnum mv' = V ->
       justification_verify (p_g P) (p_e P) (p_C P) j' = Ok tt ->
       p' = Some (pay n) /\ j' = j)).
Proof. exact (fun P pay s V n => iff_refl _). Qed.
Print Assumptions C06G_proposal_on_network_unfold.

(* the same for a forced re-proposal: the one proposal for view V signed by its leader carries
   no payload and its (verifying) justification forces the re-proposal of block n with payload
   hash h (a timeout certificate whose reporters of a vote for that block weigh a sub-quorum).
   If some honest node still has that payload cached, and the block-fetch oracle answers at the
   second round's synchronisation point (H-FETCH, only there), then within two synchronous
   rounds every honest node has stored block n and is in view V + 1: the honest nodes vote
   without the payload, the certificate forms, the nodes that have the payload store the block,
   the others fetch it.  The hypothesis on the cached payload is stated openly: that it follows
   from the sub-quorum of reporters in reachable states is not proved here. *)
Theorem C06G_view_recommits : forall P pay fetch, params_ok P -> env_ok P pay -> forall s V n h,
  preach P s -> headroom P s 4 -> 0 < V -> waiting P s V n -> reproposal_on_network P s V n h ->
  (exists k0, honestb P k0 = true /\ cache_has (r_cache (n_live (g_node s k0))) n h = true) ->
  fetch_ok_at P fetch (sync_point P pay (sync_round P pay fetch s)) ->
  forall k, honestb P k = true ->
    up (sync_rounds P pay fetch 2 s) k /\ hview (sync_rounds P pay fetch 2 s) k = V + 1 /\
    height s k < height (sync_rounds P pay fetch 2 s) k.
Proof. exact view_recommits_holds. Qed.
Print Assumptions C06G_view_recommits.

(* payload availability (ProtocolLiveAvail): if an honest node has persisted a high vote for
   block (n, h), then in every later reachable state some honest node has the payload (n, h)
   among its persisted proposals, and in its cache while it runs, unless a good commit
   certificate for a block number >= n is known.  (A vote on a proposal with payload caches the
   payload before the vote is persisted; a vote on a re-proposal is justified by a timeout
   certificate with an honest reporter of an earlier vote for the same block; the cache is
   pruned only below a held commit certificate; restarts rebuild the cache from the persisted
   proposals.) *)
Theorem C06G_payload_available : forall P, params_ok P -> forall n h s, preach P s ->
  forall k d c, honestb P k = true -> In (k, d) (g_plog s) -> d_high_vote d = Some c ->
  hnum (cprop c) = n -> hpay (cprop c) = h ->
  (exists k', honestb P k' = true /\ In (n, h) (d_proposals (n_dur (g_node s k'))) /\
     (n_alive (g_node s k') = true -> cache_has (r_cache (n_live (g_node s k'))) n h = true)) \/
  (exists q, ProtocolRefinesStep.gq (pcfg P 0) (honestb P) (g_soup s) q /\ n <= hnum (cprop (qmsg q))).
Proof. exact payload_available. Qed.
Print Assumptions C06G_payload_available.

(* hence the cached-payload hypothesis of C06G_view_recommits holds by itself when no good commit
   certificate for a block number >= n is known *)
Theorem C06G_reproposal_payload_kept : forall P s V n h, params_ok P -> preach P s ->
  reproposal_on_network P s V n h -> uncertified P s n ->
  exists k0, honestb P k0 = true /\ In (n, h) (d_proposals (n_dur (g_node s k0))) /\
    (n_alive (g_node s k0) = true -> cache_has (r_cache (n_live (g_node s k0))) n h = true).
Proof. exact reproposal_payload_kept. Qed.
Print Assumptions C06G_reproposal_payload_kept.

Theorem C06G_view_recommits_avail : forall P pay fetch, params_ok P -> env_ok P pay -> forall s V n h,
  preach P s -> headroom P s 4 -> 0 < V -> waiting P s V n -> reproposal_on_network P s V n h ->
  uncertified P s n ->
  fetch_ok_at P fetch (sync_point P pay (sync_round P pay fetch s)) ->
  forall k, honestb P k = true ->
    up (sync_rounds P pay fetch 2 s) k /\ hview (sync_rounds P pay fetch 2 s) k = V + 1 /\
    height s k < height (sync_rounds P pay fetch 2 s) k.
Proof. exact view_recommits_avail_holds. Qed.
Print Assumptions C06G_view_recommits_avail.

Theorem C06G_uncertified_unfold : forall P s n,
  uncertified P s n <->
  (forall q, cqc_verify (p_g P) (p_e P) (p_C P) q = Ok tt ->
     (forall k c, In (k, RCommit c) (qagg q) -> honestb P k = true ->
        In {| m_key := k; m_sig_ok := true; m_msg := MCommit c |} (g_soup s)) ->
     hnum (cprop (qmsg q)) < n).
Proof.
  intros P s n. split.
  - intros H q Hv Hk. exact (H q (conj Hv Hk)).
  - intros H q [Hv Hk]. exact (H q Hv Hk).
Qed.
Print Assumptions C06G_uncertified_unfold.

(* a sufficient, computable condition: the validators that are Byzantine or have a commit vote
   for a block number >= n on the network weigh less than a quorum *)
Theorem C06G_light_uncertified : forall P, params_ok P -> forall s n,
  weight (cweights (p_C P))
    (map (fun i => ProtocolRefinesAbs.abyz P i ||
                   existsb (fun m => (m_key m =? ProtocolRefinesAbs.key_of P i) && m_sig_ok m &&
                                     match m_msg m with MCommit c => n <=? hnum (cprop c) | _ => false end) (g_soup s))
         (seq 0 (length (p_C P)))) < quorum (p_C P) -> uncertified P s n.
Proof. exact light_uncertified. Qed.
Print Assumptions C06G_light_uncertified.

Theorem C06G_reproposal_on_network_unfold : forall P s V n h,
  reproposal_on_network P s V n h <->
  (exists j mv,
    justification_view (E := unit) true j = Ok mv /\ vnum mv = V /\
    justification_verify (p_g P) (p_e P) (p_C P) j = Ok tt /\
    get_implied_block (E := unit) true (p_C P) (p_first P) j = Ok (n, Some h) /\
    In {| m_key := cleader (pcfg P 0) V; m_sig_ok := true; m_msg := MProposal None j |} (g_soup s) /\
    (forall m p' j' mv', In m (g_soup s) -> m_msg m = MProposal p' j' -> m_key m = cleader (pcfg P 0) V ->
       m_sig_ok m = true -> justification_view (E := unit) true j' = Ok mv' -> vnum mv' = V ->
       justification_verify (p_g P) (p_e P) (p_C P) j' = Ok tt ->
       p' = None /\ j' = j)).
Proof. exact (fun P s V n h => iff_refl _). Qed.
Print Assumptions C06G_reproposal_on_network_unfold.

(* consecutive views with honest leaders, from such a view: the honest nodes stay in lockstep
   and store one block every two rounds (r blocks in 2r rounds).  After a committed view the
   next leader's proposal is on the network by itself (the leader is notified when it forms the
   commit certificate and proposes in the same round), so only the first view needs the
   hypothesis. *)
Theorem C06G_progress_honest_leaders : forall P pay fetch (r : nat), params_ok P -> env_ok P pay ->
  forall s V n, preach P s -> headroom P s (Z.of_nat r + 2) -> 0 < V -> waiting P s V n ->
  proposal_on_network P pay s V n ->
  (forall i, (1 <= i < r)%nat -> honestb P (cleader (pcfg P 0) (V + Z.of_nat i)) = true) ->
  forall k, honestb P k = true ->
    up (sync_rounds P pay fetch (2 * r) s) k /\
    hview (sync_rounds P pay fetch (2 * r) s) k = V + Z.of_nat r /\
    height s k + Z.of_nat r <= height (sync_rounds P pay fetch (2 * r) s) k.
Proof. exact progress_honest_leaders_holds. Qed.
Print Assumptions C06G_progress_honest_leaders.

(* the timeout twin of (d): a waiting view without a verifying proposal on the network is
   abandoned by every honest node in the same round, two rounds later (view exactly V+1, phase
   Prepare, nothing lost).  If the leader of V+1 is honest, its proposal for the justification
   its proposer was notified of (its own timeout certificate for V) is then on the network --
   with the payload [proposal_payload] computes from get_implied_block of that certificate,
   i.e. the environment's payload for a new block or none for a forced re-proposal -- and it is
   the only verifying proposal for V+1; if that leader is Byzantine there is no verifying
   proposal for V+1 on the network. *)
Theorem C06G_view_times_out : forall P pay fetch, params_ok P -> env_ok P pay -> forall s V n,
  preach P s -> headroom P s 4 -> 0 < V -> waiting P s V n -> no_proposal P s V ->
  forall k0, honestb P k0 = true ->
  let s2 := sync_rounds P pay fetch 2 s in
  let L' := cleader (pcfg P 0) (V + 1) in
  (forall k, honestb P k = true ->
     up s2 k /\ hview s2 k = V + 1 /\ r_phase (n_live (g_node s2 k)) = Prepare /\ height s k <= height s2 k) /\
  (honestb P L' = true ->
     exists tq p, vnum (tqview tq) = V /\
       justification_verify (p_g P) (p_e P) (p_C P) (JTimeout tq) = Ok tt /\
       ProtocolRefinesStep.kt (honestb P) (g_soup s2) tq /\
       proposal_payload P pay (JTimeout tq) = Some p /\
       In {| m_key := L'; m_sig_ok := true; m_msg := MProposal p (JTimeout tq) |} (g_soup s2) /\
       (forall m p' j' mv', In m (g_soup s2) -> m_msg m = MProposal p' j' -> m_key m = L' -> m_sig_ok m = true ->
          justification_view (E := unit) true j' = Ok mv' -> vnum mv' = V + 1 ->
          justification_verify (p_g P) (p_e P) (p_C P) j' = Ok tt -> p' = p /\ j' = JTimeout tq)) /\
  (honestb P L' = false -> no_proposal P s2 (V + 1)).
Proof. exact view_times_out_holds. Qed.
Print Assumptions C06G_view_times_out.

Theorem C06G_no_proposal_unfold : forall P s V,
  no_proposal P s V <->
  (forall m p' j' mv', In m (g_soup s) -> m_msg m = MProposal p' j' ->
     justification_view (E := unit) true j' = Ok mv' -> vnum mv' = V ->
     justification_verify (p_g P) (p_e P) (p_C P) j' = Ok tt -> False).
Proof. exact (fun P s V => iff_refl _). Qed.
Print Assumptions C06G_no_proposal_unfold.

(* the timeout twin when some honest nodes have already timed out in view V (phases Prepare and
   Timeout mixed): every honest node is in view V and has not voted in it, no verifying proposal
   for V is on the network, and the validators that are Byzantine or have a timeout vote for
   view V or later on the network weigh less than a quorum (no timeout certificate for V can
   exist yet: C06G_light_no_tqc).  Then every honest node enters view V+1 in the second round,
   in the same round, with the same conclusions as C06G_view_times_out.  (That no honest commit
   vote for view V is on the network, and that the honest timeout votes verify, is derived from
   C06G_vote_provenance and C06G_honest_sends_verify below.) *)
Theorem C06G_view_times_out_mixed : forall P pay fetch, params_ok P -> env_ok P pay -> forall s V n,
  preach P s -> headroom P s 4 -> 0 < V -> unvoted P s V n -> no_proposal P s V -> timed_out_light P s V ->
  forall k0, honestb P k0 = true ->
  let s2 := sync_rounds P pay fetch 2 s in
  let L' := cleader (pcfg P 0) (V + 1) in
  (forall k, honestb P k = true ->
     up s2 k /\ hview s2 k = V + 1 /\ r_phase (n_live (g_node s2 k)) = Prepare /\ height s k <= height s2 k) /\
  (honestb P L' = true ->
     exists tq p, vnum (tqview tq) = V /\
       justification_verify (p_g P) (p_e P) (p_C P) (JTimeout tq) = Ok tt /\
       ProtocolRefinesStep.kt (honestb P) (g_soup s2) tq /\
       proposal_payload P pay (JTimeout tq) = Some p /\
       In {| m_key := L'; m_sig_ok := true; m_msg := MProposal p (JTimeout tq) |} (g_soup s2) /\
       (forall m p' j' mv', In m (g_soup s2) -> m_msg m = MProposal p' j' -> m_key m = L' -> m_sig_ok m = true ->
          justification_view (E := unit) true j' = Ok mv' -> vnum mv' = V + 1 ->
          justification_verify (p_g P) (p_e P) (p_C P) j' = Ok tt -> p' = p /\ j' = JTimeout tq)) /\
  (honestb P L' = false -> no_proposal P s2 (V + 1)).
Proof. exact view_times_out_mixed_holds. Qed.
Print Assumptions C06G_view_times_out_mixed.

(* an honest node's commit vote on the network is for the view of a verifying proposal that is
   on the network (honest nodes vote only in on_proposal, for the delivered proposal) *)
Theorem C06G_vote_provenance : forall P s, preach P s ->
  forall m c, In m (g_soup s) -> m_sig_ok m = true -> honestb P (m_key m) = true -> m_msg m = MCommit c ->
  exists m' p j, In m' (g_soup s) /\ m_msg m' = MProposal p j /\
    justification_view (E := unit) true j = Ok (cview c) /\
    justification_verify (p_g P) (p_e P) (p_C P) j = Ok tt.
Proof. exact preach_VP. Qed.
Print Assumptions C06G_vote_provenance.

(* every message an honest node has put on the network verifies *)
Theorem C06G_honest_sends_verify : forall P s, preach P s ->
  forall m, In m (g_soup s) -> m_sig_ok m = true -> honestb P (m_key m) = true ->
  match m_msg m with
  | MCommit c => commit_verify (p_g P) (p_e P) c = Ok tt
  | MTimeout t => timeout_verify (p_g P) (p_e P) (p_C P) t = Ok tt
  | MNewView j | MProposal _ j => justification_verify (p_g P) (p_e P) (p_C P) j = Ok tt
  end.
Proof. exact preach_SOK. Qed.
Print Assumptions C06G_honest_sends_verify.

Theorem C06G_unvoted_unfold : forall P s V n,
  unvoted P s V n <->
  (forall k, honestb P k = true ->
     up s k /\ hview s k = V /\ r_phase (n_live (g_node s k)) <> PCommit /\
     r_store_next (n_live (g_node s k)) = n).
Proof. exact (fun P s V n => iff_refl _). Qed.
Print Assumptions C06G_unvoted_unfold.

Theorem C06G_timed_out_light_unfold : forall P s V,
  timed_out_light P s V <->
  weight (cweights (p_C P))
    (map (fun i => ProtocolRefinesAbs.abyz P i ||
                   existsb (fun m => (m_key m =? ProtocolRefinesAbs.key_of P i) && m_sig_ok m &&
                                     match m_msg m with MTimeout t => V <=? vnum (tview t) | _ => false end) (g_soup s))
         (seq 0 (length (p_C P)))) < quorum (p_C P).
Proof. exact (fun P s V => iff_refl _). Qed.
Print Assumptions C06G_timed_out_light_unfold.

(* what the weight hypothesis means: no verifying timeout certificate for view V or later whose
   honest signatures are on the network *)
Theorem C06G_light_no_tqc : forall P, params_ok P -> forall s V, timed_out_light P s V ->
  forall t, tqc_verify (p_g P) (p_e P) (p_C P) t = Ok tt -> ProtocolRefinesStep.kt (honestb P) (g_soup s) t ->
  vnum (tqview t) < V.
Proof. exact (fun P HP s V => light_no_tqc P HP (g_soup s) V). Qed.
Print Assumptions C06G_light_no_tqc.

(* a validator recorded by a running honest node with a timeout vote for the node's view or a
   later one is a signer of the timeout certificate the node is assembling for that view *)
Theorem C06G_timeout_views_have_bits : forall P s, preach P s -> forall k, n_alive (g_node s k) = true ->
  forall h v, zmap_get (r_timeout_views (n_live (g_node s k))) h = Some v -> r_view (n_live (g_node s k)) <= v ->
  exists i0 t0 en, cindex (p_C P) h = Some i0 /\
    zmap_get (r_timeout_qcs (n_live (g_node s k))) v = Some t0 /\ In en (tqmap t0) /\ nth_error (snd en) i0 = Some true.
Proof.
  intros P s Hr k Hal h v Hg Hv. destruct (preach_TB P s Hr k Hal h v Hg Hv) as (i0 & t0 & en & A & _ & B & C & D).
  exists i0, t0, en. auto.
Qed.
Print Assumptions C06G_timeout_views_have_bits.

(* the latest timeout view a running honest node has recorded for an honest validator is the
   view of a timeout vote that validator put on the network *)
Theorem C06G_timeout_views_provenance : forall P s, preach P s -> forall k, n_alive (g_node s k) = true ->
  forall h v, honestb P h = true -> zmap_get (r_timeout_views (n_live (g_node s k))) h = Some v ->
  exists t, vnum (tview t) = v /\ In {| m_key := h; m_sig_ok := true; m_msg := MTimeout t |} (g_soup s).
Proof. exact preach_TV. Qed.
Print Assumptions C06G_timeout_views_provenance.

(* (e) from a lockstep state: every honest node waits in view V with the blocks below n
   stored; nothing above block n-1 is voted or certified; the network holds the single proposal
   of an honest leader of V for the new block n, or no verifying proposal for V if that leader is
   Byzantine.  If one of the leaders of V .. V+nbyz is honest, every honest node stores block n
   within 2*(nbyz+1) rounds (each Byzantine leader costs exactly two rounds, the first honest
   leader's view commits in two).  With (c) -- reaching a lockstep state from an arbitrary
   reachable state, NOT proved -- this would give C06_progress_partial. *)
Theorem C06G_progress_from_lockstep : forall P pay fetch (nbyz : nat), params_ok P -> env_ok P pay ->
  forall s V n, preach P s -> headroom P s (Z.of_nat nbyz + 2) -> 0 < V -> lockstep P pay s V n ->
  byz_run P V nbyz ->
  exists r, (1 <= r <= nbyz + 1)%nat /\
    forall k, honestb P k = true ->
      up (sync_rounds P pay fetch (2 * r) s) k /\ n < height (sync_rounds P pay fetch (2 * r) s) k.
Proof. exact progress_from_lockstep_holds. Qed.
Print Assumptions C06G_progress_from_lockstep.

Theorem C06G_lockstep_unfold : forall P pay s V n,
  lockstep P pay s V n <->
  (p_first P <= n /\
   (forall k, honestb P k = true ->
      up s k /\ hview s k = V /\ r_phase (n_live (g_node s k)) = Prepare /\ n <= r_store_next (n_live (g_node s k))) /\
   ((forall q, ProtocolRefinesStep.gq (pcfg P 0) (honestb P) (g_soup s) q -> hnum (cprop (qmsg q)) < n) /\
    (forall k, honestb P k = true ->
       (forall c, r_high_vote (n_live (g_node s k)) = Some c -> hnum (cprop c) < n) /\
       ((n = p_first P /\ r_high_cqc (n_live (g_node s k)) = None) \/
        exists q, r_high_cqc (n_live (g_node s k)) = Some q /\ hnum (cprop (qmsg q)) = n - 1))) /\
   (honestb P (cleader (pcfg P 0) V) = true -> proposal_on_network P pay s V n) /\
   (honestb P (cleader (pcfg P 0) V) = false -> no_proposal P s V)).
Proof. exact (fun P pay s V n => iff_refl _). Qed.
Print Assumptions C06G_lockstep_unfold.

(* a view with a Byzantine leader keeps the lockstep *)
Theorem C06G_lockstep_timeout : forall P, params_ok P -> forall pay fetch, env_ok P pay -> forall Bs s V n,
  Bs + 1 < U64.U64 -> preach P s -> 0 < V -> p_first P + V + 2 < U64.U64 -> V + 1 <= Bs ->
  (forall m, In m (g_soup s) -> msg_view (m_msg m) <= Bs) ->
  lockstep P pay s V n -> honestb P (cleader (pcfg P 0) V) = false ->
  let s2 := sync_rounds P pay fetch 2 s in
  preach P s2 /\ (forall m, In m (g_soup s2) -> msg_view (m_msg m) <= Bs) /\ lockstep P pay s2 (V + 1) n.
Proof. exact lockstep_timeout. Qed.
Print Assumptions C06G_lockstep_timeout.

(* the block implied by a timeout certificate when nothing above block n-1 is voted or
   certified: the new block n (no forced re-proposal), whatever the Byzantine entries report *)
Theorem C06G_implied_tidy : forall P, params_ok P -> forall n s tq,
  preach P s -> tqc_verify (p_g P) (p_e P) (p_C P) tq = Ok tt ->
  ProtocolRefinesStep.kt (honestb P) (g_soup s) tq ->
  (forall q, ProtocolRefinesStep.gq (pcfg P 0) (honestb P) (g_soup s) q -> hnum (cprop (qmsg q)) < n) ->
  (forall h m, honestb P h = true -> In {| m_key := h; m_sig_ok := true; m_msg := MTimeout m |} (g_soup s) ->
     tview m = tqview tq -> tidy_report P n m) ->
  p_first P <= n ->
  forall n' oh, get_implied_block (E := unit) true (p_C P) (p_first P) (JTimeout tq) = Ok (n', oh) ->
  n' = n /\ oh = None.
Proof. exact implied_tidy. Qed.
Print Assumptions C06G_implied_tidy.

(* THE REDUCTION: if every reachable state reaches a lockstep state within R0 synchronous rounds
   (C06_reaches_lockstep R0, a Definition below: NOT proved -- this is (c) in the form that
   matters), then every honest height grows within R0 + 2(nbyz+1) rounds; for R0 = 4 this is
   C06_progress_partial exactly as stated. *)
Theorem C06G_progress_of_reaches_lockstep : forall R0, ProtocolLiveGoals.C06_reaches_lockstep R0 ->
  forall P pay fetch (nbyz : nat), params_ok P -> env_ok P pay -> forall s, preach P s ->
  headroom P s (2 * Z.of_nat nbyz + Z.of_nat R0 + 4) ->
  fetch_ok_run P pay fetch s (2 * nbyz + R0 + 2) ->
  (forall V, byz_run P V nbyz) ->
  forall k, honestb P k = true ->
    height s k < height (sync_rounds P pay fetch (R0 + 2 * (nbyz + 1)) s) k.
Proof. exact progress_of_reaches_lockstep. Qed.
Print Assumptions C06G_progress_of_reaches_lockstep.

Theorem C06G_progress_partial_of_reaches_lockstep :
  ProtocolLiveGoals.C06_reaches_lockstep 4 -> ProtocolLiveGoals.C06_progress_partial.
Proof. exact progress_partial_of_reaches_lockstep. Qed.
Print Assumptions C06G_progress_partial_of_reaches_lockstep.

Theorem C06G_reaches_lockstep_unfold : forall R0,
  ProtocolLiveGoals.C06_reaches_lockstep R0 <->
  (forall P pay fetch (nbyz : nat), params_ok P -> env_ok P pay -> forall s, preach P s ->
   headroom P s (2 * Z.of_nat nbyz + Z.of_nat R0 + 4) ->
   fetch_ok_run P pay fetch s (2 * nbyz + R0 + 2) ->
   (forall V, byz_run P V nbyz) ->
   exists V n, 0 < V /\ lockstep P pay (sync_rounds P pay fetch R0 s) V n /\
               headroom P (sync_rounds P pay fetch R0 s) (Z.of_nat nbyz + 2)).
Proof. exact (fun R0 => iff_refl _). Qed.
Print Assumptions C06G_reaches_lockstep_unfold.

(* ---- the weaker lockstep: block n may have been voted in an earlier view ---- *)
(* every honest node waits in view V with its block store at n; no good commit certificate for a
   number >= n is known; honest high votes are for blocks up to n (so block n may have been voted
   in a view that did not complete), honest high commit certificates are for block n-1; the network
   holds the single proposal of an honest leader of V -- the new block n, or the forced
   re-proposal of a voted block n -- or no verifying proposal for V if the leader is Byzantine *)
Theorem C06G_wlockstep_unfold : forall P pay s V n,
  wlockstep P pay s V n <->
  (p_first P <= n /\
   (forall k, honestb P k = true ->
      up s k /\ hview s k = V /\ r_phase (n_live (g_node s k)) = Prepare /\ n <= r_store_next (n_live (g_node s k))) /\
   ((forall q, ProtocolRefinesStep.gq (pcfg P 0) (honestb P) (g_soup s) q -> hnum (cprop (qmsg q)) < n) /\
    (forall k, honestb P k = true ->
       (forall c, r_high_vote (n_live (g_node s k)) = Some c -> hnum (cprop c) < n + 1) /\
       ((n = p_first P /\ r_high_cqc (n_live (g_node s k)) = None) \/
        exists q, r_high_cqc (n_live (g_node s k)) = Some q /\ hnum (cprop (qmsg q)) = n - 1))) /\
   (honestb P (cleader (pcfg P 0) V) = true ->
      proposal_on_network P pay s V n \/ exists h, reproposal_on_network P s V n h) /\
   (honestb P (cleader (pcfg P 0) V) = false -> no_proposal P s V)).
Proof. exact (fun P pay s V n => iff_refl _). Qed.
Print Assumptions C06G_wlockstep_unfold.

Theorem C06G_lockstep_weak : forall P pay s V n, lockstep P pay s V n -> wlockstep P pay s V n.
Proof. exact (fun P pay s V n => lockstep_weak P pay (fun _ _ => None) s V n). Qed.
Print Assumptions C06G_lockstep_weak.

(* the block implied by a timeout certificate when nothing above block n is voted and nothing at
   or above n is certified: number n (the new block, or the forced re-proposal of a voted one) *)
Theorem C06G_implied_tidy_le : forall P, params_ok P -> forall n s tq,
  preach P s -> tqc_verify (p_g P) (p_e P) (p_C P) tq = Ok tt ->
  ProtocolRefinesStep.kt (honestb P) (g_soup s) tq ->
  (forall q, ProtocolRefinesStep.gq (pcfg P 0) (honestb P) (g_soup s) q -> hnum (cprop (qmsg q)) < n) ->
  (forall h m, honestb P h = true -> In {| m_key := h; m_sig_ok := true; m_msg := MTimeout m |} (g_soup s) ->
     tview m = tqview tq -> tidy_report_b P n (n + 1) m) ->
  p_first P <= n ->
  forall n' oh, get_implied_block (E := unit) true (p_C P) (p_first P) (JTimeout tq) = Ok (n', oh) ->
  n' = n.
Proof. exact implied_tidy_le. Qed.
Print Assumptions C06G_implied_tidy_le.

(* a view with a Byzantine leader keeps the weak lockstep *)
Theorem C06G_wlockstep_timeout : forall P, params_ok P -> forall pay fetch, env_ok P pay -> forall Bs s V n,
  Bs + 1 < U64.U64 -> preach P s -> 0 < V -> p_first P + V + 2 < U64.U64 -> V + 1 <= Bs ->
  (forall m, In m (g_soup s) -> msg_view (m_msg m) <= Bs) ->
  wlockstep P pay s V n -> honestb P (cleader (pcfg P 0) V) = false ->
  let s2 := sync_rounds P pay fetch 2 s in
  preach P s2 /\ (forall m, In m (g_soup s2) -> msg_view (m_msg m) <= Bs) /\ wlockstep P pay s2 (V + 1) n.
Proof. exact wlockstep_timeout. Qed.
Print Assumptions C06G_wlockstep_timeout.

(* progress from a weak lockstep state: Byzantine-leader views time out (two rounds each, weak
   lockstep kept); the first honest leader's proposal -- a new block or the forced re-proposal,
   whose payload some honest node still has (C06G_payload_available) and the others fetch
   (H-FETCH over the rounds) -- gets block n stored by every honest node *)
Theorem C06G_progress_from_wlockstep : forall P pay fetch (nbyz : nat), params_ok P -> env_ok P pay ->
  forall s V n, preach P s -> headroom P s (Z.of_nat nbyz + 2) -> 0 < V -> wlockstep P pay s V n ->
  byz_run P V nbyz -> fetch_ok_run P pay fetch s (2 * (nbyz + 1)) ->
  exists r, (1 <= r <= nbyz + 1)%nat /\
    forall k, honestb P k = true ->
      up (sync_rounds P pay fetch (2 * r) s) k /\ n < height (sync_rounds P pay fetch (2 * r) s) k.
Proof. exact progress_from_wlockstep_holds. Qed.
Print Assumptions C06G_progress_from_wlockstep.

(* progress from a mixed-phase state (some honest nodes have already timed out in view V): two
   rounds later the network is in a weak lockstep state for view V+1 (C06G_view_times_out_mixed,
   with the vote and certificate bounds carried along), and block n is stored by every honest
   node within 2 + 2*(nbyz+1) rounds *)
Theorem C06G_progress_from_mixed : forall P pay fetch (nbyz : nat), params_ok P -> env_ok P pay ->
  forall s V n, preach P s -> headroom P s (Z.of_nat nbyz + 4) -> 0 < V -> p_first P <= n ->
  unvoted P s V n -> no_proposal P s V -> timed_out_light P s V -> uncertified P s n ->
  (forall k, honestb P k = true -> tidy_node_b P n (n + 1) (n_live (g_node s k))) ->
  (forall h t, honestb P h = true -> In {| m_key := h; m_sig_ok := true; m_msg := MTimeout t |} (g_soup s) ->
     vnum (tview t) = V -> tidy_report_b P n (n + 1) t) ->
  byz_run P (V + 1) nbyz -> fetch_ok_run P pay fetch s (2 + 2 * (nbyz + 1)) ->
  wlockstep P pay (sync_rounds P pay fetch 2 s) (V + 1) n /\
  exists r, (1 <= r <= nbyz + 1)%nat /\
    forall k, honestb P k = true ->
      up (sync_rounds P pay fetch (2 + 2 * r) s) k /\ n < height (sync_rounds P pay fetch (2 + 2 * r) s) k.
Proof. exact progress_from_mixed_holds. Qed.
Print Assumptions C06G_progress_from_mixed.

Theorem C06G_tidy_b_unfold : forall P n vb st m,
  (tidy_node_b P n vb st <->
   (forall c, r_high_vote st = Some c -> hnum (cprop c) < vb) /\
   ((n = p_first P /\ r_high_cqc st = None) \/ exists q, r_high_cqc st = Some q /\ hnum (cprop (qmsg q)) = n - 1)) /\
  (tidy_report_b P n vb m <->
   (forall c, thv m = Some c -> hnum (cprop c) < vb) /\
   ((n = p_first P /\ thq m = None) \/ exists q, thq m = Some q /\ hnum (cprop (qmsg q)) = n - 1)).
Proof. exact (fun P n vb st m => conj (iff_refl _) (iff_refl _)). Qed.
Print Assumptions C06G_tidy_b_unfold.

(* reaching a weak lockstep state is enough for C06_progress_partial, and is implied by reaching
   a lockstep state *)
Theorem C06G_reaches_wlockstep_unfold : forall R0,
  ProtocolLiveGoals.C06_reaches_wlockstep R0 <->
  (forall P pay fetch (nbyz : nat), params_ok P -> env_ok P pay -> forall s, preach P s ->
   headroom P s (2 * Z.of_nat nbyz + Z.of_nat R0 + 4) ->
   fetch_ok_run P pay fetch s (2 * nbyz + R0 + 2) ->
   (forall V, byz_run P V nbyz) ->
   exists V n, 0 < V /\ wlockstep P pay (sync_rounds P pay fetch R0 s) V n /\
               headroom P (sync_rounds P pay fetch R0 s) (Z.of_nat nbyz + 2)).
Proof. exact (fun R0 => iff_refl _). Qed.
Print Assumptions C06G_reaches_wlockstep_unfold.

Theorem C06G_reaches_lockstep_weak : forall R0,
  ProtocolLiveGoals.C06_reaches_lockstep R0 -> ProtocolLiveGoals.C06_reaches_wlockstep R0.
Proof. exact reaches_lockstep_weak. Qed.
Print Assumptions C06G_reaches_lockstep_weak.

Theorem C06G_progress_partial_of_reaches_wlockstep :
  ProtocolLiveGoals.C06_reaches_wlockstep 4 -> ProtocolLiveGoals.C06_progress_partial.
Proof. exact progress_partial_of_reaches_wlockstep. Qed.
Print Assumptions C06G_progress_partial_of_reaches_wlockstep.

(* block stores never shrink along synchronous rounds; in a lockstep state they are exactly at n *)
Theorem C06G_height_mono_rounds : forall P, params_ok P -> forall pay fetch R s k,
  preach P s -> honestb P k = true -> height s k <= height (sync_rounds P pay fetch R s) k.
Proof. exact height_mono_rounds. Qed.
Print Assumptions C06G_height_mono_rounds.

Theorem C06G_lockstep_height : forall P, params_ok P -> forall pay (fetch : gstate -> Z -> option cqc) s V n,
  preach P s -> lockstep P pay s V n -> forall k, honestb P k = true -> height s k = n.
Proof. exact lockstep_height. Qed.
Print Assumptions C06G_lockstep_height.

(* ingredients of (d) *)
(* through Layers A and B: a verifying commit certificate without forged signatures is for a
   view below V when every honest node's durable position is below (V, Commit); likewise for
   timeout certificates and (V, Timeout) *)
Theorem C06G_no_commit_cert_yet : forall P, params_ok P -> forall s q V,
  preach P s ->
  (forall k, honestb P k = true -> dview s k < V \/ (dview s k = V /\ dphase s k = Prepare)) ->
  ProtocolRefinesStep.gq (pcfg P 0) (honestb P) (g_soup s) q -> vnum (cview (qmsg q)) < V.
Proof. exact no_cqc_at. Qed.
Print Assumptions C06G_no_commit_cert_yet.

Theorem C06G_no_timeout_cert_yet : forall P, params_ok P -> forall s t V,
  preach P s ->
  (forall k, honestb P k = true -> dview s k < V \/ (dview s k = V /\ dphase s k <> PTimeout)) ->
  tqc_verify (p_g P) (p_e P) (p_C P) t = Ok tt -> ProtocolRefinesStep.kt (honestb P) (g_soup s) t ->
  vnum (tqview t) < V.
Proof. exact no_tqc_at. Qed.
Print Assumptions C06G_no_timeout_cert_yet.

(* the latest commit view a running honest node has recorded for an honest validator is the
   view of a vote that validator put on the network *)
Theorem C06G_commit_views_provenance : forall P s, preach P s -> forall k, n_alive (g_node s k) = true ->
  forall h v, honestb P h = true -> zmap_get (r_commit_views (n_live (g_node s k))) h = Some v ->
  exists c, vnum (cview c) = v /\ In {| m_key := h; m_sig_ok := true; m_msg := MCommit c |} (g_soup s).
Proof. exact preach_CV. Qed.
Print Assumptions C06G_commit_views_provenance.

(* the honest validators together weigh a quorum *)
Theorem C06G_honest_bits_quorum : forall P, params_ok P -> forall bits,
  length bits = length (p_C P) ->
  (forall h i, honestb P h = true -> cindex (p_C P) h = Some i -> nth_error bits i = Some true) ->
  quorum (p_C P) <= weight (cweights (p_C P)) bits.
Proof. exact honest_bits_quorum. Qed.
Print Assumptions C06G_honest_bits_quorum.

(* ---- the block-fetch oracle and the environment assumption H-FETCH ---- *)
(* every statement above holds for EVERY oracle [fetch] (what it returns is checked before it is
   used); the assumption below is needed only for the progress statements *)
Theorem C06G_fetch_ok_unfold : forall P fetch s,
  fetch_ok_at P fetch s <->
  (forall k n h, honestb P k = true -> In (k, n, h) (g_qlog s) ->
   exists q, fetch s n = Some q /\
             cqc_verify (p_g P) (p_e P) (p_C P) q = Ok tt /\ cqc_knownb P (g_soup s) q = true /\
             hnum (cprop (qmsg q)) = n /\ hpay (cprop (qmsg q)) = h).
Proof. exact (fun P fetch s => iff_refl _). Qed.
Print Assumptions C06G_fetch_ok_unfold.

(* the general assumption (at every reachable state) implies the one used in the statements
   (at the states in which the rounds of the run consult the oracle) *)
Theorem C06G_fetch_ok_run : forall P pay fetch s R,
  preach P s -> fetch_ok P fetch -> fetch_ok_run P pay fetch s R.
Proof. exact fetch_ok_run_of. Qed.
Print Assumptions C06G_fetch_ok_run.

Theorem C06G_fetch_ok_run_unfold : forall P pay fetch s R,
  fetch_ok_run P pay fetch s R <->
  (forall r, (r < R)%nat ->
     fetch_ok_at P fetch (propose_all P pay (deliver_all P (revive_all P (sync_rounds P pay fetch r s))))).
Proof. exact (fun P pay fetch s R => iff_refl _). Qed.
Print Assumptions C06G_fetch_ok_run_unfold.

(* ---- non-vacuity ---- *)
Example C06G_example_catch_up_hyps :
  let s := ginit ex_P in
  let s1 := sync_round ex_P ex_pay (find_cert ex_P) s in
  let s2 := sync_round ex_P ex_pay (find_cert ex_P) s1 in
  (forall k, honestb ex_P k = true -> up s1 k /\ up s2 k) /\
  (forall k, honestb ex_P k = true -> dview s k + 4 < U64.U64) /\
  (forall k, honestb ex_P k = true -> up s k).
Proof. exact ex_catch_up_hyps. Qed.
Print Assumptions C06G_example_catch_up_hyps.

Example C06G_example_headroom :
  headroom ex_P (ginit ex_P) 5 /\ env_ok ex_P ex_pay /\
  (forall k, honestb ex_P k = true -> up (ginit ex_P) k).
Proof. exact ex_headroom. Qed.
Print Assumptions C06G_example_headroom.

Example C06G_example_rounds :
  env_ok ex_P ex_pay /\ preach ex_P (sync_rounds ex_P ex_pay (find_cert ex_P) 5 (ginit ex_P)) /\
  map (fun r => ex_heights [1; 2; 3; 4] (sync_rounds ex_P ex_pay (find_cert ex_P) r (ginit ex_P))) [1; 2; 3; 4; 5]%nat =
  [[0; 0; 0; 0]; [0; 0; 0; 0]; [1; 1; 1; 1]; [1; 1; 1; 1]; [2; 2; 2; 2]] /\
  g_qlog (sync_rounds ex_P ex_pay (find_cert ex_P) 5 (ginit ex_P)) =
  [(1, 0, 100); (2, 0, 100); (3, 0, 100); (4, 0, 100); (1, 1, 101); (2, 1, 101); (3, 1, 101); (4, 1, 101)].
Proof. exact (conj ex_env_ok (conj ex_rounds_reachable ex_rounds_obs)). Qed.
Print Assumptions C06G_example_rounds.

(* after an adversarial prefix (a vote persisted but never sent, a lost write, a partitioned
   validator) two rounds make every validator queue the voted block *)
Example C06G_example_recovery :
  exists s, preach ex_P s /\
    g_qlog (sync_rounds ex_P ex_pay (find_cert ex_P) 2 s) = [(1, 0, 42); (2, 0, 42); (3, 0, 42); (4, 0, 42)] /\
    preach ex_P (sync_rounds ex_P ex_pay (find_cert ex_P) 2 s).
Proof. exact ex_recovery_reachable. Qed.
Print Assumptions C06G_example_recovery.

(* H-FETCH holds on the example runs for the oracle that scans the network and the honest
   nodes' highest certificates *)
Example C06G_example_fetch : fetch_ok_run ex_P ex_pay (find_cert ex_P) (ginit ex_P) 6.
Proof. exact ex_fetch_run. Qed.
Print Assumptions C06G_example_fetch.

Example C06G_example_fetch_recovery :
  exists s, preach ex_P s /\ fetch_ok_run ex_P ex_pay (find_cert ex_P) s 4 /\
    g_qlog (sync_rounds ex_P ex_pay (find_cert ex_P) 2 s) = [(1, 0, 42); (2, 0, 42); (3, 0, 42); (4, 0, 42)].
Proof. exact ex_fetch_recovery. Qed.
Print Assumptions C06G_example_fetch_recovery.

(* the hypotheses of C06G_view_commits hold after the first round from the initial state:
   everybody waits in view 1 and the proposal of its leader for block 0 is on the network *)
Example C06G_example_view_commits :
  preach ex_P ex_s1 /\ headroom ex_P ex_s1 4 /\ waiting ex_P ex_s1 1 0 /\
  proposal_on_network ex_P ex_pay ex_s1 1 0.
Proof. exact ex_view_commits_hyps. Qed.
Print Assumptions C06G_example_view_commits.
Example C06G_example_view_commits_state :
  ex_s1 = sync_rounds ex_P ex_pay (find_cert ex_P) 1 (ginit ex_P).
Proof. exact ex_s1_unfold. Qed.
Print Assumptions C06G_example_view_commits_state.

(* the hypotheses of C06G_view_recommits and C06G_view_recommits_avail hold in a reachable state of a six-validator network
   (validator 2 Byzantine): view 2's leader proposes block 0, three honest validators vote, all
   time out; view 3's leader is forced to re-propose block 0 without payload; validators 1, 3, 4
   have the payload, validators 5 and 6 do not and must fetch the block *)
Example C06G_example_view_recommits : exists s,
  preach ex_P6 s /\ headroom ex_P6 s 4 /\ waiting ex_P6 s 3 0 /\
  reproposal_on_network ex_P6 s 3 0 100 /\ uncertified ex_P6 s 0 /\
  (exists k0, honestb ex_P6 k0 = true /\ cache_has (r_cache (n_live (g_node s k0))) 0 100 = true) /\
  (exists k1, honestb ex_P6 k1 = true /\ cache_has (r_cache (n_live (g_node s k1))) 0 100 = false) /\
  fetch_ok_at ex_P6 (find_cert ex_P6) (sync_point ex_P6 ex_pay (sync_round ex_P6 ex_pay (find_cert ex_P6) s)).
Proof. exact ex_recommit_hyps. Qed.
Print Assumptions C06G_example_view_recommits.

Example C06G_example_honest_leaders :
  headroom ex_P ex_s1 (Z.of_nat 2 + 2) /\
  (forall i, (1 <= i < 2)%nat -> honestb ex_P (cleader (pcfg ex_P 0) (1 + Z.of_nat i)) = true).
Proof. exact (conj ex_headroom_s1 ex_honest_leaders). Qed.
Print Assumptions C06G_example_honest_leaders.

Example C06G_example_view_times_out :
  preach ex_P6 ex_s6 /\ headroom ex_P6 ex_s6 4 /\ waiting ex_P6 ex_s6 1 0 /\ no_proposal ex_P6 ex_s6 1 /\
  honestb ex_P6 (cleader (pcfg ex_P6 0) 1) = false /\ honestb ex_P6 1 = true.
Proof. exact ex_view_times_out_hyps. Qed.
Print Assumptions C06G_example_view_times_out.

(* the state after the first round of the six-validator committee (validator 2 Byzantine) is a
   lockstep state for view 1 and the first block, and the leader of view 2 is honest *)
(* the hypotheses of C06G_view_times_out_mixed hold in a reachable state in which validators 1
   and 3 have timed out in view 1 and validators 4, 5, 6 still wait *)
Example C06G_example_view_times_out_mixed : exists s,
  preach ex_P6 s /\ headroom ex_P6 s 4 /\ unvoted ex_P6 s 1 0 /\
  no_proposal ex_P6 s 1 /\ timed_out_light ex_P6 s 1 /\
  r_phase (n_live (g_node s 1)) = PTimeout /\ r_phase (n_live (g_node s 4)) = Prepare.
Proof. exact ex_mixed_hyps. Qed.
Print Assumptions C06G_example_view_times_out_mixed.

Example C06G_example_lockstep : lockstep ex_P6 ex_pay ex_s6 1 (p_first ex_P6) /\ byz_run ex_P6 1 1.
Proof. exact ex_lockstep. Qed.
Print Assumptions C06G_example_lockstep.

(* a silent Byzantine leader costs one view: 6 validators, validator 2 Byzantine *)
(* a weak lockstep state that is not a lockstep state: view 3 of the six-validator network, whose
   honest leader has the forced re-proposal of block 0 pending (three honest validators voted for
   it in view 2); the hypotheses of C06G_progress_from_wlockstep hold with nbyz = 0 *)
Example C06G_example_wlockstep : exists s,
  preach ex_P6 s /\ headroom ex_P6 s (Z.of_nat 0 + 2) /\ wlockstep ex_P6 ex_pay s 3 0 /\ byz_run ex_P6 3 0 /\
  fetch_ok_run ex_P6 ex_pay (find_cert ex_P6) s (2 * (0 + 1)) /\
  (exists h j mv,
     justification_view (E := unit) true j = Ok mv /\ vnum mv = 3 /\
     justification_verify (p_g ex_P6) (p_e ex_P6) (p_C ex_P6) j = Ok tt /\
     get_implied_block (E := unit) true (p_C ex_P6) (p_first ex_P6) j = Ok (0, Some h) /\
     In {| m_key := cleader (pcfg ex_P6 0) 3; m_sig_ok := true; m_msg := MProposal None j |} (g_soup s) /\
     ProtocolLiveCommitLock.uniq_prop ex_P6 3 j None (g_soup s)).
Proof. exact ex_wlockstep. Qed.
Print Assumptions C06G_example_wlockstep.

(* the hypotheses of C06G_progress_from_mixed hold (nbyz = 0) in the mixed-phase state of
   C06G_example_view_times_out_mixed *)
Example C06G_example_progress_from_mixed : exists s,
  preach ex_P6 s /\ headroom ex_P6 s (Z.of_nat 0 + 4) /\
  p_first ex_P6 <= 0 /\ unvoted ex_P6 s 1 0 /\ no_proposal ex_P6 s 1 /\ timed_out_light ex_P6 s 1 /\
  uncertified ex_P6 s 0 /\
  (forall k, honestb ex_P6 k = true -> tidy_node_b ex_P6 0 (0 + 1) (n_live (g_node s k))) /\
  (forall h t, honestb ex_P6 h = true -> In {| m_key := h; m_sig_ok := true; m_msg := MTimeout t |} (g_soup s) ->
     vnum (tview t) = 1 -> tidy_report_b ex_P6 0 (0 + 1) t) /\
  byz_run ex_P6 (1 + 1) 0 /\ fetch_ok_run ex_P6 ex_pay (find_cert ex_P6) s (2 + 2 * (0 + 1)) /\
  r_phase (n_live (g_node s 1)) = PTimeout /\ r_phase (n_live (g_node s 4)) = Prepare.
Proof. exact ex_progress_from_mixed_hyps. Qed.
Print Assumptions C06G_example_progress_from_mixed.

Example C06G_example_byz_leader :
  params_ok ex_P6 /\
  map (fun r => (map (fun k => r_view (n_live (g_node (sync_rounds ex_P6 ex_pay (find_cert ex_P6) r (ginit ex_P6)) k))) [1; 3; 4; 5; 6],
                 ex_heights [1; 3; 4; 5; 6] (sync_rounds ex_P6 ex_pay (find_cert ex_P6) r (ginit ex_P6)))) [2; 3; 4; 5]%nat =
  [([1; 1; 1; 1; 1], [0; 0; 0; 0; 0]); ([2; 2; 2; 2; 2], [0; 0; 0; 0; 0]);
   ([2; 2; 2; 2; 2], [0; 0; 0; 0; 0]); ([3; 3; 3; 3; 3], [1; 1; 1; 1; 1])].
Proof. exact (conj ex_P6_ok ex_byz_leader_obs). Qed.
Print Assumptions C06G_example_byz_leader.

(* ================================================================== *)
(* NOT PROVED: the remaining statements of C06 (definitions in Proofs/ProtocolLiveGoals.v)  *)
(* ================================================================== *)
(* (b) and no_stop are proved above: C06G_catch_up = ProtocolLiveGoals.C06_catch_up 3,
   C06G_no_stop = forall R, ProtocolLiveGoals.C06_no_stop R *)
(* (c) alignment; and in the form that connects to the proved progress theorem *)
Definition C06_sync_rounds_align := ProtocolLiveGoals.C06_sync_rounds_align.
Definition C06_reaches_lockstep := ProtocolLiveGoals.C06_reaches_lockstep.
(* the weaker form that suffices (C06G_progress_partial_of_reaches_wlockstep) *)
Definition C06_reaches_wlockstep := ProtocolLiveGoals.C06_reaches_wlockstep.
(* (d): the first statement is refuted above for R = 4, its first correction (notified leader)
   for R = 3; the statement that holds is C06G_view_commits above *)
Definition C06_aligned_view_commits := ProtocolLiveGoals.C06_aligned_view_commits.
Definition C06_aligned_view_commits' := ProtocolLiveGoals.C06_aligned_view_commits'.
(* (e) and the full statement: proved from a lockstep state (C06G_progress_from_lockstep);
   from an arbitrary reachable state they need (c) *)
Definition C06_progress_partial := ProtocolLiveGoals.C06_progress_partial.
Definition C06_full := ProtocolLiveGoals.C06_full.
