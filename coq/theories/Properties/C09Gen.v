(* C09, translator tie: the schema regenerated from the .proto files of /repo on every run
   (Gen/Schema.v) supports the canonical encoding and is well formed.  If a .proto change
   introduces a map, an implicit-presence field, a proto2 file, a duplicate or out-of-range field
   number, this file no longer compiles. *)
From Coq Require Import String ZArith List.
From EC Require Import Model.Wire Model.ProtoSchema Gen.Schema Proofs.ProtoCanonProofs.
Import ListNotations.
Open Scope Z_scope.

Theorem C09_generated_schema_ok :
  schema_canonical_ok Gen.Schema.schema = true /\ schema_wf Gen.Schema.schema = true /\
  schema_unpacked Gen.Schema.schema = true.
Proof. repeat split; vm_compute; reflexivity. Qed.
Print Assumptions C09_generated_schema_ok.

(* the test schema is well formed too (it deliberately contains one message that the canonical
   check rejects) *)
Example C09_test_schema_wf :
  schema_wf Gen.Schema.test_schema = true /\ schema_canonical_ok Gen.Schema.test_schema = false.
Proof. split; vm_compute; reflexivity. Qed.
