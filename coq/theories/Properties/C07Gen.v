(* C07, translator tie: the definitions regenerated from schedule.rs on every run
   (Gen/Thresholds.v) satisfy the same specification as the hand model.  If the
   source changes so that the spec fails, this file no longer compiles. *)
From Coq Require Import ZArith List Lia.
From EC Require Import Lib.Outcome Lib.U64 Model.Thresholds Proofs.ThresholdsProofs Proofs.U64Facts.
From EC Require Import Gen.Thresholds.
Open Scope Z_scope.

Ltac Zify.zify_post_hook ::= Z.div_mod_to_equations.

Ltac u64_eval :=
  repeat (first
    [ rewrite u64_sub_ok by (unfold U64 in *; lia)
    | rewrite u64_add_ok by (unfold U64 in *; lia)
    | rewrite u64_mul_ok by (unfold U64 in *; lia)
    | rewrite u64_div_ok by lia
    | rewrite u64_rem_ok by lia ]; cbn [bind]).

Theorem C07_generated_thresholds : forall chk n, 1 <= n < U64 ->
  exists f q s,
    gen_max_faulty_weight chk n = Ok f /\ gen_quorum_threshold chk n = Ok q /\
    gen_subquorum_threshold chk n = Ok s /\ thresholds_spec n f q s.
Proof.
  intros chk n H.
  unfold gen_subquorum_threshold, gen_quorum_threshold, gen_max_faulty_weight.
  u64_eval.
  eexists _, _, _. split; [reflexivity|]. split; [reflexivity|]. split; [reflexivity|].
  constructor; unfold U64 in *; lia.
Qed.
Print Assumptions C07_generated_thresholds.

(* ... and agree with the hand model pointwise on the whole domain. *)
Theorem C07_generated_matches_model : forall chk n, 1 <= n < U64 ->
  gen_max_faulty_weight chk n = max_faulty_weight chk n /\
  gen_quorum_threshold chk n = quorum_threshold chk n /\
  gen_subquorum_threshold chk n = subquorum_threshold chk n.
Proof.
  intros chk n H.
  rewrite (max_faulty_ok chk n H), (quorum_ok chk n H), (subquorum_ok chk n H).
  unfold gen_subquorum_threshold, gen_quorum_threshold, gen_max_faulty_weight.
  u64_eval. repeat split; f_equal; lia.
Qed.
Print Assumptions C07_generated_matches_model.
