(* C10 — No input from the network can crash a node.
   Statements only; proofs are in Proofs/NetInputProofs.v, the model in Model/NetInput.v.
   [chk] ranges over both overflow profiles (true = overflow checks on, dev; false = wrapping,
   release); a [Panic] in the model is a Rust panic (= abort: panic = 'abort' in node/Cargo.toml). *)
From Coq Require Import ZArith List.
From EC Require Import Lib.Outcome Lib.U64 Model.NetInput Proofs.NetInputProofs.
(* replica / certificate models of C04, C05, C16: referred to by qualified names only *)
From EC Require Model.Msgs Model.Replica Proofs.QCProofs Proofs.TqcAssembly Proofs.ReplicaCaches.
Import ListNotations.
Open Scope Z_scope.

(* ---- std_conv.rs ------------------------------------------------------------------------- *)

(* Duration: every (seconds, nanos) pair a peer can put on the wire (present or absent fields) is
   decoded to a value or rejected; a decoded value is re-encoded, in both profiles, to an in-range
   pair denoting the same number of nanoseconds (no trap, no silent wrap). *)
Theorem C10_duration_roundtrip_total : forall chk s n,
  (forall p, duration_read true s n <> Panic p) /\
  (forall s' n' d, s = Some s' -> n = Some n' -> in_i64 s' -> in_i32 n' ->
     duration_read true s n = Ok d ->
     exists bs bn, duration_build chk d = Ok (bs, bn) /\ in_i64 bs /\ 0 <= bn < NS /\
                   bs * NS + bn = s' * NS + n').
Proof.
  intros chk s n. split; [intros p; apply duration_read_no_panic|].
  intros s' n' d -> -> Hs Hn H. exact (duration_roundtrip chk s' n' d Hs Hn H).
Qed.
Print Assumptions C10_duration_roundtrip_total.

(* Timestamp (time::Utc): UNIX_EPOCH + d and t - UNIX_EPOCH never hit their overflow `expect`. *)
Theorem C10_timestamp_total : forall chk g s n,
  (forall s' n', s = Some s' -> n = Some n' -> in_i64 s' /\ in_i32 n') ->
  (forall p, utc_read g s n <> Panic p) /\
  (forall s' n' t, s = Some s' -> n = Some n' -> utc_read true s n = Ok t ->
     exists bs bn, utc_build chk t = Ok (bs, bn) /\ in_i64 bs /\ 0 <= bn < NS /\
                   bs * NS + bn = s' * NS + n').
Proof.
  intros chk g s n Hr. split.
  - intros p. destruct s as [s'|]; [destruct n as [n'|]|].
    + destruct (Hr s' n' eq_refl eq_refl). apply utc_read_total; assumption.
    + apply utc_read_missing_no_panic. right; reflexivity.
    + apply utc_read_missing_no_panic. left; reflexivity.
  - intros s' n' t -> -> H. destruct (Hr s' n' eq_refl eq_refl) as (Hs & Hn).
    exact (utc_roundtrip chk s' n' t Hs Hn H).
Qed.
Print Assumptions C10_timestamp_total.

(* The reader before repair 3005ef8 accepted a value whose re-encoding traps (dev) or wraps to
   the other end of the range (release): finding C10-1. *)
Theorem C10_duration_unguarded_refuted :
  exists s n d, in_i64 s /\ in_i32 n /\ duration_read false (Some s) (Some n) = Ok d /\
    duration_build true d = Panic POverflow /\ duration_build false d = Ok (I64_MAX, NS - 1).
Proof.
  exists I64_MIN, (-1), {| dsec := I64_MIN; dnano := -1 |}.
  destruct duration_unguarded_refuted as (A & B & C).
  split; [unfold in_i64, I64_MIN, I64_MAX; split; discriminate|].
  split; [unfold in_i32, I32_MIN, I32_MAX; split; discriminate|]. auto.
Qed.
(* ... and the constructor used before repair dc190e4 panics on in-range wire values. *)
Theorem C10_duration_new_refuted : duration_from_parts_orig I64_MAX NS = Panic PUnwrap.
Proof. exact duration_new_refuted. Qed.

Theorem C10_sockaddr_read_total : forall iplen port,
  (forall p, sockaddr_read iplen port <> Panic p) /\
  (forall len prt, sockaddr_read iplen port = Ok (len, prt) -> (len = 4 \/ len = 16) /\ prt <= 65535).
Proof.
  intros l p. split; [intros q; apply sockaddr_read_total|].
  intros len prt H. destruct (sockaddr_read_ok l p len prt H) as (_ & _ & A & B). split; assumption.
Qed.
Print Assumptions C10_sockaddr_read_total.

(* BitVector: the byte string is bounded by the frame limit (far below 2^61 bytes) *)
Theorem C10_bitvec_read_total : forall size nbytes,
  (forall n, nbytes = Some n -> 0 <= n < 2305843009213693952) ->
  (forall p, bitvec_read size nbytes <> Panic p) /\
  (forall len, bitvec_read size nbytes = Ok len -> exists n, nbytes = Some n /\ len <= 8 * n).
Proof.
  intros sz nb H. split; [intros p; apply bitvec_read_total; exact H|].
  intros len E. destruct (bitvec_read_ok sz nb len E) as (n & A & _ & B). exists n. split; assumption.
Qed.
Print Assumptions C10_bitvec_read_total.

Theorem C10_rate_total : forall g burst refresh,
  (forall p, rate_read g burst refresh <> Panic p) /\
  (forall b d, rate_read g burst refresh = Ok (b, d) -> rate_build_burst b = Ok b).
Proof.
  intros g b r. split.
  - intros p. unfold rate_read. destruct b as [x|]; [|discriminate]. destruct (U64 <=? x); [discriminate|].
    destruct r as [[s n]|]; [|discriminate].
    destruct (duration_read g s n) eqn:E; try discriminate.
    exfalso. exact (duration_read_no_panic _ _ _ _ E).
  - intros x d H. unfold rate_read in H. destruct b as [y|]; [|discriminate].
    destruct (U64 <=? y) eqn:E; [discriminate|]. destruct r as [[s n]|]; [|discriminate].
    destruct (duration_read g s n); try discriminate. inversion H; subst.
    unfold rate_build_burst. apply Z.leb_gt in E. apply Z.ltb_lt in E. rewrite E. reflexivity.
Qed.
Print Assumptions C10_rate_total.

(* ---- genesis.rs -------------------------------------------------------------------------- *)

Theorem C10_genesis_total : forall pv sched chain fork first,
  (forall p, genesis_read true pv sched chain fork first <> Panic p) /\
  (forall v has, genesis_read true pv sched chain fork first = Ok (v, has) -> genesis_build v = Ok tt).
Proof.
  intros. destruct (genesis_total pv sched chain fork first) as (A & B). split; [exact A|].
  intros v has H. exact (proj2 (B v has H)).
Qed.
Print Assumptions C10_genesis_total.

Theorem C10_genesis_pre_repair_refuted :
  exists pv chain fork first, genesis_read false (Some pv) None (Some chain) (Some fork) (Some first) = Panic PUnreachable.
Proof. exists 3, 1, 1, 1. exact genesis_orig_refuted. Qed.

(* ---- consensus.rs / leader_proposal.rs / bft lib.rs --------------------------------------- *)

(* A decoded justification never makes view() overflow, in either profile: either the decoder
   rejected it (QC view = u64::MAX) or view() is exactly QC view + 1 < 2^64. *)
Theorem C10_view_successor_guarded : forall chk v, in_u64 v ->
  (forall p, just_view chk true v <> Panic p) /\
  (forall w, just_view chk true v = Ok w -> w = v + 1 /\ in_u64 w).
Proof.
  intros chk v Hv. destruct (just_view_guarded chk v Hv) as [(A & B)|(A & B & C)]; rewrite B.
  - split; [discriminate|]. intros w H. discriminate.
  - split; [discriminate|]. intros w H. inversion H; subst. split; [reflexivity|exact C].
Qed.
Print Assumptions C10_view_successor_guarded.

Theorem C10_view_successor_pre_repair_refuted :
  just_view true false u64_max = Panic POverflow /\ just_view false false u64_max = Ok 0.
Proof. exact just_view_orig_refuted. Qed.

(* BlockNumber::next uses checked_add(1).unwrap(): it panics exactly at u64::MAX in both profiles
   (all call sites take the number from a verified certificate, see the inventory). *)
Theorem C10_block_successor_spec : forall v, in_u64 v ->
  (v < u64_max -> block_next v = Ok (v + 1)) /\ (v = u64_max -> block_next v = Panic PUnwrap).
Proof. exact block_next_spec. Qed.
Print Assumptions C10_block_successor_spec.

(* The inbound queue's selection function on any two decoded consensus messages. *)
Theorem C10_selection_total : forall chk same_key ko vo kn vn wo wn, in_u64 vo -> in_u64 vn ->
  msg_read true ko vo = Ok wo -> msg_read true kn vn = Ok wn ->
  exists r, selection chk same_key ko vo kn vn = Ok r.
Proof. exact selection_total. Qed.
Print Assumptions C10_selection_total.

Theorem C10_selection_pre_repair_refuted :
  selection true true KNewView u64_max KNewView 3 = Panic POverflow.
Proof. exact selection_orig_refuted. Qed.

(* ---- frame.rs ---------------------------------------------------------------------------- *)

(* For every message decoder [dec], limit and byte stream: the message buffer is never larger than
   max_size; an over-long length prefix is rejected after exactly the 4 prefix bytes, with nothing
   allocated; no more bytes are consumed than were sent; and the receiver panics only if the
   decoder does. *)
Theorem C10_frame_alloc_bounded : forall (dec : list Z -> outcome Z unit) max bs, 0 <= max ->
  fr_alloc (recv_proto dec max bs) <= max /\
  fr_consumed (recv_proto dec max bs) <= Z.of_nat (length bs) /\
  (forall b0 b1 b2 b3 rest, bs = b0 :: b1 :: b2 :: b3 :: rest -> max < le32 b0 b1 b2 b3 ->
     recv_proto dec max bs = {| fr_out := Err F_TOO_LARGE; fr_consumed := 4; fr_alloc := 0 |}).
Proof.
  intros dec max bs Hm. split; [apply frame_alloc_bounded; exact Hm|].
  split; [apply frame_consumed_bounded|].
  intros b0 b1 b2 b3 rest -> H. apply frame_reject_before_body. exact H.
Qed.
Print Assumptions C10_frame_alloc_bounded.

Theorem C10_frame_total : forall (dec : list Z -> outcome Z unit),
  (forall b p, dec b <> Panic p) ->
  forall max bs p, fr_out (recv_proto dec max bs) <> Panic p /\ fr_out (mux_recv_proto dec max bs) <> Panic p.
Proof. intros dec H max bs p. split; apply frame_total; exact H. Qed.
Print Assumptions C10_frame_total.

(* ---- mux/header.rs, mux/mod.rs ------------------------------------------------------------ *)

(* Every 16-bit header, any stream tables: the dispatcher returns a frame class or a protocol
   error; ids outside the table are rejected. *)
Theorem C10_mux_dispatch_total : forall na nc h, 0 <= h < 65536 ->
  (forall p, dispatch true na nc h <> Panic p) /\
  (table_size na nc h <= stream_id h -> dispatch true na nc h = Err MBadId) /\
  (stream_kind h = SK_ACCEPT \/ stream_kind h = SK_CONNECT) /\ 0 <= stream_id h <= ID_MASK.
Proof.
  intros na nc h H. split; [intros p; apply dispatch_total; exact H|].
  split; [apply dispatch_bad_id; exact H|].
  pose proof (header_check_holds h H) as C. unfold header_check in C.
  repeat (apply andb_prop in C; destruct C as (C & ?)).
  split.
  - match goal with K : (_ || _)%bool = true |- _ => apply Bool.orb_prop in K; destruct K as [K|K]; apply Z.eqb_eq in K; [left|right]; exact K end.
  - split; [apply Z.leb_le|apply Z.leb_le]; assumption.
Qed.
Print Assumptions C10_mux_dispatch_total.

(* Only OPEN / DATA / CLOSE frames are forwarded to a stream (so the `unreachable!("Bad
   FrameKind")` and the `data.unwrap()` of ReadStream::read_exact are not reachable). *)
Theorem C10_mux_dispatch_kinds : forall fixed na nc h,
  (dispatch fixed na nc h = Ok FData -> frame_kind h = FK_DATA) /\
  (dispatch fixed na nc h = Ok FOpenClose -> frame_kind h = FK_OPEN \/ frame_kind h = FK_CLOSE).
Proof. exact dispatch_kinds. Qed.
Print Assumptions C10_mux_dispatch_kinds.

(* The whole read loop on every byte string (after the handshake): it ends with end-of-stream or
   a protocol error; never a panic, never a normal return, and the fuel of the model suffices. *)
Theorem C10_mux_process_total : forall na nc bs, bytes_ok bs ->
  exists e, fst (mux_run true na nc bs) = Err e /\ (e = MEof \/ e = MBadId \/ e = MBadKind).
Proof.
  intros na nc bs Hb. destruct (mux_run_total na nc bs Hb) as (e & E & Hne). exists e. split; [exact E|].
  destruct e; auto. contradiction.
Qed.
Print Assumptions C10_mux_process_total.

Theorem C10_mux_process_never_ok : forall fixed na nc bs u, fst (mux_run fixed na nc bs) <> Ok u.
Proof. intros. unfold mux_run. apply process_never_ok. Qed.
Print Assumptions C10_mux_process_never_ok.

(* Exhaustive instance (vm_compute + forallb_forall): all 65536 headers x stream tables of
   0..3 accept and 0..3 connect streams, each followed by the bytes 01 00 ff ff. *)
Theorem C10_mux_headers_exhaustive : forall na nc h,
  In na [0; 1; 2; 3] -> In nc [0; 1; 2; 3] -> 0 <= h < 65536 ->
  exists e, fst (mux_run true na nc ((h mod 256) :: (h / 256) :: [1; 0; 255; 255])) = Err e /\
            (e = MEof \/ e = MBadId \/ e = MBadKind).
Proof.
  intros na nc h Ha Hc Hh. pose proof (sweep_ok_forall na nc h Ha Hc Hh) as S.
  unfold sweep_ok, sweep_tail in S.
  destruct (fst (mux_run true na nc (h mod 256 :: h / 256 :: [1; 0; 255; 255]))) as [|e|]; try discriminate.
  exists e. split; [reflexivity|]. destruct e; auto. discriminate.
Qed.
Print Assumptions C10_mux_headers_exhaustive.

Theorem C10_mux_pre_repair_refuted : forall id, 0 <= id < 3 ->
  dispatch false 3 3 (FK_MASK + id) = Panic PUnreachable.
Proof. exact dispatch_orig_refuted. Qed.

(* u16 lengths read from the wire index 65536-byte buffers (noise handshake / frame reassembly) *)
Theorem C10_u16_index_bounds : forall b0 b1, 0 <= b0 < 256 -> 0 <= b1 < 256 ->
  0 <= b0 + 256 * b1 <= 65535 /\ b0 + 256 * b1 < 65536 /\ 2 + (b0 + 256 * b1) <= 65537.
Proof. exact u16_index_bounds. Qed.
Print Assumptions C10_u16_index_bounds.

(* ---- replica handlers on well-signed messages with arbitrary field values ------------------ *)

(* A ReplicaCommit / ReplicaTimeout with any field values, offered to the replica model in any
   state satisfying the cache invariant (all reachable states, Proofs/ReplicaCaches.v), can never
   hit an unwrap / expect / index / assert / unreachable: the only panic possible is the
   arithmetic overflow of view.next() in start_new_view, i.e. after a quorum certificate for view
   u64::MAX has been assembled from verified votes (outside the fault bound). *)
Theorem C10_replica_votes_total : forall cfg s m, ReplicaCaches.cache_inv cfg s ->
  (exists c, Replica.m_msg m = Replica.MCommit c) \/ (exists t, Replica.m_msg m = Replica.MTimeout t) ->
  forall p, ReplicaCaches.res_of (Replica.rstep cfg s (Replica.IMsg m)) = Panic p -> p = POverflow.
Proof. exact ReplicaCaches.rstep_vote_panics. Qed.
Print Assumptions C10_replica_votes_total.

(* What on_proposal / on_new_view run on an unverified justification: verification never panics
   for any field values (signer bitmaps of any length, any views); on a TimeoutQC satisfying the
   assembly invariant high_vote / weight never panic; and the replica's own get_justification
   never panics once a high certificate exists. *)
Theorem C10_justification_handling_total :
  (forall g e C j, is_panic (Msgs.justification_verify g e C j) = false) /\
  (forall E g e C t, TqcAssembly.tqc_inv g e C t ->
     is_panic (@Msgs.high_vote E C t) = false /\ is_panic (@Msgs.tqc_weight E C t) = false) /\
  (forall s, Replica.r_high_cqc s <> None \/ Replica.r_high_tqc s <> None ->
     forall p, Replica.get_justification s <> Panic p).
Proof.
  split; [exact QCProofs.justification_verify_no_panic|]. split.
  - intros E g e C t H. split; [exact (TqcAssembly.high_vote_no_panic E g e C t H)|exact (TqcAssembly.tqc_weight_no_panic E g e C t H)].
  - exact ReplicaCaches.get_justification_np.
Qed.
Print Assumptions C10_justification_handling_total.

(* ---- the full statement, and what is proved of it ---------------------------------------- *)

(* C10 in full: for an abstract node whose every network-facing function is listed in [stages],
   none of them panics on any input, in either profile.  The proved part instantiates the stages
   that are modelled above; the generated prost decoders, key / signature decoding, snow and the
   replica handlers are not modelled (fuzzed by the check instead), so the full statement over the
   real node is NOT claimed. *)
Definition C10_full (stage : Type) (run : stage -> bool -> list Z -> option panic) : Prop :=
  forall (st : stage) (chk : bool) (input : list Z), run st chk input = None.

Inductive modelled_stage := SFrame (max : Z) | SMux (na nc : Z).
Definition run_modelled (st : modelled_stage) (chk : bool) (input : list Z) : option panic :=
  match st with
  | SFrame max => match fr_out (recv_proto (fun _ => Ok tt) max input) with Panic p => Some p | _ => None end
  | SMux na nc => match fst (mux_run true na nc input) with Panic p => Some p | _ => None end
  end.

Theorem C10_partial : forall st chk input, bytes_ok input -> run_modelled st chk input = None.
Proof.
  intros [max|na nc] chk input Hb; unfold run_modelled.
  - destruct (fr_out (recv_proto (fun _ => Ok tt) max input)) eqn:E; try reflexivity.
    exfalso. refine (frame_total (fun _ => Ok tt) _ max input p E). intros; discriminate.
  - destruct (C10_mux_process_total na nc input Hb) as (e & E & _). rewrite E. reflexivity.
Qed.
Print Assumptions C10_partial.

(* Non-vacuity: concrete inputs on which the modelled functions take their interesting branches. *)
Example C10_nonvacuous :
  duration_read true (Some (-5)) (Some 1) = Ok {| dsec := -4; dnano := -999999999 |} /\
  duration_build true {| dsec := -4; dnano := -999999999 |} = Ok (-5, 1) /\
  duration_read true (Some I64_MIN) (Some (-1)) = Err E_RANGE /\
  duration_read true (Some I64_MAX) (Some NS) = Err E_RANGE /\
  genesis_read true (Some 3) None (Some 1) (Some 1) (Some 1) = Err G_PV_UNSUPPORTED /\
  just_view true true (u64_max - 1) = Ok u64_max /\
  just_view true true u64_max = Err E_RANGE /\
  fr_out (recv_proto (fun _ => Ok tt) 10 [4; 0; 0; 0; 8; 1; 16; 5]) = Ok tt /\
  recv_proto (fun _ => Ok tt) 10 [255; 255; 255; 255; 1] = {| fr_out := Err F_TOO_LARGE; fr_consumed := 4; fr_alloc := 0 |} /\
  dispatch true 2 3 (FK_DATA + SK_CONNECT + 1) = Ok FData /\
  dispatch true 2 3 (FK_MASK + 1) = Err MBadKind /\
  mux_run true 2 3 [1; 64; 1; 0; 255; 255] = (Err MEof, 6).
Proof. repeat split; reflexivity. Qed.
