(* C12 — Connections are attributed only to authenticated, expected, unique peers.
   Statements only; proofs in Proofs/HandshakeProofs.v and Proofs/PoolProofs.v.

   Reading guide.  Keys, genesis hashes and session ids are integers.  [SSig k sid] is the only
   value that verifies as a signature of key k over "SessionId sid" (H-SIG).  A session id belongs
   to one session with its two ends [true]/[false] (H-SID).  [honest : Z -> bool] says which
   secret keys the adversary lacks; [run honest [] acts = Some tr] says that [acts] is a sequence
   of node and adversary moves that respects H-ADV (every message the adversary delivers carries,
   for an honest key, only a signature some honest endpoint emitted before); it is quantified
   universally, so the theorems cover every message the adversary can produce and every
   interleaving.  Pool operations are atomic (H-ATOM), so a concurrent execution is a list. *)
From Coq Require Import ZArith List Bool.
From EC Require Import Lib.Outcome Lib.U64 Model.Handshake Model.Pool
  Proofs.HandshakeProofs Proofs.PoolProofs Proofs.NodeProofs.
Import ListNotations.
Open Scope Z_scope.

(* ---- handshake_sound, the four decision functions ----
   Ok K only if the received message names this very session, announces our genesis, and carries
   the signature of K over this session's id; outbound: K is the dialled key. *)
Theorem C12_sound_gossip_outbound : forall own_sid gen peer r K,
  gossip_outbound own_sid gen peer r = Ok K ->
  (exists h, r = RMsg h /\ m_sid h = own_sid /\ m_gen h = gen /\ m_key h = K /\ m_sig h = SSig K own_sid)
  /\ K = peer.
Proof. exact gossip_outbound_sound. Qed.
Print Assumptions C12_sound_gossip_outbound.

Theorem C12_sound_gossip_inbound : forall own_sid gen r K,
  gossip_inbound own_sid gen r = Ok K ->
  exists h, r = RMsg h /\ m_sid h = own_sid /\ m_gen h = gen /\ m_key h = K /\ m_sig h = SSig K own_sid.
Proof. exact gossip_inbound_sound. Qed.
Print Assumptions C12_sound_gossip_inbound.

Theorem C12_sound_validator_outbound : forall own_sid gen peer r K,
  validator_outbound own_sid gen peer r = Ok K ->
  (exists h, r = RMsg h /\ m_sid h = own_sid /\ m_gen h = gen /\ m_key h = K /\ m_sig h = SSig K own_sid)
  /\ K = peer.
Proof. exact validator_outbound_sound. Qed.
Print Assumptions C12_sound_validator_outbound.

Theorem C12_sound_validator_inbound : forall own_sid gen r K,
  validator_inbound own_sid gen r = Ok K ->
  exists h, r = RMsg h /\ m_sid h = own_sid /\ m_gen h = gen /\ m_key h = K /\ m_sig h = SSig K own_sid.
Proof. exact validator_inbound_sound. Qed.
Print Assumptions C12_sound_validator_inbound.

(* ---- handshake_sound on the system ----
   In every reachable trace: an endpoint that returned Ok K was configured to expect K if it
   dialled; and if K is honest then K itself ran an endpoint of this same session and emitted its
   signature over this session's id there. *)
Theorem C12_handshake_sound : forall honest acts tr sid side K,
  run honest [] acts = Some tr -> In (EvDone sid side (Ok K)) tr ->
  (exists c, In (EvOpen sid side c) tr /\ (forall p, e_role c = ROut p -> K = p)) /\
  (honest K = true ->
   exists side' c' m, In (EvOpen sid side' c') tr /\ e_key c' = K /\
     In (EvEmit sid side' m) tr /\ m_sig m = SSig K sid /\
     (side' <> side \/ exists c, In (EvOpen sid side c) tr /\ e_role c = ROut K /\ e_key c = K)).
Proof. exact sound_sys. Qed.
Print Assumptions C12_handshake_sound.

(* ... and it is the REMOTE end that signed, for every accepting endpoint and for every connecting
   endpoint that did not dial its own key (the loopback dial is the one case where a node's own
   message, reflected, is attributed to the node itself). *)
Theorem C12_remote_end_signed : forall honest acts tr sid side K c,
  run honest [] acts = Some tr -> In (EvDone sid side (Ok K)) tr -> honest K = true ->
  In (EvOpen sid side c) tr -> (e_role c = RIn \/ e_key c <> K) ->
  exists c' m, In (EvOpen sid (negb side) c') tr /\ e_key c' = K /\
               In (EvEmit sid (negb side) m) tr /\ m_sig m = SSig K sid.
Proof. exact sound_remote. Qed.
Print Assumptions C12_remote_end_signed.

(* honest nodes sign nothing but the id of the session they are an endpoint of *)
Theorem C12_honest_signs_own_sessions : forall honest acts tr sid side m,
  run honest [] acts = Some tr -> In (EvEmit sid side m) tr ->
  exists c, In (EvOpen sid side c) tr /\ m_sig m = SSig (e_key c) sid /\ m_gen m = e_gen c.
Proof. exact honest_signs_own_sessions. Qed.
Print Assumptions C12_honest_signs_own_sessions.

(* ---- replay_refused ----
   A message carrying a signature made for another session id is refused by all four functions,
   whatever its other fields (id field rewritten, genesis, key, is_static changed). *)
Theorem C12_replay_refused : forall c own_sid h k sid' K,
  m_sig h = SSig k sid' -> sid' <> own_sid -> decide c own_sid (RMsg h) <> Ok K.
Proof. exact foreign_signature_refused. Qed.
Print Assumptions C12_replay_refused.

(* the same for anything recorded on a reachable trace: whatever was emitted on session sid' is
   useless on any other session, even with every other field altered *)
Theorem C12_recorded_transcript_refused : forall honest acts tr sid' side' m,
  run honest [] acts = Some tr -> In (EvEmit sid' side' m) tr ->
  forall c sid h K, sid <> sid' -> m_sig h = m_sig m -> decide c sid (RMsg h) <> Ok K.
Proof. exact replay_refused_sys. Qed.
Print Assumptions C12_recorded_transcript_refused.

(* ---- relay_refused ----
   A man in the middle has its own sessions with both victims (H-SID: their ids differ from any
   session the honest key K is an endpoint of).  On a session where K runs no endpoint, no
   endpoint ever attributes the connection to K, whatever the adversary relays or injects. *)
Theorem C12_relay_refused : forall honest acts tr sid K,
  run honest [] acts = Some tr -> honest K = true ->
  (forall side c, In (EvOpen sid side c) tr -> e_key c <> K) ->
  forall side, ~ In (EvDone sid side (Ok K)) tr.
Proof. exact relay_refused_sys. Qed.
Print Assumptions C12_relay_refused.

(* malformed input (closed stream, oversized or undecodable frame) is refused, never a panic *)
Theorem C12_malformed_refused : forall c own_sid K, decide c own_sid RClosed <> Ok K.
Proof. exact closed_refused. Qed.
Print Assumptions C12_malformed_refused.

Theorem C12_decision_never_panics : forall c own_sid r x, decide c own_sid r <> Panic x.
Proof. exact decide_no_panic. Qed.
Print Assumptions C12_decision_never_panics.

(* ---- handshake_complete ----
   Two honest ends of one session, same genesis, the dialled key being the acceptor's: both
   return Ok with each other's key (an enabled run exists, so the theorems above are not vacuous). *)
Theorem C12_handshake_complete : forall honest sid cout cin,
  e_role cout = ROut (e_key cin) -> e_role cin = RIn -> e_gen cout = e_gen cin ->
  let m1 := own_msg cout sid (static_flag cout (e_key cin)) in
  let m2 := own_msg cin sid (static_flag cin (e_key cout)) in
  exists tr, run honest [] [AOpen sid true cout; AOpen sid false cin;
                            ADeliver sid false (RMsg m1); ADeliver sid true (RMsg m2)] = Some tr /\
    In (EvDone sid false (Ok (e_key cout))) tr /\ In (EvDone sid true (Ok (e_key cin))) tr.
Proof. exact complete_run. Qed.
Print Assumptions C12_handshake_complete.

(* ---- pool_inv ----  every sequence of inserts and removes, any allowed set, any usize limit *)
Theorem C12_pool_inv : forall allowed limit ops, 0 <= limit <= u64_max ->
  let p := prun (pool_new allowed limit) ops in
  NoDup (p_current p) /\ p_extra p = extras p /\ extras p <= limit /\
  p_allowed p = allowed /\ p_limit p = limit.
Proof. exact pool_inv_thm. Qed.
Print Assumptions C12_pool_inv.

(* insert fails iff the key is present or (not allowed and the quota is used up); it never
   panics; on success exactly the key is added; remove of an absent key changes nothing *)
Theorem C12_pool_step : forall allowed limit ops, 0 <= limit <= u64_max ->
  let p := prun (pool_new allowed limit) ops in
  forall k,
    (insert k p = Err EExists <-> In k (p_current p)) /\
    (insert k p = Err ELimit <-> ~ In k (p_current p) /\ ~ In k allowed /\ limit <= extras p) /\
    (forall x, insert k p <> Panic x) /\
    (forall p', insert k p = Ok p' -> p_current p' = k :: p_current p) /\
    (exists p', remove k p = Ok p' /\ p_current p' = removez k (p_current p) /\
                (~ In k (p_current p) -> p' = p)).
Proof. exact pool_step_thm. Qed.
Print Assumptions C12_pool_step.

(* ---- one_per_direction ----
   Any interleaving of connection attempts (with whatever handshake result) and disconnects on one
   pool (= one direction of one network): never a panic; the live connections have pairwise
   different identities and are exactly the pool's contents; the non-configured ones stay within
   the quota; every live connection (c, k) went through a handshake that returned Ok k. *)
Theorem C12_one_per_direction : forall allowed limit ops, 0 <= limit <= u64_max ->
  exists g, grun (ginit allowed limit) ops = Ok g /\
    NoDup (map fst (g_live g)) /\ NoDup (map snd (g_live g)) /\
    (forall k, In k (p_current (g_pool g)) <-> In k (map snd (g_live g))) /\
    NoDup (p_current (g_pool g)) /\ extras (g_pool g) <= limit /\
    p_allowed (g_pool g) = allowed /\
    (forall c k, In (c, k) (g_live g) -> In (GConn c (Ok k)) ops).
Proof. exact one_per_direction_thm. Qed.
Print Assumptions C12_one_per_direction.

(* ---- validator_pool_members_only ----  allowed = committee, extra_limit = 0 *)
Theorem C12_validator_pool_members_only : forall committee ops,
  exists g, grun (validator_inbound_pool committee) ops = Ok g /\
    (forall k, In k (p_current (g_pool g)) -> In k committee) /\
    (forall c k, In (c, k) (g_live g) -> In k committee).
Proof. exact members_only_thm. Qed.
Print Assumptions C12_validator_pool_members_only.

(* the outbound validator pool and the outbound gossip pool are the same construction *)
Theorem C12_pools_same_construction : forall l,
  validator_outbound_pool l = validator_inbound_pool l /\ gossip_outbound_pool l = validator_inbound_pool l.
Proof. intros l. split; reflexivity. Qed.
Print Assumptions C12_pools_same_construction.

(* ---- non-vacuity: a man in the middle, computed ----
   Keys 1 and 2 are honest, 9 is the adversary's.  Node 1 dials node 2 but reaches the adversary
   (session 10); the adversary dials node 2 (session 20) and relays node 1's message: refused
   (session id mismatch).  Rewriting the id field: signature error.  Speaking for itself with key 9
   it is accepted as 9, never as 1.  The run is enabled, so the theorems talk about real runs. *)
Example C12_nonvacuous :
  let honest := fun k => negb (k =? 9) in
  let a := {| e_net := Gossip; e_key := 1; e_gen := 0; e_role := ROut 2; e_statics := [] |} in
  let b := {| e_net := Gossip; e_key := 2; e_gen := 0; e_role := RIn; e_statics := [] |} in
  let m1 := own_msg a 10 false in
  exists tr,
    run honest [] [AOpen 10 true a; AOpen 20 false b; AOpen 21 false b; AOpen 22 false b;
                   ADeliver 20 false (RMsg m1);
                   ADeliver 21 false (RMsg {| m_sid := 21; m_key := 1; m_sig := m_sig m1; m_gen := 0; m_static := false |});
                   ADeliver 22 false (RMsg {| m_sid := 22; m_key := 9; m_sig := SSig 9 22; m_gen := 0; m_static := false |})]
      = Some tr /\
    In (EvDone 20 false (Err ESessionIdMismatch)) tr /\
    In (EvDone 21 false (Err ESignature)) tr /\
    In (EvDone 22 false (Ok 9)) tr /\
    (* answering node 1 in the name of node 2 needs node 2's signature over id 10, which nobody
       emitted: not an enabled adversary move *)
    step honest tr (ADeliver 10 true (RMsg {| m_sid := 10; m_key := 2; m_sig := SSig 2 10; m_gen := 0; m_static := false |})) = None.
Proof.
  eexists. split; [vm_compute; reflexivity|]. cbn [In].
  split; [tauto|]. split; [tauto|]. split; [tauto|]. vm_compute. reflexivity.
Qed.
Print Assumptions C12_nonvacuous.

Example C12_pool_nonvacuous :
  exists g, grun (gossip_inbound_pool [1; 2] 1)
                 [GConn 100 (Ok 1); GConn 101 (Ok 1); GConn 102 (Ok 7); GConn 103 (Ok 8);
                  GConn 104 (Err ESignature); GDisc 101; GDisc 102; GConn 105 (Ok 8)] = Ok g /\
            g_live g = [(105, 8); (100, 1)] /\ p_current (g_pool g) = [8; 1].
Proof. eexists. split; [vm_compute; reflexivity|]. split; reflexivity. Qed.
Print Assumptions C12_pool_nonvacuous.

(* ---- a node with both directions (the executed glue: run_inbound_stream / run_outbound_stream) ----
   Every sequence of: a peer connecting with any message, the node dialling any key with any
   answer (or no answer), and either end closing — in any interleaving.  Never a panic.  Per
   direction the live connections have pairwise different identities and are exactly the pool;
   inbound extras stay within the quota; the outbound pool holds configured peers only; and a
   connection is registered only on what its handshake certified. *)
Theorem C12_node_both_directions : forall nc evs, 0 <= nc_in_limit nc <= u64_max ->
  exists st, nrun nc (ninit nc) evs = Ok st /\
    NoDup (map snd (g_live (n_in st))) /\ NoDup (map snd (g_live (n_out st))) /\
    (forall k, In k (p_current (g_pool (n_in st))) <-> In k (map snd (g_live (n_in st)))) /\
    (forall k, In k (p_current (g_pool (n_out st))) <-> In k (map snd (g_live (n_out st)))) /\
    extras (g_pool (n_in st)) <= nc_in_limit nc /\
    (forall k, In k (p_current (g_pool (n_out st))) -> In k (nc_out_allowed nc)) /\
    (forall c k, In (c, k) (g_live (n_in st)) -> in_certified nc c k) /\
    (forall c k, In (c, k) (g_live (n_out st)) -> out_certified nc c k).
Proof. exact node_thm. Qed.
Print Assumptions C12_node_both_directions.

(* An outbound connection registered under key K was authenticated as K on its own session and
   chain, K is the key the dialler expected, and K is a configured peer (static_outbound /
   committee). *)
Theorem C12_outbound_registered_authenticated : forall nc evs st c K,
  0 <= nc_in_limit nc <= u64_max -> nrun nc (ninit nc) evs = Ok st ->
  In (c, K) (g_live (n_out st)) ->
  (exists expected h, decide (cfg_out nc expected) c (RMsg h) = Ok K /\ K = expected /\
     m_sid h = c /\ m_gen h = nc_gen nc /\ m_key h = K /\ m_sig h = SSig K c) /\
  In K (nc_out_allowed nc).
Proof.
  intros nc evs st c K Hl Hr Hin.
  destruct (node_thm nc evs Hl) as (st' & Hr' & _ & _ & _ & Hiff & _ & Hal & _ & Hco).
  rewrite Hr in Hr'. injection Hr' as <-. split.
  - destruct (Hco c K Hin) as (p & r & Hd & Hp & (h & -> & H1 & H2 & H3 & H4)).
    exists p, h. tauto.
  - apply Hal, Hiff. apply in_map_iff. exists (c, K). tauto.
Qed.
Print Assumptions C12_outbound_registered_authenticated.

Theorem C12_inbound_registered_authenticated : forall nc evs st c K,
  0 <= nc_in_limit nc <= u64_max -> nrun nc (ninit nc) evs = Ok st ->
  In (c, K) (g_live (n_in st)) ->
  exists h, decide (cfg_in nc) c (RMsg h) = Ok K /\
     m_sid h = c /\ m_gen h = nc_gen nc /\ m_key h = K /\ m_sig h = SSig K c.
Proof.
  intros nc evs st c K Hl Hr Hin.
  destruct (node_thm nc evs Hl) as (st' & Hr' & _ & _ & _ & _ & _ & _ & Hci & _).
  rewrite Hr in Hr'. injection Hr' as <-.
  destruct (Hci c K Hin) as (r & Hd & (h & -> & H1 & H2 & H3 & H4)). exists h. tauto.
Qed.
Print Assumptions C12_inbound_registered_authenticated.

(* The reconnect loops (Runner::run for gossip, maintain_connection for validators) and anybody
   else dialling the same peer concurrently: never two registered connections to one peer in one
   direction. *)
Theorem C12_one_connection_per_peer : forall nc evs st c1 c2 k,
  0 <= nc_in_limit nc <= u64_max -> nrun nc (ninit nc) evs = Ok st ->
  (In (c1, k) (g_live (n_out st)) -> In (c2, k) (g_live (n_out st)) -> c1 = c2) /\
  (In (c1, k) (g_live (n_in st)) -> In (c2, k) (g_live (n_in st)) -> c1 = c2).
Proof. exact one_connection_per_peer_thm. Qed.
Print Assumptions C12_one_connection_per_peer.

(* the two directions do not interfere: an inbound connection changes nothing outbound and vice versa *)
Theorem C12_directions_independent : forall nc st e st', nstep nc st e = Ok st' ->
  (forall a, e = NConn a -> n_out st' = n_out st) /\
  (forall p a, e = NDial p a -> n_in st' = n_in st).
Proof. exact directions_independent_thm. Qed.
Print Assumptions C12_directions_independent.

(* computed: node 0 (gossip, static_outbound = [5], static_inbound = [5], quota 0).  It dials 5 and
   5 answers: registered.  Dialled a second time concurrently: handshake passes, insert refused.
   Dialling 5 but key 6 answers (validly signed): refused (unexpected peer).  Its own message
   reflected: refused.  Dialling the non-configured 6: authenticated but refused by the pool.
   Meanwhile 5 also connects inbound: registered in the inbound pool, outbound untouched. *)
Example C12_node_nonvacuous :
  let nc := {| nc_net := Gossip; nc_key := 0; nc_gen := 0; nc_in_allowed := [5]; nc_in_limit := 0;
               nc_out_allowed := [5] |} in
  let msg k c := AMsg {| a_base := None; a_sid := Some c; a_key := Some k; a_sig := Some (SSig k c);
                         a_gen := Some 0; a_static := Some false |} in
  exists st, nrun nc (ninit nc)
      [NDial 5 (msg 5 0); NDial 5 (msg 5 1); NDial 5 (msg 6 2);
       NDial 5 (AMsg {| a_base := Some 3%nat; a_sid := None; a_key := None; a_sig := None; a_gen := None; a_static := None |});
       NDial 6 (msg 6 4); NConn (msg 5 5); NDialDead 5; NDisc 0; NDial 5 (msg 5 7)] = Ok st /\
    g_live (n_out st) = [(7, 5)] /\ g_live (n_in st) = [(5, 5)].
Proof. eexists. split; [vm_compute; reflexivity|]. split; reflexivity. Qed.
Print Assumptions C12_node_nonvacuous.
