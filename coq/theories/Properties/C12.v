(* C12 — stub, replaced below *)
From Coq Require Import ZArith List.
From EC Require Import Lib.Outcome Model.Handshake Model.Pool.
Import ListNotations.
Open Scope Z_scope.
Example C12_stub : gossip_inbound 0 0 RClosed = Err EStream.
Proof. reflexivity. Qed.
Print Assumptions C12_stub.
