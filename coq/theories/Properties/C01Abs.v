(* C01/C02, Layer A — the safety theorems of the abstract vote-history system of
   Model/SafetyAbs.v (DESIGN.md Appendix A), for every committee satisfying [committee_ok]
   (any length, positive weights, Byzantine weight <= f) and every reachable state.
   This file contains only statements closed by [exact] and assumption prints. *)
From Coq Require Import ZArith List Bool Lia.
From EC Require Import Model.SafetyAbs Proofs.SafetyAbsLib Proofs.SafetyAbsLocal
  Proofs.SafetyAbstract Proofs.SafetyAbsExample.
Import ListNotations.
Open Scope Z_scope.

(* ---- main theorems ---- *)

(* C02: two valid commit certificates for the same block number certify the same block —
   including certificates that no honest validator ever saw or assembled. *)
Theorem abs_certificate_unique : forall weights byz first_block, committee_ok weights byz ->
  forall st c c', reachable weights byz first_block st ->
  valid_cqc weights byz st c -> valid_cqc weights byz st c' ->
  bnum (aq_block c) = bnum (aq_block c') -> aq_block c = aq_block c'.
Proof. exact certificate_unique. Qed.
Print Assumptions abs_certificate_unique.

(* I2: valid commit certificates are monotone: a higher view never certifies a smaller
   number, and equal views certify equal blocks. *)
Theorem abs_certificates_monotone : forall weights byz first_block, committee_ok weights byz ->
  forall st c c', reachable weights byz first_block st ->
  valid_cqc weights byz st c -> valid_cqc weights byz st c' -> aq_view c <= aq_view c' ->
  bnum (aq_block c) <= bnum (aq_block c') /\ (aq_view c = aq_view c' -> aq_block c = aq_block c').
Proof. exact certificates_monotone. Qed.
Print Assumptions abs_certificates_monotone.

(* I1: once a possible quorum (v, b, Q) exists — a quorum Q whose honest members each voted b
   at v or can still do so — every vote at a higher view is for b itself or a higher number. *)
Theorem abs_repropose_after_possible_commit : forall weights byz first_block,
  committee_ok weights byz ->
  forall st v b Q, reachable weights byz first_block st -> PQ weights byz st v b Q ->
  forall vt, In vt (votes st) -> v < v_view vt ->
    bnum b < bnum (v_block vt) \/ v_block vt = b.
Proof. exact repropose_after_possible_commit. Qed.
Print Assumptions abs_repropose_after_possible_commit.

(* the definition of a possible quorum used above, spelled out *)
Theorem abs_PQ_unfold : forall weights byz st v b Q,
  PQ weights byz st v b Q <->
  (NoDup Q /\ Forall (member weights) Q /\ q_thr weights <= wsum weights Q /\
   forall i, In i Q -> honest weights byz i ->
     (exists cq, In {| v_who := i; v_view := v; v_block := b; v_cq := cq |} (votes st)) \/
     pos_lt (cur st i) (v, Commit)).
Proof. exact (fun weights byz st v b Q => iff_refl _). Qed.
Print Assumptions abs_PQ_unfold.

(* a valid commit certificate is a possible quorum *)
Theorem abs_valid_is_possible_quorum : forall weights byz st c,
  valid_cqc weights byz st c -> PQ weights byz st (aq_view c) (aq_block c) (aq_signers c).
Proof. exact valid_is_PQ. Qed.
Print Assumptions abs_valid_is_possible_quorum.

(* steps only destroy possible quorums *)
Theorem abs_possible_quorum_antitone : forall weights byz first_block st st' v b Q,
  step weights byz first_block st st' -> PQ weights byz st' v b Q -> PQ weights byz st v b Q.
Proof. exact PQ_step_back. Qed.
Print Assumptions abs_possible_quorum_antitone.

(* I3 (for every voter, in particular for the honest members of Q as in the appendix): a vote
   above a possible quorum for a higher number processed a certificate of number >= n. *)
Theorem abs_I3 : forall weights byz first_block, committee_ok weights byz ->
  forall st, reachable weights byz first_block st ->
  forall v b Q vt, PQ weights byz st v b Q -> In vt (votes st) ->
    v < v_view vt -> bnum b < bnum (v_block vt) ->
    exists c, v_cq vt = Some c /\ bnum b <= bnum (aq_block c).
Proof. exact I3s_reachable. Qed.
Print Assumptions abs_I3.

Theorem abs_I3_appendix : forall weights byz first_block, committee_ok weights byz ->
  forall st, reachable weights byz first_block st -> I3 weights byz st.
Proof. exact I3_reachable. Qed.
Print Assumptions abs_I3_appendix.

(* the three invariants and the local invariant hold in every reachable state *)
Theorem abs_invariants : forall weights byz first_block, committee_ok weights byz ->
  forall st, reachable weights byz first_block st ->
  linv weights byz first_block st /\ I1 weights byz st /\ I3s weights byz st.
Proof. exact invariants_reachable. Qed.
Print Assumptions abs_invariants.

Theorem abs_I2 : forall weights byz first_block, committee_ok weights byz ->
  forall st, reachable weights byz first_block st -> I2 weights byz st.
Proof. exact I2_reachable. Qed.
Print Assumptions abs_I2.

(* the counting argument as an isolated step: a vote justified by a valid timeout certificate
   preserves I1 *)
Theorem abs_timeout_step_preserves_I1 : forall weights byz first_block, committee_ok weights byz ->
  forall st i w b t cq,
  linv weights byz first_block st -> I1 weights byz st -> I3s weights byz st ->
  honest weights byz i -> pos_lt (cur st i) (w, Commit) ->
  valid_tqc weights byz st t -> at_view t + 1 = w ->
  (exists r, is_implied weights first_block (AJTimeout t) r /\ agrees b r) -> is_high_qc t cq ->
  I1 weights byz
     {| cur := upd (cur st) i (w, Commit);
        hvote := upd (hvote st) i (Some (w, b));
        hq := upd (hq st) i (max_cq (hq st i) cq);
        votes := {| v_who := i; v_view := w; v_block := b; v_cq := cq |} :: votes st;
        timeouts := timeouts st |}.
Proof. exact timeout_step_preserves_I1. Qed.
Print Assumptions abs_timeout_step_preserves_I1.

(* ---- local facts ---- *)

(* L1: at most one vote per (validator, view) *)
Theorem abs_no_equivocation : forall weights byz first_block, committee_ok weights byz ->
  forall st vt vt', reachable weights byz first_block st ->
  In vt (votes st) -> In vt' (votes st) ->
  v_who vt = v_who vt' -> v_view vt = v_view vt' -> vt = vt'.
Proof. exact no_equivocation. Qed.
Print Assumptions abs_no_equivocation.

(* only honest validators vote; after a vote at w the voter is at or past (w, Commit) *)
Theorem abs_votes_honest : forall weights byz first_block, committee_ok weights byz ->
  forall st vt, reachable weights byz first_block st -> In vt (votes st) ->
  honest weights byz (v_who vt).
Proof. exact local_votes_honest. Qed.
Print Assumptions abs_votes_honest.

Theorem abs_cur_after_vote : forall weights byz first_block, committee_ok weights byz ->
  forall st vt, reachable weights byz first_block st -> In vt (votes st) ->
  pos_le (v_view vt, Commit) (cur st (v_who vt)).
Proof. exact local_cur_after_vote. Qed.
Print Assumptions abs_cur_after_vote.

Theorem abs_cur_monotone : forall weights byz first_block st st' i,
  step weights byz first_block st st' -> pos_le (cur st i) (cur st' i).
Proof. exact local_cur_monotone. Qed.
Print Assumptions abs_cur_monotone.

(* the votes of one validator have strictly increasing views in history order (the head of
   [votes] is the most recent), and [hvote] is the latest one *)
Theorem abs_votes_increasing : forall weights byz first_block, committee_ok weights byz ->
  forall st, reachable weights byz first_block st -> votes_increasing (votes st).
Proof. exact local_votes_increasing. Qed.
Print Assumptions abs_votes_increasing.

Theorem abs_hvote_latest : forall weights byz first_block, committee_ok weights byz ->
  forall st i, reachable weights byz first_block st ->
  match hvote st i with
  | Some (u, b) =>
      (exists cq, In {| v_who := i; v_view := u; v_block := b; v_cq := cq |} (votes st)) /\
      (forall vt, In vt (votes st) -> v_who vt = i -> v_view vt <= u)
  | None => forall vt, In vt (votes st) -> v_who vt <> i
  end.
Proof. exact local_hvote_latest. Qed.
Print Assumptions abs_hvote_latest.

(* LT, state form: a timeout of an honest validator at t reports its latest vote at a view
   <= t (or none if it has none), and the validator is at or past (t, Timeout) *)
Theorem abs_timeout_reports_latest_vote : forall weights byz first_block,
  committee_ok weights byz ->
  forall st tm, reachable weights byz first_block st -> In tm (timeouts st) ->
  honest weights byz (t_who tm) /\ pos_le (t_view tm, Timeout) (cur st (t_who tm)) /\
  match ar_hv (t_report tm) with
  | Some (u, b) =>
      u <= t_view tm /\
      (exists cq, In {| v_who := t_who tm; v_view := u; v_block := b; v_cq := cq |} (votes st)) /\
      (forall vt, In vt (votes st) -> v_who vt = t_who tm -> v_view vt <= t_view tm ->
                  v_view vt <= u)
  | None => forall vt, In vt (votes st) -> v_who vt = t_who tm -> t_view tm < v_view vt
  end.
Proof. exact timeout_reports_latest_vote. Qed.
Print Assumptions abs_timeout_reports_latest_vote.

(* LT, transition form: every vote added after a timeout at t has a view > t *)
Theorem abs_no_vote_at_or_below_timeout : forall weights byz first_block,
  committee_ok weights byz ->
  forall st st' tm vt, reachable weights byz first_block st -> In tm (timeouts st) ->
  step weights byz first_block st st' ->
  In vt (votes st') -> ~ In vt (votes st) -> v_who vt = t_who tm ->
  t_view tm < v_view vt.
Proof. exact no_vote_at_or_below_timeout_step. Qed.
Print Assumptions abs_no_vote_at_or_below_timeout.

(* LQ *)
Theorem abs_hq_monotone : forall weights byz first_block st st' i c,
  step weights byz first_block st st' -> hq st i = Some c ->
  exists c', hq st' i = Some c' /\ aq_view c <= aq_view c'.
Proof. exact local_hq_monotone. Qed.
Print Assumptions abs_hq_monotone.

Theorem abs_hq_valid : forall weights byz first_block, committee_ok weights byz ->
  forall st i c, reachable weights byz first_block st -> hq st i = Some c ->
  valid_cqc weights byz st c.
Proof. exact local_hq_valid. Qed.
Print Assumptions abs_hq_valid.

Theorem abs_vote_cq : forall weights byz first_block, committee_ok weights byz ->
  forall st vt c, reachable weights byz first_block st -> In vt (votes st) -> v_cq vt = Some c ->
  valid_cqc weights byz st c /\
  exists c', hq st (v_who vt) = Some c' /\ aq_view c <= aq_view c'.
Proof. exact local_vote_cq. Qed.
Print Assumptions abs_vote_cq.

Theorem abs_timeout_hq : forall weights byz first_block, committee_ok weights byz ->
  forall st tm, reachable weights byz first_block st -> In tm (timeouts st) ->
  (forall c, ar_hq (t_report tm) = Some c -> valid_cqc weights byz st c) /\
  (forall vt c, In vt (votes st) -> v_who vt = t_who tm -> v_view vt <= t_view tm ->
     v_cq vt = Some c ->
     exists c', ar_hq (t_report tm) = Some c' /\ aq_view c <= aq_view c').
Proof. exact local_timeout_hq. Qed.
Print Assumptions abs_timeout_hq.

(* LF *)
Theorem abs_voted_ge_first_block : forall weights byz first_block, committee_ok weights byz ->
  forall st vt, reachable weights byz first_block st -> In vt (votes st) ->
  first_block <= bnum (v_block vt).
Proof. exact local_voted_ge_first. Qed.
Print Assumptions abs_voted_ge_first_block.

(* validity is monotone along steps *)
Theorem abs_validity_monotone : forall weights byz first_block st st',
  step weights byz first_block st st' ->
  (forall c, valid_cqc weights byz st c -> valid_cqc weights byz st' c) /\
  (forall t, valid_tqc weights byz st t -> valid_tqc weights byz st' t).
Proof. exact validity_monotone. Qed.
Print Assumptions abs_validity_monotone.

(* ---- weight lemmas behind the counting argument ---- *)
Theorem abs_quorums_share_subquorum_of_honest : forall weights byz, committee_ok weights byz ->
  forall Q S,
  NoDup Q -> Forall (member weights) Q -> q_thr weights <= wsum weights Q ->
  NoDup S -> Forall (member weights) S -> q_thr weights <= wsum weights S ->
  s_thr weights <= wsum weights (hon_of byz (inter Q S)).
Proof. exact quorums_share_subquorum. Qed.
Print Assumptions abs_quorums_share_subquorum_of_honest.

Theorem abs_outside_reporters_light : forall weights byz, committee_ok weights byz ->
  forall Q R,
  NoDup Q -> Forall (member weights) Q -> q_thr weights <= wsum weights Q ->
  NoDup R -> Forall (member weights) R ->
  (forall i, In i R -> byz i = false -> ~ In i Q) ->
  wsum weights R <= 2 * f_max weights /\ 2 * f_max weights < s_thr weights.
Proof.
  exact (fun weights byz Hok Q R HQ HmQ HqQ HR HmR Hout =>
    conj (outside_light weights byz Hok Q R HQ HmQ HqQ HR HmR Hout)
         (two_f_below_s weights byz Hok)).
Qed.
Print Assumptions abs_outside_reporters_light.

(* ---- non-vacuity: six validators of weight 1, validator 5 Byzantine (f = 1, q = 5, s = 3);
   four honest timeouts at view 0, a timeout certificate signed by them and the Byzantine
   validator, four honest votes at view 1 for block (0, 7), and the commit certificate signed
   by the four voters and the Byzantine validator is valid in the reached state. ---- *)
Example abs_nonvacuous :
  committee_ok ex_weights ex_byz /\
  reachable ex_weights ex_byz 0 ex_s8 /\
  valid_cqc ex_weights ex_byz ex_s8 ex_c /\
  PQ ex_weights ex_byz ex_s8 1 ex_b [0; 1; 2; 3; 5]%nat /\
  length (votes ex_s8) = 4%nat /\ length (timeouts ex_s8) = 4%nat.
Proof. exact ex_nonvacuous. Qed.
Print Assumptions abs_nonvacuous.

Example abs_nonvacuous_thresholds :
  n_total ex_weights = 6 /\ f_max ex_weights = 1 /\ q_thr ex_weights = 5 /\ s_thr ex_weights = 3.
Proof. exact ex_thresholds. Qed.
Print Assumptions abs_nonvacuous_thresholds.
