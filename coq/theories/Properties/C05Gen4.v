(* C05 / C06, translator tie, part 3 (stage C): proposer.rs create_proposal as regenerated from the source
   (Gen/Proposer.v) against the proposer of the hand model Model/RunLoop.v (prop_take).  The engine as the
   proposer sees it is a callee-table entry: the previous block is persisted iff it is below the store's next
   number (otherwise the task waits: RBlocked = the model's PWait); propose_payload is the harness engine's
   payload.  run_proposer (the loop around the watch channel) is not translated. *)
From Coq Require Import ZArith List Lia Bool.
From EC Require Import Lib.Outcome Lib.U64 Lib.RustSem Lib.ListW Lib.Obs Model.Msgs Model.Replica Model.ReplicaGlue Model.RunLoop Proofs.GenTac.
From EC Require Import Gen.Numbers Gen.Justification Gen.Proposer.
From EC Require Import Properties.C02Gen Properties.C05Gen.
Import ListNotations.
Open Scope Z_scope.

(* what create_proposal decides, given the implied block (n, oh) of the justification *)
Theorem C05_generated_create_proposal : forall cfg next j n oh,
  just_tally_ok (cC cfg) j -> just_nums_ok j -> 0 <= n ->
  @get_implied_block rerr (cchk cfg) (cC cfg) (cfirst cfg) j = Ok (n, oh) ->
  gen_create_proposal (cchk cfg) cfg j next =
  match oh with
  | Some _ => Ok (None, j)
  | None =>
      if (0 <? n) && negb (n - 1 <? next) then Err RBlocked
      else if cmaxpay cfg <? cpsize cfg (proposed_payload n) then Err RInternal
      else Ok (Some (proposed_payload n), j)
  end.
Proof.
  intros cfg next j n oh Ht Hn Hn0 Hg. unfold gen_create_proposal.
  rewrite (C02_generated_get_implied_block rerr (cchk cfg) (cC cfg) (cfirst cfg) j Ht Hn), Hg. cbn [bind].
  destruct oh as [h|]; [reflexivity|].
  rewrite (C05_generated_BlockNumber_prev n Hn0).
  destruct (n =? 0) eqn:H0.
  - apply Z.eqb_eq in H0. subst n. cbn [bind andb Z.ltb Z.compare].
    destruct (cmaxpay cfg <? cpsize cfg (proposed_payload 0)); reflexivity.
  - assert (Hpos : (0 <? n) = true) by (apply Z.ltb_lt; apply Z.eqb_neq in H0; lia). rewrite Hpos. cbn [andb].
    destruct (n - 1 <? next); cbn [negb bind]; [|reflexivity].
    destruct (cmaxpay cfg <? cpsize cfg (proposed_payload n)); reflexivity.
Qed.
Print Assumptions C05_generated_create_proposal.

(* ... which is the model's prop_take for the leader of the view, when the proposed payload fits *)
Theorem C05_generated_create_proposal_prop_take : forall cfg next j mv n oh,
  just_tally_ok (cC cfg) j -> just_nums_ok j -> 0 <= n ->
  @justification_view unit (cchk cfg) j = Ok mv -> cleader cfg (vnum mv) = cme cfg ->
  @get_implied_block unit (cchk cfg) (cC cfg) (cfirst cfg) j = Ok (n, oh) ->
  @get_implied_block rerr (cchk cfg) (cC cfg) (cfirst cfg) j = Ok (n, oh) ->
  cpsize cfg (proposed_payload n) <= cmaxpay cfg ->
  prop_take cfg next j =
  match gen_create_proposal (cchk cfg) cfg j next with
  | Ok (p, j') => PEmit (MProposal p j')
  | Err _ => PWait n
  | Panic _ => PSkip
  end.
Proof.
  intros cfg next j mv n oh Ht Hn Hn0 Hv Hl Hgu Hgr Hsz.
  rewrite (C05_generated_create_proposal cfg next j n oh Ht Hn Hn0 Hgr).
  unfold prop_take. rewrite Hv, Hl, Z.eqb_refl, Hgu.
  destruct oh as [h|]; [reflexivity|].
  destruct ((0 <? n) && negb (n - 1 <? next)); [reflexivity|].
  destruct (cmaxpay cfg <? cpsize cfg (proposed_payload n)) eqn:Hc; [apply Z.ltb_lt in Hc; lia|reflexivity].
Qed.
Print Assumptions C05_generated_create_proposal_prop_take.
