(* C16 (queue half) — Pending consensus input stays bounded and always keeps the freshest vote.
   Statements only; proofs are in Proofs/ChanProofs.v, the model in Model/Chan.v.

   A history [ops : list (op imsg)] is any finite sequence of atomic steps [Send m] / [Recv]
   on the queue created by create_input_channel(): every interleaving of any number of
   concurrent senders with the single consumer is such a list (H-ATOM: the send_modify
   closures are atomic), and nothing is assumed about who sends what, so every theorem below
   quantifies over all interleavings and over arbitrary floods of messages for arbitrary
   views.  [qrun ops] is the state after the history: pending buffer [hbuf], messages handed
   to the consumer [hrecv], messages destroyed [hdrop], messages sent [hsent].

   The bookkeeping inside the replica (second sentence of the property) is the other half of
   C16 and is not in this file. *)
From Coq Require Import ZArith List Permutation.
From EC Require Import Lib.Obs Model.Chan Proofs.ChanProofs.
Import ListNotations.
Open Scope Z_scope.

(* chan_inv: at most one pending message per sender and message kind. *)
Theorem C16_chan_inv : forall ops, NoDup (map imkey (hbuf (qrun ops))).
Proof. exact chan_inv_lemma. Qed.
Print Assumptions C16_chan_inv.

(* ... hence the queue holds at most 4 messages per signing key that has been seen; behind
   the validator network's admission the keys are committee members, so at most 4*|committee|. *)
Theorem C16_chan_bounded : forall ops (S : list Z),
  (forall m, In m (hsent (qrun ops)) -> In (imsender m) S /\ 0 <= imkind m < 4) ->
  (length (hbuf (qrun ops)) <= 4 * length S)%nat.
Proof. exact chan_bounded_lemma. Qed.
Print Assumptions C16_chan_bounded.

(* no_double_discard: on a reachable buffer the retain pass never sees one pending message
   answering DiscardOld and another answering DiscardNew (the case in which the generic queue
   loses both the old and the new value) ... *)
Theorem C16_no_double_discard : forall ops x y y',
  In y (hbuf (qrun ops)) -> In y' (hbuf (qrun ops)) ->
  inbound_select y x = DiscardOld -> inbound_select y' x = DiscardNew -> False.
Proof. intros ops x y y'. exact (no_double_discard_lemma _ x y y' (chan_inv_lemma ops)). Qed.
Print Assumptions C16_no_double_discard.

(* ... and one send destroys at most one message. *)
Theorem C16_send_destroys_at_most_one : forall ops x,
  (length (dropped inbound_filter inbound_select (hbuf (qrun ops)) x) <= 1)%nat.
Proof. intros ops x. exact (dropped_at_most_one _ x (chan_inv_lemma ops)). Qed.
Print Assumptions C16_send_destroys_at_most_one.

(* chan_keeps_freshest, step form: sending [x] in any reachable state destroys [d] only if
   (1) d = x and its signature is invalid, or
   (2) d = x, and a pending message [p] of the same sender and kind with view >= view x stays
       pending (the buffer is unchanged), or
   (3) d was pending, x is validly signed, of the same sender and kind, strictly newer, and
       takes its place. *)
Theorem C16_chan_keeps_freshest : forall ops x d,
  let buf := hbuf (qrun ops) in
  In d (dropped inbound_filter inbound_select buf x) ->
  (d = x /\ imsig x = false /\ qsend buf x = buf)
  \/ (d = x /\ imsig x = true /\ qsend buf x = buf /\
      exists p, In p buf /\ imkey p = imkey x /\ imview x <= imview p)
  \/ (In d buf /\ imsig x = true /\ In x (qsend buf x) /\ ~ In d (qsend buf x) /\
      imkey x = imkey d /\ imview d < imview x).
Proof. intros ops x d buf. exact (dropped_cases buf x d (chan_inv_lemma ops)). Qed.
Print Assumptions C16_chan_keeps_freshest.

(* chan_keeps_freshest, history form: a message is destroyed only if its signature is invalid
   or, right after the send that destroyed it, a message of the same sender and kind with an
   equal or higher view is pending.  (A receive destroys nothing: hdrop only grows in sends.) *)
Theorem C16_drop_only_if : forall ops d, In d (hdrop (qrun ops)) ->
  imsig d = false \/
  exists ops1 x ops2 p, ops = ops1 ++ Send x :: ops2 /\
    In p (hbuf (qrun (ops1 ++ [Send x]))) /\ imkey p = imkey d /\ imview d <= imview p.
Proof. exact drop_only_if_lemma. Qed.
Print Assumptions C16_drop_only_if.

(* ... so for every (sender, kind) [k] the pending message is the highest-view validly signed
   message of [k] sent since a message of [k] was last handed to the consumer, the earliest
   one on ties; and nothing of [k] is pending iff nothing valid was sent since. *)
Theorem C16_pending_is_freshest : forall k ops,
  match pending_of k (hbuf (qrun ops)) with
  | None => since k ops = []
  | Some p => exists s1 s2, since k ops = s1 ++ p :: s2 /\
                (forall m, In m s1 -> imview m < imview p) /\
                (forall m, In m s2 -> imview m <= imview p)
  end.
Proof. exact pending_is_max_lemma. Qed.
Print Assumptions C16_pending_is_freshest.

(* chan_fifo: what the consumer received, followed by what is still pending, is a subsequence
   of what was sent: retained messages are delivered in arrival order.  Holds for the generic
   queue with any predicate and selection function. *)
Theorem C16_chan_fifo : forall ops,
  subseq (hrecv (qrun ops) ++ hbuf (qrun ops)) (hsent (qrun ops)).
Proof. exact (fifo_generic inbound_filter inbound_select). Qed.
Print Assumptions C16_chan_fifo.

(* accounting: every sent message is exactly one of received / pending / destroyed, so the
   destroyed ones characterised above are the only messages that never reach the consumer. *)
Theorem C16_chan_accounting : forall ops,
  Permutation (hsent (qrun ops)) (hrecv (qrun ops) ++ hbuf (qrun ops) ++ hdrop (qrun ops)).
Proof. exact (accounting_generic inbound_filter inbound_select). Qed.
Print Assumptions C16_chan_accounting.

(* The generic retain pass does contain the double discard: on a buffer that violates the
   invariant (views 1 and 5 of one sender and kind) sending view 3 loses both the old view-1
   message and the new one.  The model has the case; C16_no_double_discard shows the bft
   queue never reaches it. *)
Example C16_double_discard_outside_invariant :
  let m v i := {| imsender := 1; imkind := 1; imraw := v; imsig := true; imid := i |} in
  qsend_full [m 1 0; m 5 1] (m 3 2) = ([m 5 1], [m 1 0; m 3 2]).
Proof. reflexivity. Qed.

(* Non-vacuity: two senders; replacement by a newer vote, rejection of an older and of an
   equal one, an invalid signature, a proposal whose view is its certificate's view + 1, and
   two receives. *)
Example C16_nonvacuous :
  let m s k v g i := {| imsender := s; imkind := k; imraw := v; imsig := g; imid := i |} in
  let h := qrun [Send (m 1 1 5 true 0); Send (m 2 0 4 true 1); Send (m 1 1 7 true 2);
                 Send (m 1 1 6 true 3); Send (m 1 1 7 true 4); Send (m 1 1 9 false 5);
                 Recv; Send (m 2 0 3 true 7); Recv; Send (m 1 1 2 true 9)] in
  hrecv h = [m 2 0 4 true 1; m 1 1 7 true 2] /\
  hbuf h = [m 2 0 3 true 7; m 1 1 2 true 9] /\
  hdrop h = [m 1 1 5 true 0; m 1 1 6 true 3; m 1 1 7 true 4; m 1 1 9 false 5] /\
  since (1, 1) [Send (m 1 1 5 true 0); Send (m 1 1 7 true 2); Send (m 1 1 6 true 3)]
    = [m 1 1 5 true 0; m 1 1 7 true 2; m 1 1 6 true 3].
Proof. repeat split. Qed.
