(* C19, translator tie: the three closures that gossip/fetch.rs runs on the shared request map under
   watch::Sender::send_if_modified (Queue::request: insert / cancel; Queue::accept_block: take), as regenerated from
   the source on every run (Gen/Fetch.v), equal the corresponding pieces of the hand model Model/Fetch.v (actions
   RIns, RWakeCancel, ATake): which key is inserted / removed, what the acceptor gets, and when the watchers are
   notified ("iff the lowest requested block changed").  The code around the closures (the retry loop, the
   oneshot channel, the scope that waits for availability) is NOT translated: it is pinned by syntax hash. *)
From Coq Require Import ZArith List Lia Bool.
From EC Require Import Lib.Outcome Lib.U64 Lib.RustSem Lib.Obs Model.Fetch Proofs.GenTac.
From EC Require Import Gen.Fetch.
Import ListNotations.
Open Scope Z_scope.

(* RIns: the map after the insert and the notification flag *)
Theorem C19_generated_request_insert : forall chk q n c,
  gen_Queue_request_insert chk q n c = (qinsert n c q, Ok (is_min (qinsert n c q) n)).
Proof.
  intros chk q n c. unfold gen_Queue_request_insert, is_min. cbv zeta.
  unfold qinsert. cbn [qmin].
  destruct (qmin (qremove n q)) as [m|]; cbn [option_map unwrap slift sbind sret fst oz_eqb]; reflexivity.
Qed.
Print Assumptions C19_generated_request_insert.

(* RWakeCancel: notify iff n was the lowest key, then remove it *)
Theorem C19_generated_request_cancel : forall chk q n,
  gen_Queue_request_cancel chk q n = (qremove n q, Ok (is_min q n)).
Proof.
  intros chk q n. unfold gen_Queue_request_cancel, is_min. cbv zeta.
  destruct (qmin q) as [m|]; reflexivity.
Qed.
Print Assumptions C19_generated_request_cancel.

(* ATake: remove_entry(block_number); notify iff something was removed and requests remain *)
Theorem C19_generated_accept_take : forall chk q n res0,
  gen_Queue_accept_take chk q n res0 =
  (qremove n q, Ok (is_some (qlookup n q) && negb (qempty (qremove n q)), option_map (fun c => (n, c)) (qlookup n q))).
Proof.
  intros chk q n res0. unfold gen_Queue_accept_take. cbv zeta.
  destruct (qlookup n q); reflexivity.
Qed.
Print Assumptions C19_generated_accept_take.

Example C19_generated_fetch_example :
  gen_Queue_request_insert true [(5, (0%nat, 0%nat))] 3 (1%nat, 0%nat) = ([(3, (1%nat, 0%nat)); (5, (0%nat, 0%nat))], Ok true) /\
  gen_Queue_request_insert true [(5, (0%nat, 0%nat))] 7 (1%nat, 0%nat) = ([(7, (1%nat, 0%nat)); (5, (0%nat, 0%nat))], Ok false) /\
  gen_Queue_accept_take true [(5, (0%nat, 0%nat))] 5 None = ([], Ok (false, Some (5, (0%nat, 0%nat)))).
Proof. repeat split. Qed.
