(* C18, translator tie: the validator address book as regenerated from the source on every run (Gen/AddrBook.v:
   NetAddress::is_newer, ValidatorAddrs::{get, get_newer, update}, ValidatorAddrsWatch::{update, announce}) equals
   the hand model Model/AddrBook.v, for every book, batch, schedule and both overflow profiles.  The book
   (im::HashMap keyed by the entry's own key) is the model's key-ordered list; signatures are symbolic (H-SIG);
   the watch is read and published under its lock (H-ATOM), so an update is a function of the published book.
   If the source changes meaning (order of the checks in the loop, what is verified, when it is published),
   this file stops compiling. *)
From Coq Require Import ZArith List Lia Bool.
From EC Require Import Lib.Outcome Lib.U64 Lib.RustSem Lib.Obs Model.AddrBook Proofs.GenTac.
From EC Require Import Gen.AddrBook.
Import ListNotations.
Open Scope Z_scope.

Theorem C18_generated_is_newer : forall a b, gen_NetAddress_is_newer a b = is_newer a b.
Proof. intros a b. reflexivity. Qed.
Print Assumptions C18_generated_is_newer.

Theorem C18_generated_get : forall b k, gen_ValidatorAddrs_get b k = get k b.
Proof. reflexivity. Qed.
Print Assumptions C18_generated_get.

Lemma get_newer_fold : forall old l acc,
  fold_left (fun newer '(k, v) =>
               match get k old with
               | Some bv => if negb (gen_NetAddress_is_newer (emsg v) (emsg bv)) then newer else newer ++ [v]
               | None => newer ++ [v]
               end) (map (fun e => (ekey e, e)) l) acc
  = acc ++ filter (fun v => match get (ekey v) old with Some bv => is_newer (emsg v) (emsg bv) | None => true end) l.
Proof.
  intros old l. induction l as [|v l IH]; intros acc; [rewrite app_nil_r; reflexivity|].
  cbn [map fold_left filter]. rewrite IH.
  destruct (get (ekey v) old) as [bv|]; [rewrite C18_generated_is_newer; destruct (is_newer (emsg v) (emsg bv))|]; cbn [negb];
    rewrite <- ?app_assoc; reflexivity.
Qed.

Theorem C18_generated_get_newer : forall new old, gen_ValidatorAddrs_get_newer new old = get_newer new old.
Proof.
  intros new old. unfold gen_ValidatorAddrs_get_newer, get_newer. cbv zeta.
  pose proof (get_newer_fold old new []) as H. cbn [app] in H. rewrite <- H. reflexivity.
Qed.
Print Assumptions C18_generated_get_newer.

(* the loop of ValidatorAddrs::update from any intermediate state *)
Lemma update_fold : forall c data b changed done,
  sbind (sfold (fun s '(ch, dn) d =>
           if existsb (Z.eqb (ekey d)) dn then sfail s EDuplicate
           else let dn1 := ekey d :: dn in
                if negb (mem (ekey d) c) then sret s (ch, dn1)
                else match get (ekey d) s with
                     | Some x =>
                         if negb (gen_NetAddress_is_newer (emsg d) (emsg x)) then sret s (ch, dn1)
                         else sbind (slift s (if verify d then Ok tt else Err EBadSig)) (fun s _ => let s := put d s in let ch1 := true in sret s (ch1, dn1))
                     | None => sbind (slift s (if verify d then Ok tt else Err EBadSig)) (fun s _ => let s := put d s in let ch1 := true in sret s (ch1, dn1))
                     end) data b (changed, done))
        (fun s '(ch, _) => sret s ch)
  = update_loop c data done b changed.
Proof.
  intros c data. induction data as [|d data IH]; intros b changed done; [reflexivity|].
  cbn [sfold update_loop]. change (mem (ekey d) done) with (existsb (Z.eqb (ekey d)) done).
  destruct (existsb (Z.eqb (ekey d)) done); [reflexivity|].
  cbv zeta. destruct (negb (mem (ekey d) c)).
  - cbn [sbind sret]. apply IH.
  - destruct (get (ekey d) b) as [x|]; [rewrite C18_generated_is_newer; destruct (negb (is_newer (emsg d) (emsg x)))|];
      try (cbn [sbind sret]; apply IH);
      destruct (verify d); cbn [sbind slift sret sfail]; try reflexivity; apply IH.
Qed.

Theorem C18_generated_update : forall chk c data b,
  gen_ValidatorAddrs_update chk b c data = update c data b.
Proof.
  intros chk c data b. unfold gen_ValidatorAddrs_update, update. cbv zeta.
  pose proof (update_fold c data b false []) as H. cbv zeta in H. exact H.
Qed.
Print Assumptions C18_generated_update.

Theorem C18_generated_update_watch : forall chk c data pub,
  gen_ValidatorAddrsWatch_watch_update chk pub c data = update_watch c data pub.
Proof.
  intros chk c data pub. unfold gen_ValidatorAddrsWatch_watch_update, update_watch. cbv zeta.
  rewrite C18_generated_update. destruct (update c data pub) as [w r]. cbn [fst snd].
  destruct r as [[|]|e|p]; reflexivity.
Qed.
Print Assumptions C18_generated_update_watch.

Theorem C18_generated_announce : forall chk k addr ts pub,
  gen_ValidatorAddrsWatch_announce chk pub k addr ts = announce chk k addr ts pub.
Proof.
  intros chk k addr ts pub. unfold gen_ValidatorAddrsWatch_announce, announce, gen_ValidatorAddrs_get. cbv zeta.
  destruct (get k pub) as [x|]; cbn [option_map_m]; [|reflexivity].
  destruct (u64_add chk (na_version (emsg x)) 1) as [v|e|p]; reflexivity.
Qed.
Print Assumptions C18_generated_announce.

(* non-vacuity: an entry with a forged signature is rejected even when the book has no entry for its key *)
Example C18_generated_update_example :
  let good := sign 1 {| na_addr := 7; na_version := 0; na_ts := 5 |} in
  let forged := {| ekey := 2; emsg := {| na_addr := 9; na_version := 0; na_ts := 5 |};
                   esig := {| sg_key := 3; sg_msg := {| na_addr := 9; na_version := 0; na_ts := 5 |} |} |} in
  gen_ValidatorAddrs_update true [] [1; 2] [good; forged] = ([good], Err EBadSig) /\
  gen_ValidatorAddrsWatch_watch_update true [] [1; 2] [good; forged] = ([], Err EBadSig) /\
  gen_ValidatorAddrsWatch_watch_update true [] [1; 2] [good] = ([good], Ok tt).
Proof. repeat split. Qed.
