(* C14 — Multiplexed streams are isolated, ordered and flow-controlled.
   Statements only; proofs are in Proofs/MuxProofs.v; the model is Model/MuxHeader.v + Model/Mux.v
   (tied to node/components/network/src/mux/*.rs by the differential check of gen/c14.py). *)
From Coq Require Import ZArith List Bool Lia Sorting.Sorted.
From EC Require Import Lib.Outcome Lib.Obs Model.MuxHeader Model.Mux Proofs.MuxProofs Proofs.MuxRefine Proofs.MuxControl Proofs.MuxWire Proofs.MuxPair Proofs.MuxHandles.
Import ListNotations.
Open Scope Z_scope.

(* ---- header: the three fields partition the 16 bits; checked for every one of the 2^16 values ---- *)
Theorem C14_header_roundtrip : forall h, 0 <= h < 65536 ->
  header_new (frame_kind h) (stream_kind h) (stream_id h) = Ok h /\
  frame_kind h + stream_kind h + stream_id h = h /\
  (exists b0 b1, header_raw h = [b0; b1] /\ 0 <= b0 < 256 /\ 0 <= b1 < 256 /\ header_of_bytes b0 b1 = h) /\
  (stream_kind h = SK_ACCEPT \/ stream_kind h = SK_CONNECT) /\
  0 <= stream_id h <= ID_MASK.
Proof. exact header_roundtrip_all. Qed.
Print Assumptions C14_header_roundtrip.

Theorem C14_header_fields : forall fk sk id,
  In fk [FK_OPEN; FK_DATA; FK_CLOSE] -> In sk [SK_ACCEPT; SK_CONNECT] -> 0 <= id <= ID_MASK ->
  exists h, header_new fk sk id = Ok h /\ h = fk + sk + id /\ 0 <= h < 65536 /\
            frame_kind h = fk /\ stream_kind h = sk /\ stream_id h = id.
Proof. exact header_fields_roundtrip. Qed.
Print Assumptions C14_header_fields.

(* after repair e65da50 the match on the frame kind is total: 0xC000 is a Protocol error *)
Theorem C14_frame_kind_total : forall h, 0 <= h < 65536 ->
  match classify h with
  | KOpen => frame_kind h = FK_OPEN | KData => frame_kind h = FK_DATA
  | KClose => frame_kind h = FK_CLOSE | KBad => frame_kind h = FK_BAD
  end.
Proof. exact frame_kind_total. Qed.
Print Assumptions C14_frame_kind_total.

(* ---- partition: both sides compute the same stream-id -> capability table, for every pair of
   announced limit maps (given in any order); my CONNECT table is the peer's ACCEPT table ---- *)
Theorem C14_partition_agrees : forall (my_connect peer_accept : list (Z * Z)),
  expand (alloc (bt_of_list my_connect) (bt_of_list peer_accept)) =
  expand (alloc (bt_of_list peer_accept) (bt_of_list my_connect)).
Proof. intros. apply alloc_agrees; apply bt_of_list_sorted. Qed.
Print Assumptions C14_partition_agrees.

(* the number of reusable (hence of concurrently open transient) streams of a capability is
   min(local limit, peer limit), 0 when either side does not list the capability *)
Theorem C14_streams_per_capability : forall mine peer c,
  Z.of_nat (count_occ Z.eq_dec (expand (alloc (bt_of_list mine) peer)) c) =
  Z.max 0 (Z.min (lookup_def (bt_of_list mine) c) (lookup_def peer c)).
Proof. intros. apply streams_per_capability. apply bt_of_list_sorted. Qed.
Print Assumptions C14_streams_per_capability.

(* a configuration accepted by Mux::verify never makes StreamId::new panic in spawn_streams *)
Theorem C14_stream_ids_fit : forall c acc con peer,
  mux_verify c acc con = true -> Forall (fun v => 0 <= v) (map snd acc) -> Forall (fun v => 0 <= v) (map snd con) ->
  spawn_ids_ok (alloc acc peer) = true /\ spawn_ids_ok (alloc con peer) = true.
Proof. exact spawn_ids_in_range. Qed.
Print Assumptions C14_stream_ids_fit.

(* ---- routing: a frame is delivered to exactly the opposite end of the stream named in its header;
   a header naming a stream outside the partition, or the unassigned kind, ends the run with Protocol ---- *)
Theorem C14_routing : forall c na nc d d' k i f, dstep c na nc d = DDeliver d' k i f ->
  exists h, (d_st d = DAcq0 h /\ f = mkFrame (frame_kind h) [] 0 /\ d_in d' = d_in d
             \/ exists len size, d_st d = DChunk h len size /\ fkind f = FK_DATA /\ fsize f = size /\
                                 d_in d = fdata f ++ d_in d' /\ length (fdata f) = Z.to_nat size) /\
            k = (if stream_kind h =? SK_ACCEPT then 1 else 0) /\ i = Z.to_nat (stream_id h).
Proof. exact dstep_routing. Qed.
Print Assumptions C14_routing.

Theorem C14_bad_header_is_protocol_error : forall c na nc d b0 b1 rest,
  d_st d = DHdr -> d_in d = b0 :: b1 :: rest ->
  let h := header_of_bytes b0 b1 in
  let n := if stream_kind h =? SK_ACCEPT then nc else na in
  (Z.of_nat n <= stream_id h \/ classify h = KBad ->
     dstep c na nc d = DFailed (take_bytes d 2 rest DStop) ERR_PROTOCOL) /\
  (stream_id h < Z.of_nat n -> classify h <> KBad ->
     exists st, dstep c na nc d = DProgress (take_bytes d 2 rest st) /\ (st = DAcq0 h \/ st = DLen h)).
Proof. exact dstep_header. Qed.
Print Assumptions C14_bad_header_is_protocol_error.

Theorem C14_transport_fifo : forall c na nc d d', dres_core (dstep c na nc d) = Some d' ->
  exists taken, d_in d = taken ++ d_in d' /\ d_received d' = d_received d.
Proof. exact dstep_fifo. Qed.
Print Assumptions C14_transport_fifo.

(* ---- isolation inside an endpoint: a delivered frame changes only the addressed stream, and whatever
   one reusable stream does (discarding, serving its reader, queueing, hand-over) leaves every other
   stream's queue, cache, close flag, buffer and pending read untouched ---- *)
Theorem C14_deliver_isolated : forall e k i f k' i', other k i k' i' ->
  get_stream (deliver e k i f) k' i' = get_stream e k' i'.
Proof. exact deliver_isolated. Qed.
Print Assumptions C14_deliver_isolated.

Theorem C14_stream_step_isolated : forall e k i e' k' i', stream_step e k i = Some e' -> other k i k' i' ->
  get_stream e' k' i' = get_stream e k' i'.
Proof. exact stream_step_isolated. Qed.
Print Assumptions C14_stream_step_isolated.

(* ---- flow control, against ANY peer: whatever bytes arrive and in whatever order the holders of
   frames consume, drop or partially consume them, the payload held by the multiplexer never exceeds
   read_buffer_size, the number of held frames never exceeds read_frame_count, no frame exceeds
   read_frame_size, and the dispatcher itself holds at most one chunk, already paid for ---- *)
Theorem C14_buffer_bounded : forall c na nc x,
  0 <= rfs c -> 0 <= rbs c -> 0 <= rfc c -> fc_steps c na nc (fc_init c) x ->
  sum_data (fc_held x) + infl_s (d_st (fc_d x)) <= rbs c /\
  Z.of_nat (length (fc_held x)) + infl_c (d_st (fc_d x)) <= rfc c /\
  Forall (fun f => Z.of_nat (length (fdata f)) <= rfs c) (fc_held x) /\
  0 <= infl_s (d_st (fc_d x)) <= rfs c.
Proof. exact buffer_bounded_lts. Qed.
Print Assumptions C14_buffer_bounded.

(* ---- read half: read_exact hands out the queued payload bytes in order, without loss or
   duplication; it reports end-of-stream only after a CLOSE; what follows a CLOSE is invisible ---- *)
Theorem C14_read_in_order : forall s p s' rel done,
  s_pread s = Some p -> cache_ok s -> read_iter_s s p = RStep s' rel done ->
  exists p', s_pread s' = Some p' /\ got p' ++ avail s' = got p ++ avail s /\ cache_ok s' /\
             pr_want p' = pr_want p /\ pr_slot p' = pr_slot p.
Proof. exact read_iter_preserves. Qed.
Print Assumptions C14_read_in_order.

Theorem C14_eos_only_after_close : forall s p s' rel, read_iter_s s p = RStep s' rel true ->
  s_closed s = true \/ exists p', s_pread s' = Some p' /\ pr_len p' = pr_want p.
Proof. exact read_done_eos. Qed.
Print Assumptions C14_eos_only_after_close.

Theorem C14_after_close_invisible : forall q1 f q2 r, fkind f = FK_CLOSE ->
  q_bytes (q1 ++ f :: q2 ++ r) = q_bytes (q1 ++ f :: q2).
Proof. exact q_bytes_after_close. Qed.
Print Assumptions C14_after_close_invisible.

Theorem C14_arrivals_extend_in_order : forall q r, no_close q -> q_bytes (q ++ r) = q_bytes q ++ q_bytes r.
Proof. exact q_bytes_app_open. Qed.
Print Assumptions C14_arrivals_extend_in_order.

(* ---- write half: the DATA payloads handed to the writer task, followed by the buffer, are the
   bytes written, in order; every frame is exactly write_frame_size long (<= it after a flush) ---- *)
Theorem C14_write_framing : forall wfsz buf data frames buf',
  0 < wfsz -> Z.of_nat (length buf) <= wfsz -> write_all wfsz buf data = (frames, buf') ->
  concat frames ++ buf' = buf ++ data /\
  Forall (fun f => Z.of_nat (length f) = wfsz) frames /\ Z.of_nat (length buf') <= wfsz.
Proof. exact write_all_spec. Qed.
Print Assumptions C14_write_framing.

(* ======================================================================================
   The composed system.  [reachable raw a b s]: s is the quiescent state of the two-sided system
   (or of one endpoint B against an arbitrary raw peer when raw = true) after the start-up and any
   list of application operations / raw byte injections, each followed by the drain to quiescence.
   ====================================================================================== *)

(* (1) refinement: in every reachable state each endpoint of the executable model is a reachable state
   of the flow-control transition system of C14_buffer_bounded (same dispatcher step function), and
   the dispatcher only ever works on a header naming an existing stream *)
Theorem C14_endpoint_refines : forall raw a b s, reachable raw a b s ->
  ep_ok (sB s) /\ e_cfg (sB s) = sd_cfg b /\ ep_ok (sA s) /\ (raw = false -> e_cfg (sA s) = sd_cfg a).
Proof. exact reachable_refines. Qed.
Print Assumptions C14_endpoint_refines.

(* hence buffer_bounded holds for the executable endpoint: any script of the application, any byte
   sequence of a raw peer (bytes are octets: the transport reduces whatever is written mod 256) *)
Theorem C14_endpoint_buffer_bounded : forall raw a b s, cfg_nonneg (sd_cfg b) -> reachable raw a b s ->
  sum_data (ep_held (sB s)) + infl_s (d_st (e_d (sB s))) <= rbs (sd_cfg b) /\
  Z.of_nat (length (ep_held (sB s))) + infl_c (d_st (e_d (sB s))) <= rfc (sd_cfg b) /\
  Forall (fun f => Z.of_nat (length (fdata f)) <= rfs (sd_cfg b)) (ep_held (sB s)).
Proof. exact endpoint_buffer_bounded. Qed.
Print Assumptions C14_endpoint_buffer_bounded.

Theorem C14_endpoint_buffer_bounded_A : forall a b s, cfg_nonneg (sd_cfg a) -> reachable false a b s ->
  sum_data (ep_held (sA s)) + infl_s (d_st (e_d (sA s))) <= rbs (sd_cfg a) /\
  Z.of_nat (length (ep_held (sA s))) + infl_c (d_st (e_d (sA s))) <= rfc (sd_cfg a) /\
  Forall (fun f => Z.of_nat (length (fdata f)) <= rfs (sd_cfg a)) (ep_held (sA s)).
Proof. exact endpoint_buffer_bounded_A. Qed.
Print Assumptions C14_endpoint_buffer_bounded_A.

(* (2) at most one transient stream per reusable stream: two application handles that both still hold
   a half of the same reusable stream are the same handle *)
Theorem C14_one_transient_per_stream : forall raw a b s r1 r2 i, reachable raw a b s ->
  In r1 (e_slots (sB s)) -> In r2 (e_slots (sB s)) -> sl_sid r1 = Some i -> sl_sid r2 = Some i ->
  (sl_kind r1 =? 0) = (sl_kind r2 =? 0) -> live r1 = true -> live r2 = true -> r1 = r2.
Proof.
  intros raw a b s r1 r2 i Hr. destruct (reachable_K raw a b s Hr) as [_ HB]. apply one_transient_per_stream. exact HB.
Qed.
Print Assumptions C14_one_transient_per_stream.

Theorem C14_one_transient_per_stream_A : forall raw a b s r1 r2 i, reachable raw a b s ->
  In r1 (e_slots (sA s)) -> In r2 (e_slots (sA s)) -> sl_sid r1 = Some i -> sl_sid r2 = Some i ->
  (sl_kind r1 =? 0) = (sl_kind r2 =? 0) -> live r1 = true -> live r2 = true -> r1 = r2.
Proof.
  intros raw a b s r1 r2 i Hr. destruct (reachable_K raw a b s Hr) as [HA _]. apply one_transient_per_stream. exact HA.
Qed.
Print Assumptions C14_one_transient_per_stream_A.

(* open_streams_bounded for the composed system: the handles that hold a half of a stream of
   capability c on queue kind k (0 = accept queue, otherwise connect queue) number at most
   min(local limit, limit announced by the peer); 0 if either side does not list c *)
Theorem C14_open_streams_bounded : forall raw a b s k c, reachable raw a b s ->
  Z.of_nat (length (open_transient (sB s) k c)) <=
  Z.max 0 (Z.min (lookup_def (bt_of_list (if k =? 0 then sd_acc b else sd_con b)) c)
                 (lookup_def (if k =? 0 then (if raw then sd_con a else bt_of_list (sd_con a))
                              else (if raw then sd_acc a else bt_of_list (sd_acc a))) c)).
Proof. exact open_streams_bounded. Qed.
Print Assumptions C14_open_streams_bounded.

Theorem C14_open_streams_bounded_A : forall a b s k c, reachable false a b s ->
  Z.of_nat (length (open_transient (sA s) k c)) <=
  Z.max 0 (Z.min (lookup_def (bt_of_list (if k =? 0 then sd_acc a else sd_con a)) c)
                 (lookup_def (bt_of_list (if k =? 0 then sd_con b else sd_acc b)) c)).
Proof. exact open_streams_bounded_A. Qed.
Print Assumptions C14_open_streams_bounded_A.

(* ======================================================================================
   End to end, stage (i)/(ii): the byte wire.  [lframe] = a logical frame (header, payload), [ser] its
   bytes, tokens (TO / TC / TB b) the chunking-insensitive meaning of a frame sequence.
   ====================================================================================== *)

(* serialisation is uniquely decodable: a reference parser recovers the frames from the concatenated bytes *)
Theorem C14_wire_parse : forall na nc fs fuel, Forall (lf_ok na nc) fs -> (length fs <= fuel)%nat ->
  parse fuel (concat (map ser fs)) = Some fs.
Proof. exact parse_ser. Qed.
Print Assumptions C14_wire_parse.

(* the dispatcher as an incremental parser, for any chunking of the byte stream ([wout] = the bytes that
   have not arrived yet): on a well-formed wire a step never fails; it leaves the tokens pending for
   every stream unchanged, and a frame it hands to stream (k, i) carries exactly the tokens removed from
   the front of what was pending for (k, i) - hence the frames delivered to a stream are the frames
   addressed to it, in order, and nothing addressed elsewhere *)
Theorem C14_dispatcher_parses : forall c na nc d wout p rest,
  0 <= rfs c -> wire_ok na nc d wout p rest ->
  match dstep c na nc d with
  | DBlocked => True
  | DFailed _ _ => False
  | DProgress d' => exists p' rest', wire_ok na nc d' wout p' rest' /\
                      forall k i, pend k i d' p' rest' = pend k i d p rest
  | DDeliver d' k i f => exists p' rest', wire_ok na nc d' wout p' rest' /\
                      (k = tk match d_st d with DAcq0 h | DChunk h _ _ => h | _ => 0 end) /\
                      (i = ti match d_st d with DAcq0 h | DChunk h _ _ => h | _ => 0 end) /\
                      ((k = 0 /\ (i < na)%nat) \/ (k = 1 /\ (i < nc)%nat)) /\
                      pend k i d p rest = ftoks f ++ pend k i d' p' rest' /\
                      (forall k' i', selh k' i' match d_st d with DAcq0 h | DChunk h _ _ => h | _ => 0 end = false ->
                                     pend k' i' d' p' rest' = pend k' i' d p rest) /\
                      (fkind f = FK_OPEN \/ fkind f = FK_CLOSE \/ fkind f = FK_DATA)
  end.
Proof. exact dstep_wire. Qed.
Print Assumptions C14_dispatcher_parses.

(* ======================================================================================
   End to end, stage (ii)/(iii): the pair of multiplexers.  [side_ok x]: the configuration passes
   Mux::verify, 1 <= write_frame_size <= 65535, 0 <= read_frame_size, limits >= 0.
   [pinv s] (Proofs/MuxPair.v): for each direction and each pair of reusable streams,
   (tokens S's stream has sent after the OPENs R's stream consumed) = (tokens R's stream took since)
   ++ (tokens in flight: R's queue and cache, the frame the dispatcher works on, the transport).
   ====================================================================================== *)
Theorem C14_pair_invariant : forall a b s, side_ok a -> side_ok b -> reachable false a b s -> pinv s.
Proof. exact reachable_pinv. Qed.
Print Assumptions C14_pair_invariant.

(* two multiplexers with accepted configurations never end each other's run with an error *)
Theorem C14_pair_never_fails : forall a b s, side_ok a -> side_ok b -> reachable false a b s ->
  e_fail (sA s) = None /\ e_fail (sB s) = None.
Proof. exact pair_never_fails. Qed.
Print Assumptions C14_pair_never_fails.

(* per incarnation: while R's read half (stream (opp ks, i)) is held by the reader let in on the n-th
   OPEN, the bytes read_exact has taken are a prefix of the payload S's stream (ks, i) handed to its
   writer task for ITS n-th incarnation (writer: handle w); after end-of-stream they are all of it and
   that incarnation is closed.  Data of no other stream, handle or incarnation can appear. *)
Theorem C14_stream_isolation_and_order : forall a b s ks i ss sr,
  side_ok a -> side_ok b -> reachable false a b s ->
  (get_stream (sA s) ks i = Some ss /\ get_stream (sB s) (opp ks) i = Some sr \/
   get_stream (sB s) ks i = Some ss /\ get_stream (sA s) (opp ks) i = Some sr) ->
  s_rph sr = RApp ->
  exists w cs, nth_error (rev (g_wlog (s_g ss))) (pred (g_rn (s_g sr))) = Some (w, cs) /\
    is_prefix (rdb sr) (chunks_bytes cs) /\
    (s_closed sr = true -> rdb sr = chunks_bytes cs /\
        ((g_rn (s_g sr) < length (g_wlog (s_g ss)))%nat \/ wclosed ss = true)).
Proof. exact stream_isolation_and_order. Qed.
Print Assumptions C14_stream_isolation_and_order.

(* ======================================================================================
   End to end, stage (iv): the handles of the two applications (Proofs/MuxHandles.v).
   Ghost histories: [returned r] = the bytes the completed reads of handle r have returned (in order),
   [pendb sr] = the chunks of its read in progress, [wdata w n] = the first n bytes of the data of
   handle w (the model's applications write [data_byte w k] at offset k; [sl_woff rw] = number of
   bytes written through rw so far).  [ep s true] = side A, [ep s false] = side B.
   In EVERY reachable state of the pair (settle scheduler, any script of application operations),
   for a live reader handle r of either side on reusable stream (kind, i):
     - there is ONE handle rw of the OTHER side, of the opposite queue kind, writer of the incarnation
       of the paired stream (opp kind, i) that r was let in on (the n-th OPEN <-> the n-th entry of
       the writer log);
     - the bytes r's reads returned, plus those of the read in progress, are a prefix of the bytes the
       writer task took for that incarnation, themselves a prefix of what the application wrote
       through rw: in order, nothing lost, nothing duplicated, nothing of any other handle, stream
       or incarnation;
     - once a read of r reported end of stream: nothing is pending, r has returned exactly ALL bytes
       written through rw, and rw's write half is closed.
   ====================================================================================== *)
Theorem C14_handle_isolation_and_order : forall a b s (rd : bool) r i sr,
  side_ok a -> side_ok b -> reachable false a b s ->
  In r (e_slots (ep s rd)) -> sl_r r = true -> sl_sid r = Some i -> get_stream (ep s rd) (sl_kind r) i = Some sr ->
  exists ss w cs rw,
    get_stream (ep s (negb rd)) (opp (sl_kind r)) i = Some ss /\
    nth_error (rev (g_wlog (s_g ss))) (pred (g_rn (s_g sr))) = Some (w, cs) /\
    In rw (e_slots (ep s (negb rd))) /\ sl_id rw = w /\ (sl_kind rw =? 0) = (opp (sl_kind r) =? 0) /\
    returned r ++ pendb sr = rdb sr /\
    is_prefix (rdb sr) (chunks_bytes cs) /\ is_prefix (chunks_bytes cs) (wdata w (sl_woff rw)) /\
    is_prefix (returned r) (wdata w (sl_woff rw)) /\
    (g_eos (sl_g r) = true -> pendb sr = [] /\ returned r = wdata w (sl_woff rw) /\ sl_w rw = false).
Proof. exact handle_isolation_and_order. Qed.
Print Assumptions C14_handle_isolation_and_order.

(* the invariant behind it, for every reachable state: pinv +, per endpoint, identity bookkeeping of
   handles (SU), reader links (RL), writer links (WL, WC) and the end-of-stream link (RE) *)
Theorem C14_handle_invariant : forall a b s, side_ok a -> side_ok b -> reachable false a b s -> hinv s.
Proof. exact reachable_hinv. Qed.
Print Assumptions C14_handle_invariant.

(* the two reusable streams of a pair carry the same capability (both sides derive the same table from
   the two limit maps, and no transition changes it): the counterpart of a handle sits on a queue of
   the same capability, of the opposite kind (a handle is only ever handed a stream of the capability
   of the queue it waits on: invariant K, field K3, and queue_step) *)
Theorem C14_paired_streams_same_capability : forall a b s ks i ss sr, side_ok a -> side_ok b -> reachable false a b s ->
  (get_stream (sA s) ks i = Some ss /\ get_stream (sB s) (opp ks) i = Some sr \/
   get_stream (sB s) ks i = Some ss /\ get_stream (sA s) (opp ks) i = Some sr) ->
  s_cap ss = s_cap sr.
Proof. exact paired_streams_same_capability. Qed.
Print Assumptions C14_paired_streams_same_capability.

(* non-vacuity of stage (iv): in the worked example, after the writer closed, handle 2 of side B is a
   live reader that has seen end of stream and has returned exactly the 500 bytes of handle 1 of side A *)
Example C14_handles_nonvacuous :
  let a := mkSide (mkCfg 100 1000 10 150) [(0, 2)] [(0, 2); (3, 1)] in
  let b := mkSide (mkCfg 80 800 7 79) [(0, 3); (3, 1)] [(0, 1)] in
  let ops := [OOpen 0 1 0 1; OOpen 1 0 0 2; OWrite 1 500; ORead 2 100; OFlush 1; ORead 2 500; ODropW 1] in
  let s := fold_left step_sys ops (sys_start false a b) in
  side_ok a /\ side_ok b /\ reachable false a b s /\
  exists r rw, In r (e_slots (ep s false)) /\ sl_id r = 2 /\ sl_r r = true /\ g_eos (sl_g r) = true /\
    In rw (e_slots (ep s true)) /\ sl_id rw = 1 /\ sl_w rw = false /\ sl_woff rw = 500 /\
    returned r = wdata 1 500.
Proof.
  cbv zeta.
  assert (Hs : forall c acc con, mux_verify c (bt_of_list acc) (bt_of_list con) = true -> cfg_ok c ->
     forallb (fun v => 0 <=? v) (map snd (bt_of_list acc)) = true -> forallb (fun v => 0 <=? v) (map snd (bt_of_list con)) = true ->
     side_ok (mkSide c acc con)).
  { intros c acc con A B C D. unfold side_ok. cbn [sd_cfg sd_acc sd_con]. split; [exact A|]. split; [exact B|].
    split; apply Forall_forall; intros v Hv; [rewrite forallb_forall in C; specialize (C v Hv)|rewrite forallb_forall in D; specialize (D v Hv)]; apply Z.leb_le; assumption. }
  split; [apply Hs; [vm_compute; reflexivity|unfold cfg_ok; cbn; lia|vm_compute; reflexivity|vm_compute; reflexivity]|].
  split; [apply Hs; [vm_compute; reflexivity|unfold cfg_ok; cbn; lia|vm_compute; reflexivity|vm_compute; reflexivity]|].
  split; [eexists; reflexivity|].
  vm_compute. do 2 eexists. split; [left; reflexivity|]. repeat split; try reflexivity. left; reflexivity. reflexivity. reflexivity. reflexivity.
Qed.

(* ---- what remains of the full statement: NOT proved (see `partial` in evidence/C14.json) ----
   C14_handle_isolation_and_order is the full statement as an invariant of the STATES of the pair
   system, on ghost histories.  The statement below is its rephrasing on the OBSERVATIONS of a script
   ([slot; 1; want; len; hash] events).  Between the two, not formalised:
     - the event emitted by complete_read carries the length and hash of exactly the chunk it appends
       to [g_rd] (same transition; immediate, but the collection of events over rounds is not proved);
     - a handle whose read half has been dropped keeps its history (the links are stated for live
       readers; nothing writes [g_rd] afterwards, not proved);
     - the two handles were opened on queues of the SAME capability: proved for the paired reusable
       streams (C14_paired_streams_same_capability) and opposite kinds; that a handle only receives a
       stream of the capability it asked for is K3 + queue_step, but handles do not record the
       capability they were opened with, so the end-to-end sentence is not a theorem;
     - configurations outside [side_ok] (e.g. write_frame_size = 0, refused or degenerate);
     - the scheduler: [settle] runs both endpoints to quiescence after every operation. *)
Definition ev_read (o : obsv) : list (Z * Z * Z * Z) :=
  match o with OL [OZ s; OZ 1; OZ w; OZ l; OZ h] => [(s, w, l, h)] | _ => [] end.
Definition round_reads (o : obsv) : list (Z * Z * Z * Z) :=
  match o with OL (OL evs :: _) => flat_map ev_read evs | _ => [] end.
Definition all_reads (o : obsv) : list (Z * Z * Z * Z) :=
  match o with OL rounds => flat_map round_reads rounds | _ => [] end.
Definition reads_of (slot : Z) (l : list (Z * Z * Z * Z)) : list (Z * Z * Z * Z) :=
  filter (fun x => fst (fst (fst x)) =? slot) l.
Definition C14_remaining_isolation_and_order : Prop :=
  forall a b ops slot,
    let rs := reads_of slot (all_reads (run_script false a b ops)) in
    rs <> [] ->
    exists side kind cap side' kind' w,
      In (OOpen side kind cap slot) ops /\ In (OOpen side' kind' cap w) ops /\ side <> side' /\ (kind =? 0) <> (kind' =? 0) /\
      forall pre x post, rs = pre ++ x :: post ->
        let off := fold_right (fun y acc => snd (fst y) + acc) 0 pre in
        snd x = hash_bytes (gen_bytes (data_byte w) off (snd (fst x))).

(* observation form of the full property; its state form is C14_handle_isolation_and_order (proved) *)
Definition C14_full : Prop := C14_remaining_isolation_and_order.

(* non-vacuity of the system-level theorems: a reachable state in which B's application holds one
   transient stream on its accept queue of capability 0 and frames are buffered for it *)
Example C14_reachable_nonvacuous :
  let a := mkSide (mkCfg 100 1000 10 150) [(0, 2)] [(0, 2); (3, 1)] in
  let b := mkSide (mkCfg 80 800 7 79) [(0, 3); (3, 1)] [(0, 1)] in
  let ops := [OOpen 0 1 0 1; OOpen 1 0 0 2; OWrite 1 500; OFlush 1] in
  let s := fold_left step_sys ops (sys_start false a b) in
  reachable false a b s /\ length (open_transient (sB s) 0 0) = 1%nat /\ sum_data (ep_held (sB s)) = 500.
Proof. split; [eexists; reflexivity|]. vm_compute. split; reflexivity. Qed.

(* ---- non-vacuity: the worked example of the module documentation runs in the model: both ends
   open, 500 bytes written, a 100-byte read completes with the first 100 bytes, the remaining 400
   and end-of-stream are seen after the writer closes ---- *)
Example C14_nonvacuous :
  let a := mkSide (mkCfg 100 1000 10 150) [(0, 2)] [(0, 2); (3, 1)] in
  let b := mkSide (mkCfg 80 800 7 79) [(0, 3); (3, 1)] [(0, 1)] in
  let ops := [OOpen 0 1 0 1; OOpen 1 0 0 2; OWrite 1 500; ORead 2 100; OFlush 1; ORead 2 500; ODropW 1] in
  exists o1 o2 o3 o4 o5 o6 o7 o8,
    run_script false a b ops = OL [o1; o2; o3; o4; o5; o6; o7; o8] /\
    o3 = OL [OL [ozs [1; 0]; ozs [2; 0]]; OL []; OL [ozs [0]]; OZ 10; OZ 10; OL []] /\
    o5 = OL [OL [ozs [2; 1; 100; 100; hash_bytes (gen_bytes (data_byte 1) 0 100)]]; OL []; OL []; OZ 10; OZ 472; OL []] /\
    o8 = OL [OL [ozs [2; 1; 500; 400; hash_bytes (gen_bytes (data_byte 1) 100 400)]]; OL [ozs [40960]]; OL []; OZ 10; OZ 528; OL []].
Proof. vm_compute. do 8 eexists. split; [reflexivity|]. repeat split; reflexivity. Qed.

Example C14_flow_control_nonvacuous :
  let c := mkCfg 100 150 2 10 in
  exists x, fc_steps c 1 1 (fc_init c) x /\ length (fc_held x) = 1%nat /\ sum_data (fc_held x) = 100.
Proof.
  set (c := mkCfg 100 150 2 10).
  set (bs := [0; 96; 120; 0] ++ repeat 7 120).   (* DATA|CONNECT|0, length 120 *)
  assert (Hb : Forall is_byte bs).
  { apply Forall_forall. intros x Hx.
    assert (H : forallb (fun b => (0 <=? b) && (b <? 256)) bs = true) by (vm_compute; reflexivity).
    rewrite forallb_forall in H. specialize (H x Hx). apply andb_prop in H. destruct H as [H1 H2].
    apply Z.leb_le in H1. apply Z.ltb_lt in H2. unfold is_byte. lia. }
  eexists. split.
  - eapply FcTrans; [eapply FcTrans; [eapply FcTrans; [eapply FcTrans; [eapply FcTrans; [apply FcRefl|]|]|]|]|].
    + apply (FcFeed c 1 1 _ bs).
    + apply FcProgress. vm_compute. reflexivity.
    + apply FcProgress. vm_compute. reflexivity.
    + apply FcProgress. vm_compute. reflexivity.
    + eapply (FcDeliver c 1 1 _ _ _ _ _ [] []); [vm_compute; reflexivity|reflexivity].
  - vm_compute. split; reflexivity.
Qed.
