(* C04 (timeout certificates) — incremental assembly of a TimeoutQC (TimeoutQC::add) produces
   exactly the certificates that verify once the accepted signers reach the quorum.
   Statements only (proofs: Proofs/TqcAssembly.v).  Signatures are symbolic (H-SIG): the
   aggregate is the multiset of (signer, message) pairs aggregated into it. *)
From Coq Require Import ZArith List Permutation.
From EC Require Import Lib.Outcome Lib.ListW Model.Msgs Proofs.QCProofs Proofs.TqcAssembly.
Import ListNotations.
Open Scope Z_scope.

(* adding a timeout vote: accepted iff member, listed under no entry yet, valid signature over its
   own message, same view as the certificate, and the message (with its high vote and nested high
   commit certificate) verifies; the result sets the member's bit in the entry of that message *)
Theorem C04_add_timeout_vote : forall g e C t s t',
  Forall (fun en => length (snd en) = length C) (tqmap t) ->
  (tqc_add g e C t s = Ok t' <->
   exists i, cindex C (skey s) = Some i /\
     Forall (fun en => nth_error (snd en) i = Some false) (tqmap t) /\
     ssig s = (skey s, TTimeout (smsg s)) /\ tview (smsg s) = tqview t /\
     timeout_verify g e C (smsg s) = Ok tt /\
     t' = {| tqview := tqview t; tqmap := tqmap_set (tqmap t) (smsg s) (length C) i;
             tqagg := tqagg t ++ [ssig s] |}).
Proof. exact tqc_add_ok_iff. Qed.
Print Assumptions C04_add_timeout_vote.

Theorem C04_add_timeout_never_panics : forall g e C t s,
  Forall (fun en => length (snd en) = length C) (tqmap t) -> is_panic (tqc_add g e C t s) = false.
Proof. exact tqc_add_no_panic. Qed.
Print Assumptions C04_add_timeout_never_panics.

(* the invariant of a timeout certificate under construction, spelled out *)
Theorem C04_timeout_invariant_meaning : forall g e C t,
  tqc_inv g e C t <->
  Forall (fun en => length (snd en) = length C /\ bv_none (snd en) = false) (tqmap t) /\
  NoDup (map fst (tqmap t)) /\
  ForallOrdPairs disjoint (map snd (tqmap t)) /\
  Forall (fun en => tview (fst en) = tqview t /\ timeout_verify g e C (fst en) = Ok tt) (tqmap t) /\
  Permutation (tqagg t) (tqc_claimed C (tqmap t)).
Proof. exact tqc_inv_unfold. Qed.
Print Assumptions C04_timeout_invariant_meaning.

Theorem C04_timeout_invariant_initial : forall g e C v, tqc_inv g e C (tqc_new v).
Proof. exact tqc_new_inv. Qed.
Print Assumptions C04_timeout_invariant_initial.

Theorem C04_timeout_invariant_preserved : forall g e C t s t',
  tqc_inv g e C t -> tqc_add g e C t s = Ok t' -> tqc_inv g e C t' /\ tqview t' = tqview t.
Proof. exact tqc_add_inv. Qed.
Print Assumptions C04_timeout_invariant_preserved.

(* every timeout certificate assembled from any sequence of signed timeout votes (refused ones
   skipped) satisfies the invariant and verifies iff the accepted signers reach the quorum *)
Theorem C04_assembled_timeout_certificate_verifies : forall g e C v votes,
  let t := fold_left (fun t s => match tqc_add g e C t s with Ok t' => t' | _ => t end) votes (tqc_new v) in
  tqc_inv g e C t /\ tqview t = v /\
  (tqc_verify g e C t = Ok tt <->
   view_ok g e v /\ quorum C <= weight (cweights C) (union_from (bv_new (length C)) (tqmap t))).
Proof. exact tqc_assembled_verifies. Qed.
Print Assumptions C04_assembled_timeout_certificate_verifies.

(* the statement kept open as [C04_full_timeout_assembly] in Properties/C04.v *)
Theorem C04_full_timeout_assembly_proved : forall g e C v votes,
  let t := fold_left (fun t s => match tqc_add g e C t s with Ok t' => t' | _ => t end) votes (tqc_new v) in
  Permutation (tqagg t) (tqc_claimed C (tqmap t)) /\
  (tqc_verify g e C t = Ok tt <->
   view_ok g e v /\ quorum C <= weight (cweights C) (union_from (bv_new (length C)) (tqmap t))).
Proof. exact tqc_full_timeout_assembly. Qed.
Print Assumptions C04_full_timeout_assembly_proved.

(* TimeoutQC::weight (sum of the entries' weights) is the weight of the union of the signer sets
   that verify compares with the quorum *)
Theorem C04_timeout_weight_is_union_weight : forall E g e C t, tqc_inv g e C t ->
  @tqc_weight E C t = Ok (weight (cweights C) (union_from (bv_new (length C)) (tqmap t))).
Proof. exact tqc_weight_union. Qed.
Print Assumptions C04_timeout_weight_is_union_weight.

Theorem C04_timeout_verify_by_weight : forall E g e C t, tqc_inv g e C t ->
  exists w, @tqc_weight E C t = Ok w /\
    (tqc_verify g e C t = Ok tt <-> view_ok g e (tqview t) /\ quorum C <= w).
Proof. exact tqc_inv_verify_weight. Qed.
Print Assumptions C04_timeout_verify_by_weight.

(* no panics on certificates under construction *)
Theorem C04_timeout_weight_never_panics : forall E g e C t, tqc_inv g e C t ->
  is_panic (@tqc_weight E C t) = false.
Proof. exact tqc_weight_no_panic. Qed.
Print Assumptions C04_timeout_weight_never_panics.
Theorem C04_high_vote_never_panics : forall E g e C t, tqc_inv g e C t ->
  is_panic (@high_vote E C t) = false.
Proof. exact high_vote_no_panic. Qed.
Print Assumptions C04_high_vote_never_panics.
Theorem C04_timeout_verify_never_panics : forall g e C t, tqc_inv g e C t ->
  is_panic (tqc_verify g e C t) = false.
Proof. exact tqc_inv_verify_no_panic. Qed.
Print Assumptions C04_timeout_verify_never_panics.
Theorem C04_timeout_next_add_never_panics : forall g e C t s, tqc_inv g e C t ->
  is_panic (tqc_add g e C t s) = false.
Proof. exact tqc_inv_add_no_panic. Qed.
Print Assumptions C04_timeout_next_add_never_panics.

(* Non-vacuity: 4 validators of weight 1 (f = 0, q = 4); two distinct timeout messages; a
   duplicate vote, a vote with a bad signature, an outsider and a vote for another view are
   refused; the certificate verifies exactly when the fourth member has been added. *)
Example C04Tqc_nonvacuous :
  let C := [{| mkey := 0; mweight := 1 |}; {| mkey := 1; mweight := 1 |};
            {| mkey := 2; mweight := 1 |}; {| mkey := 3; mweight := 1 |}] in
  let v := {| vgen := 7; vepoch := 0; vnum := 5 |} in
  let c := {| cview := {| vgen := 7; vepoch := 0; vnum := 4 |}; cprop := {| hnum := 3; hpay := 9 |} |} in
  let m1 := {| tview := v; thv := None; thq := None |} in
  let m2 := {| tview := v; thv := Some c; thq := None |} in
  let m3 := {| tview := {| vgen := 7; vepoch := 0; vnum := 6 |}; thv := None; thq := None |} in
  let sg k m := {| skey := k; smsg := m; ssig := (k, TTimeout m) |} in
  let asm votes := fold_left (fun t s => match tqc_add 7 0 C t s with Ok t' => t' | _ => t end) votes (tqc_new v) in
  let votes3 := [sg 2 m1; sg 0 m2; sg 2 m2; {| skey := 1; smsg := m1; ssig := (3, TTimeout m1) |};
                 sg 9 m1; sg 1 m3; sg 3 m1] in
  asm votes3 = {| tqview := v; tqmap := [(m1, [false; false; true; true]); (m2, [true; false; false; false])];
                  tqagg := [(2, TTimeout m1); (0, TTimeout m2); (3, TTimeout m1)] |} /\
  tqc_verify 7 0 C (asm votes3) = Err QNotEnoughWeight /\
  tqc_add 7 0 C (asm votes3) (sg 2 m2) = Err TADuplicateSigner /\
  tqc_verify 7 0 C (asm (votes3 ++ [sg 1 m2])) = Ok tt /\
  @tqc_weight unit C (asm (votes3 ++ [sg 1 m2])) = Ok 4.
Proof. cbv zeta. repeat split; vm_compute; reflexivity. Qed.
