(* C03 — No vote equivocation, even across crashes.
   Statements only; proofs are in Proofs/ReplicaCrash.v.

   Model: Model/Replica.v ([rstep]: one handler invocation with its ordered effect list) and
   Model/ReplicaRun.v ([run_op]/[run_case]: operation lists with inputs of any content —
   messages crafted by Byzantine peers, timers, block sync —, a crash at the k-th persist of
   a step with the write applied or not, and restarts from the durable state).

   The ghost log [case_log c] is the concatenation, over the run, of the messages of the
   ESend effects that actually happened, across all incarnations of the replica: for a
   crashed step only the prefix kept by [cut_at_persist] (C03_ghost_log_* tie it to the
   observations of [run_op] / [run_case]).

   Every run-level theorem holds for every configuration with [cchk cfg = true] (overflow
   checks on: ViewNumber::next panics at u64::MAX instead of wrapping to 0), every initial
   durable state (in particular [durable_default]), every block store range and every
   operation list.  C03_needs_overflow_checks shows that the hypothesis cannot be dropped. *)
From Coq Require Import ZArith List Bool.
From EC Require Import Lib.Outcome Lib.U64 Lib.Obs Model.Msgs Model.Replica Model.ReplicaRun
  Proofs.ReplicaCrash.
Import ListNotations.
Open Scope Z_scope.

(* persist_before_send: in the effect list of every handler invocation (any configuration,
   any state, any input) a commit vote is sent immediately after the persist of a state that
   records it (view, phase Commit, high vote); a timeout vote is sent after the persist of a
   state that records it (view, phase Timeout, the high vote it carries) with nothing but
   sends in between. *)
Theorem C03_persist_before_send : forall cfg s i s' es r,
  rstep cfg s i = (s', es, r) ->
  (forall pre c post, es = pre ++ ESend (MCommit c) :: post ->
     exists pre' d, pre = pre' ++ [EPersist d] /\ d_epoch d = ce cfg /\
       d_view d = vnum (cview c) /\ d_phase d = PCommit /\ d_high_vote d = Some c) /\
  (forall pre t post, es = pre ++ ESend (MTimeout t) :: post ->
     exists pre' d mid, pre = pre' ++ EPersist d :: mid /\ Forall is_send mid /\
       d_epoch d = ce cfg /\
       d_view d = vnum (tview t) /\ d_phase d = PTimeout /\ d_high_vote d = thv t).
Proof.
  intros cfg s i s' es r H. pose proof (persist_before_send cfg s i) as P.
  rewrite H in P. exact P.
Qed.
Print Assumptions C03_persist_before_send.

(* the same for the two other producers of effects in a run: a step followed by the view
   timer ([rstep_t]) and the prologue of StateMachine::run after a (re)start *)
Theorem C03_persist_before_send_run : forall cfg s i,
  persist_before_send_stmt cfg (snd (fst (rstep_t cfg s i))) /\
  persist_before_send_stmt cfg (snd (fst (rprologue cfg s))).
Proof. intros. split; [apply persist_before_send_t|apply persist_before_send_prologue]. Qed.
Print Assumptions C03_persist_before_send_run.

(* the ghost log agrees with what run_op / run_case show: the observation of an operation
   carries exactly the effect lists [op_effects] the log is made of; a stopped replica does
   nothing; run_case = first incarnation + run_ops from the state the log starts from *)
Theorem C03_ghost_log_op : forall cfg st o,
  (rs_dead st = false ->
     exists hd tl, snd (run_op cfg st o) = OL (hd :: map obs_effects (op_effects cfg st o) ++ [tl])) /\
  (rs_dead st = true -> run_op cfg st o = (st, OL [OZ 9]) /\ op_effects cfg st o = []) /\
  op_log cfg st o = sends (concat (op_effects cfg st o)).
Proof.
  intros. split; [apply run_op_obs_effects|]. split; [apply run_op_dead|reflexivity].
Qed.
Print Assumptions C03_ghost_log_op.

Theorem C03_ghost_log_run : forall cfg d first next ops,
  (exists hd tl,
     run_case (cfg, d, first, next, ops) =
     OL (OL [hd; obs_effects (fst (case_init cfg d first next)); tl]
         :: run_ops cfg (snd (case_init cfg d first next)) ops)) /\
  case_log (cfg, d, first, next, ops) =
    sends (fst (case_init cfg d first next)) ++ run_log cfg (snd (case_init cfg d first next)) ops /\
  (forall st o rest,
     run_ops cfg st (o :: rest) = snd (run_op cfg st o) :: run_ops cfg (fst (run_op cfg st o)) rest /\
     run_log cfg st (o :: rest) = op_log cfg st o ++ run_log cfg (fst (run_op cfg st o)) rest).
Proof.
  intros. split; [apply run_case_init|]. split.
  - unfold case_log. destruct (case_init cfg d first next). reflexivity.
  - intros. split; [apply run_ops_cons|reflexivity].
Qed.
Print Assumptions C03_ghost_log_run.

(* no_commit_equivocation: two commit votes in the ghost log with equal view number are equal *)
Theorem C03_no_commit_equivocation : forall cfg d first next ops c1 c2,
  cchk cfg = true ->
  In (MCommit c1) (case_log (cfg, d, first, next, ops)) ->
  In (MCommit c2) (case_log (cfg, d, first, next, ops)) ->
  vnum (cview c1) = vnum (cview c2) -> c1 = c2.
Proof.
  intros cfg d first next ops c1 c2 Hc. apply sorted_no_commit_equivocation.
  apply case_log_sorted; exact Hc.
Qed.
Print Assumptions C03_no_commit_equivocation.

(* stronger: a commit vote is never even sent twice — commit votes appear in the log in
   strictly increasing view order *)
Theorem C03_one_commit_vote_per_view : forall cfg d first next ops l1 c1 l2 c2 l3,
  cchk cfg = true ->
  case_log (cfg, d, first, next, ops) = l1 ++ MCommit c1 :: l2 ++ MCommit c2 :: l3 ->
  vnum (cview c1) < vnum (cview c2).
Proof.
  intros cfg d first next ops l1 c1 l2 c2 l3 Hc H.
  eapply sorted_commits_increasing; [apply (case_log_sorted cfg d first next ops Hc)|exact H].
Qed.
Print Assumptions C03_one_commit_vote_per_view.

(* no_commit_after_timeout: in log order, a commit vote that follows a timeout vote of view t
   has a view > t *)
Theorem C03_no_commit_after_timeout : forall cfg d first next ops l1 t l2 c l3,
  cchk cfg = true ->
  case_log (cfg, d, first, next, ops) = l1 ++ MTimeout t :: l2 ++ MCommit c :: l3 ->
  vnum (tview t) < vnum (cview c).
Proof.
  intros cfg d first next ops l1 t l2 c l3 Hc H.
  eapply sorted_no_commit_after_timeout; [apply (case_log_sorted cfg d first next ops Hc)|exact H].
Qed.
Print Assumptions C03_no_commit_after_timeout.

(* signed_views_monotone: the views of successive votes (commit or timeout) never decrease *)
Theorem C03_signed_views_monotone : forall cfg d first next ops l1 m1 l2 m2 l3 v1 v2,
  cchk cfg = true ->
  case_log (cfg, d, first, next, ops) = l1 ++ m1 :: l2 ++ m2 :: l3 ->
  vote_view m1 = Some v1 -> vote_view m2 = Some v2 -> v1 <= v2.
Proof.
  intros cfg d first next ops l1 m1 l2 m2 l3 v1 v2 Hc H.
  eapply sorted_views_monotone; [apply (case_log_sorted cfg d first next ops Hc)|exact H].
Qed.
Print Assumptions C03_signed_views_monotone.

(* restart_restores: StateMachine::start yields view / phase / high vote / high certificates of
   the durable state when its epoch matches and of the default state otherwise, with empty vote
   caches; the durable state a crashed step or a restart starts from is the last applied
   persist of the effects that happened (the previous durable state if there is none). *)
Theorem C03_restart_restores : forall cfg d first next,
  let d' := if d_epoch d =? ce cfg then d else durable_default in
  let s := rstart cfg d first next in
  r_view s = d_view d' /\ r_phase s = d_phase d' /\ r_high_vote s = d_high_vote d' /\
  r_high_cqc s = d_high_cqc d' /\ r_high_tqc s = d_high_tqc d' /\
  r_commit_views s = [] /\ r_commit_qcs s = [] /\ r_timeout_views s = [] /\ r_timeout_qcs s = [].
Proof. exact rstart_restores. Qed.
Print Assumptions C03_restart_restores.

Theorem C03_restart_from_last_persist : forall cfg st,
  rs_dead st = false ->
  (forall es d n, fst (apply_effects d n es) = last_persist es d) /\
  (forall i k a pre,
     cut_at_persist (snd (fst (rstep_t cfg (rs_s st) i))) k a = Some pre ->
     let d' := last_persist pre (rs_d st) in
     let n' := snd (apply_effects (rs_d st) (r_store_next (rs_s st)) pre) in
     let '(s1, es1, r1) := rprologue cfg (rstart cfg d' (r_store_first (rs_s st)) n') in
     fst (run_op cfg st (OpCrash i k a)) =
       {| rs_s := s1; rs_d := last_persist es1 d'; rs_dead := negb (is_ok r1) |}) /\
  (let '(s1, es1, r1) :=
     rprologue cfg (rstart cfg (rs_d st) (r_store_first (rs_s st)) (r_store_next (rs_s st))) in
   fst (run_op cfg st OpRestart) =
     {| rs_s := s1; rs_d := last_persist es1 (rs_d st); rs_dead := negb (is_ok r1) |}).
Proof.
  intros cfg st Hd. split; [intros; apply apply_effects_last|]. split.
  - intros i k a pre Hcut. exact (crash_restarts_from_last_persist cfg st i k a pre Hd Hcut).
  - exact (restart_from_last_persist cfg st Hd).
Qed.
Print Assumptions C03_restart_from_last_persist.

(* ---------- non-vacuity ---------- *)
(* One validator (key 0, weight 1) that is its own leader.  The replica times out in view 0,
   receives its own timeout (a quorum) and moves to view 1; the leader then proposes payload 5
   and, equivocating, payload 6 for view 1. *)
Definition ex_cfg (chk : bool) : config :=
  {| cg := 0; ce := 0; cC := [{| mkey := 0; mweight := 1 |}]; cme := 0; cfirst := 0;
     cmaxpay := 100; cpsize := fun _ => 20; cpok := fun _ _ => true; cchk := chk |}.
Definition ex_v0 : view := {| vgen := 0; vepoch := 0; vnum := 0 |}.
Definition ex_t0 : timeout := {| tview := ex_v0; thv := None; thq := None |}.
Definition ex_tq0 : tqc :=
  {| tqview := ex_v0; tqmap := [(ex_t0, [true])]; tqagg := [(0, TTimeout ex_t0)] |}.
Definition ex_msg (m : cmsg) : rinput := IMsg {| m_key := 0; m_sig_ok := true; m_msg := m |}.
Definition ex_prop (p : Z) : rinput := ex_msg (MProposal (Some p) (JTimeout ex_tq0)).
Definition ex_timeout : rinput := ex_msg (MTimeout ex_t0).
(* votes of a log as (kind 1 = commit / 2 = timeout, view, payload voted for or carried) *)
Definition ex_votes (l : list cmsg) : list (Z * Z * Z) :=
  flat_map (fun m => match m with
                     | MCommit c => [(1, vnum (cview c), hpay (cprop c))]
                     | MTimeout t => [(2, vnum (tview t),
                                       match thv t with Some c => hpay (cprop c) | None => 0 end)]
                     | _ => []
                     end) l.

(* (a) vote for 5, restart, the second proposal is rejected, the next timeout carries vote 5;
   (b) crash at the persist of the vote for 5 with the write applied: the vote was never sent,
       yet after the restart the second proposal is rejected and the timeout carries vote 5;
   (c) the same crash with the write lost: the replica may vote for 6 — its only vote. *)
Example C03_nonvacuous :
  ex_votes (case_log (ex_cfg true, durable_default, 0, 0,
     [OpIn ex_timeout; OpIn (ex_prop 5); OpRestart; OpIn (ex_prop 6); OpIn ITimer]))
    = [(2, 0, 0); (1, 1, 5); (2, 1, 5)] /\
  ex_votes (case_log (ex_cfg true, durable_default, 0, 0,
     [OpIn ex_timeout; OpCrash (ex_prop 5) 0 true; OpIn (ex_prop 6); OpIn ITimer]))
    = [(2, 0, 0); (2, 1, 5)] /\
  ex_votes (case_log (ex_cfg true, durable_default, 0, 0,
     [OpIn ex_timeout; OpCrash (ex_prop 5) 0 false; OpIn (ex_prop 6); OpIn (ex_prop 5)]))
    = [(2, 0, 0); (1, 1, 6)].
Proof. split; [|split]; vm_compute; reflexivity. Qed.

(* Without overflow checks (release profile) a quorum of commit votes for view u64::MAX — which
   takes a Byzantine quorum — wraps the view number to 0; the replica can then be walked to
   view 1 again and votes a second time there: the hypothesis cchk cfg = true is needed. *)
Example C03_needs_overflow_checks :
  let cmax := {| cview := {| vgen := 0; vepoch := 0; vnum := u64_max |};
                 cprop := {| hnum := 0; hpay := 9 |} |} in
  ex_votes (case_log (ex_cfg false, durable_default, 0, 0,
     [OpIn ex_timeout; OpIn (ex_prop 5); OpIn (ex_msg (MCommit cmax));
      OpIn (ex_msg (MNewView (JTimeout ex_tq0))); OpIn (ex_prop 6)]))
    = [(2, 0, 0); (1, 1, 5); (1, 1, 6)].
Proof. vm_compute; reflexivity. Qed.
