(* C17 — Task scopes join every task, report a first failure and cancel the rest.
   Statements only; proofs are in Proofs/ScopeInv.v and Proofs/ScopeProofs.v.
   [reachable p st]: st is reached from the initial state of program p by an arbitrary
   sequence of enabled steps, i.e. under every thread schedule; p ranges over all task tables
   (main/background tasks, nested scopes, tasks spawning tasks, failing, panicking, waiting for
   cancellation or joining at arbitrary points).  [prog_ok p] only says that scope ids are task
   ids of the table and that task 0 is the root of scope 0. *)
From Coq Require Import ZArith List Bool Arith.
From EC Require Import Lib.Obs Model.Scope Proofs.ScopeInv Proofs.ScopeProofs.
Import ListNotations.
Open Scope nat_scope.

(* cancel_rc (strong count of Arc<CancelGuard>) = number of live main tasks of the scope;
   terminate_rc (strong count of Arc<TerminateGuard>) = number of live background tasks + 1 while
   a CancelGuard exists; hence `terminated` is signalled exactly when no task of the scope is live. *)
Theorem C17_guards_count_tasks : forall p st s, prog_ok p = true -> reachable p st ->
  cancel_rc (sget st s) = cnt (hm_at p st s) (length p) /\
  terminate_rc (sget st s) = cnt (hb_at p st s) (length p) + b2n (0 <? cancel_rc (sget st s)) /\
  (s_started (sget st s) = true ->
     (s_terminated (sget st s) = true <->
      forall t, scope_of p t = s -> holding (ph (tget st t)) = false)).
Proof.
  intros p st s Hok R. pose proof (inv1_reachable p st Hok R) as I.
  destruct (i_cnt _ _ I s) as (A & B). split; [exact A|]. split; [exact B|].
  intros Hs. apply terminated_iff_no_live_task; assumption.
Qed.
Print Assumptions C17_guards_count_tasks.

(* Scope::bg_task's `upgrade().unwrap()` cannot panic: a live task keeps the TerminateGuard alive *)
Theorem C17_spawn_guard_available : forall p st t, prog_ok p = true -> reachable p st ->
  holding (ph (tget st t)) = true ->
  1 <= terminate_rc (sget st (scope_of p t)) /\ s_terminated (sget st (scope_of p t)) = false.
Proof.
  intros p st t Hok R H. destruct (holder_rc p st t (inv1_reachable p st Hok R) H) as (A & B & _). auto.
Qed.
Print Assumptions C17_spawn_guard_available.

(* run!() returns only when every task of the scope has finished (guard dropped) or was never
   spawned, and after that no task of the scope ever takes a step again. *)
Theorem C17_run_returns_after_all_tasks : forall p st r res st', prog_ok p = true -> reachable p st ->
  exec p st (LRet r res) = Some st' ->
  (forall t, scope_of p t = r -> ph (tget st t) = PNew \/ exists x, ph (tget st t) = PDone x) /\
  (forall ls st'', run p st' ls = Some st'' -> forall t, scope_of p t = r -> tget st'' t = tget st t).
Proof.
  intros p st r res st' Hok R E. pose proof (inv1_reachable p st Hok R) as I. split.
  - intros t Hs. pose proof (no_early_return_step p st r res st' I E t Hs) as H.
    destruct (ph (tget st t)); cbn in H; try discriminate; eauto.
  - intros ls st'' R' t Hs.
    destruct (ret_enabled_inv _ _ _ _ _ E) as (_ & Ht & _).
    destruct (terminated_stable p st _ st' r Hok I E Ht) as (T1 & F1).
    destruct (terminated_forever p ls r Hok st' st'' (inv1_step p st _ st' Hok I E) T1 R') as (_ & F2).
    rewrite (F2 t Hs). apply F1, Hs.
Qed.
Print Assumptions C17_run_returns_after_all_tasks.

(* ... including the tasks of every scope nested in it, directly or transitively: when run!() of
   scope s returns, every nested scope has already returned and none of its tasks is live. *)
Theorem C17_nested_scopes_joined : forall p st s res st' r, prog_ok p = true -> reachable p st ->
  exec p st (LRet s res) = Some st' -> nested_in p st r s ->
  s_returned (sget st r) = true /\
  forall t, scope_of p t = r -> ph (tget st t) = PNew \/ exists x, ph (tget st t) = PDone x.
Proof.
  intros p st s res st' r Hok R E N.
  destruct (ret_enabled_inv _ _ _ _ _ E) as (_ & Ht & _).
  destruct (nested_joined p st r s (inv1_reachable p st Hok R) (callers_reachable p st Hok R) N Ht) as (A & B).
  split; [exact A|]. intros t Hs. specialize (B t Hs).
  destruct (ph (tget st t)); cbn in B; try discriminate; eauto.
Qed.
Print Assumptions C17_nested_scopes_joined.

(* run!() cannot return while any task of the scope is still live *)
Theorem C17_no_early_return : forall p st r res t, prog_ok p = true -> reachable p st ->
  scope_of p t = r -> holding (ph (tget st t)) = true -> exec p st (LRet r res) = None.
Proof.
  intros p st r res t Hok R Hs Hh. destruct (exec p st (LRet r res)) as [st'|] eqn:E; [|reflexivity].
  rewrite (no_early_return_step p st r res st' (inv1_reachable p st Hok R) E t Hs) in Hh. discriminate.
Qed.
Print Assumptions C17_no_early_return.

(* the value returned by run!(), in terms of the calls set_err(x1), set_err(x2), ... made for the
   scope along the execution ([seterrs], in order): the root's Ok value iff no task reported a
   failure; a panic iff some task panicked; otherwise the error of the FIRST set_err. *)
Theorem C17_result_spec : forall p ls st r res st', prog_ok p = true ->
  run p (init p) ls = Some st -> exec p st (LRet r res) = Some st' -> scope_of p r = r ->
  match fold_left merge (seterrs p r ls) ENone with
  | ENone => res = ROk /\ ph (tget st r) = PDone ROk /\ (forall x, In x (seterrs p r ls) -> x = ROk)
  | EErr e => res = RErr e /\ exists pre post, seterrs p r ls = pre ++ RErr e :: post
                 /\ (forall y, In y pre -> y = ROk) /\ ~ In RPanic (seterrs p r ls)
  | EPanic => res = RPanic /\ In RPanic (seterrs p r ls)
  end.
Proof. exact result_spec. Qed.
Print Assumptions C17_result_spec.

(* a task that failed or panicked reports it (set_err) before it releases its guard, so before the
   scope can terminate: the only step out of [PEnded r], r <> Ok, is LSetErr t r *)
Theorem C17_failure_is_reported : forall p st l st' t r, exec p st l = Some st' ->
  ph (tget st t) = PEnded r -> r <> ROk -> tget st' t = tget st t \/ l = LSetErr t r.
Proof.
  intros p st l st' t r E Hp Hr. destruct (exec_ptrans p st l st' E t) as [H|(_ & H)]; [auto|].
  right. rewrite Hp in H. inversion H; subst; congruence.
Qed.
Print Assumptions C17_failure_is_reported.

(* cancellation, 1: the step that records the first error cancels the scope's context *)
Theorem C17_cancel_on_first_error : forall p st t r st', prog_ok p = true -> reachable p st ->
  exec p st (LSetErr t r) = Some st' -> s_err (sget st (scope_of p t)) = ENone ->
  s_cancelled (sget st' (scope_of p t)) = true /\ s_err (sget st' (scope_of p t)) = err_of r.
Proof. intros p st t r st' Hok R. apply first_error_cancels; [exact Hok|apply inv1_reachable; assumption]. Qed.
Print Assumptions C17_cancel_on_first_error.

(* cancellation, 2: in every reachable state in which no main task of a started scope is live the
   context is cancelled (so the step dropping the last CancelGuard cancels it) *)
Theorem C17_cancel_when_main_tasks_done : forall p st s, prog_ok p = true -> reachable p st ->
  s_started (sget st s) = true -> (forall t, scope_of p t = s -> hm (tget st t) = false) ->
  s_cancelled (sget st s) = true.
Proof. intros p st s Hok R. apply no_main_task_cancelled, inv1_reachable; assumption. Qed.
Print Assumptions C17_cancel_when_main_tasks_done.

(* cancellation, 3: when the parent context is cancelled (None = the caller's context) or the
   deadline of a with_deadline context passed, at most one watcher step cancels the scope *)
Theorem C17_cancel_from_caller : forall p st r, s_started (sget st r) = true ->
  (ctx_cancelled st (s_parent (sget st r)) || (s_dl (sget st r) && ext st)) = true ->
  exists ls st', length ls <= 1 /\ forallb is_prop ls = true /\ run p st ls = Some st'
                 /\ s_cancelled (sget st' r) = true /\ same_links st st'.
Proof. exact watcher_step. Qed.
Print Assumptions C17_cancel_from_caller.

(* cancellation, 4: it reaches every descendant context after finitely many watcher steps *)
Theorem C17_cancel_reaches_descendants : forall p st r o, anc st r o -> ctx_cancelled st o = true ->
  exists ls st', forallb is_prop ls = true /\ run p st ls = Some st'
                 /\ s_cancelled (sget st' r) = true /\ same_links st st'.
Proof. exact cancel_reaches_descendants. Qed.
Print Assumptions C17_cancel_reaches_descendants.

(* cancellation, 5: a cancelled context stays cancelled *)
Theorem C17_cancel_is_permanent : forall p st l st' j, prog_ok p = true -> reachable p st ->
  exec p st l = Some st' -> s_cancelled (sget st j) = true -> s_cancelled (sget st' j) = true.
Proof. intros p st l st' j Hok R. apply cancelled_stable, inv1_reachable; assumption. Qed.
Print Assumptions C17_cancel_is_permanent.

(* tie: a log accepted by the replayer is the visible part of an execution of the model *)
Theorem C17_trace_acceptance_sound : forall p win log st ls, replay p win log = Accept st ls ->
  prog_ok p = true /\ run p (init p) (rev ls) = Some st /\ filter is_visible (rev ls) = log.
Proof. exact replay_sound. Qed.
Print Assumptions C17_trace_acceptance_sound.

(* Non-vacuity: a background task fails while the root waits for cancellation. *)
Example C17_nonvacuous :
  run_case ([ {| td_scope := 0; td_main := true; td_acts := [ASpawn 1; AAwaitCancel] |};
              {| td_scope := 0; td_main := false; td_acts := [AFail 7] |} ],
            [(0, 1)],
            [LSpawn 0 1; LEnd 1 (RErr 7); LObs 0; LEnd 0 ROk; LRet 0 (RErr 7)])
  = OL [OZ 1; OZ (-1); OL [OZ 1; OZ 7]; OZ 2]%Z.
Proof. vm_compute. reflexivity. Qed.

(* ... and the same program cannot return Ok, nor observe the cancellation before the failure *)
Example C17_nonvacuous_reject :
  run_case ([ {| td_scope := 0; td_main := true; td_acts := [ASpawn 1; AAwaitCancel] |};
              {| td_scope := 0; td_main := false; td_acts := [AFail 7] |} ],
            [],
            [LSpawn 0 1; LObs 0; LEnd 1 (RErr 7); LEnd 0 ROk; LRet 0 (RErr 7)])
  = OL [OZ 0; OZ 1; OL [OZ 3; OZ 0]; OZ 0]%Z.
Proof. vm_compute. reflexivity. Qed.
