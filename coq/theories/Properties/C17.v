(* C17 — task scopes. Statements only; proofs are in Proofs/ScopeProofs.v. *)
From Coq Require Import ZArith List.
From EC Require Import Lib.Obs Model.Scope.
Import ListNotations.

Example C17_nonvacuous :
  run_case ([ {| td_scope := 0; td_main := true; td_acts := [ASpawn 1; AAwaitCancel] |};
              {| td_scope := 0; td_main := false; td_acts := [AFail 7] |} ],
            [(0, 1)],
            [LSpawn 0 1; LEnd 1 (RErr 7); LObs 0; LEnd 0 ROk; LRet 0 (RErr 7)])
  = OL [OZ 1; OZ (-1); OL [OZ 1; OZ 7]; OZ 2]%Z.
Proof. vm_compute. reflexivity. Qed.
