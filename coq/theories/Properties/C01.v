(* C01 — agreement, on the concrete protocol model (Model/Protocol.v): for every committee
   satisfying params_ok and every reachable state of the global transition system (every
   schedule, adversary, crash point and restart).
   Statements closed by [exact] (short glue only) + assumption prints. *)
From Coq Require Import ZArith List Bool Lia.
From EC Require Import Lib.Outcome Lib.ListW Model.Msgs Model.Replica Model.ReplicaRun Model.Protocol
  Model.SafetyAbs Proofs.ProtocolRefinesAbs Proofs.ProtocolRefinesStep Proofs.ProtocolRefinesInv
  Proofs.ProtocolRefinesMain Proofs.ProtocolRefinesExec Proofs.ProtocolRefinesExample.
Import ListNotations.
Open Scope Z_scope.

(* No two honest nodes (or one node at two times, across crashes and restarts) ever queue or
   sync different payloads for the same block number. *)
Theorem C01_agreement : forall P, params_ok P -> forall s k k' n h h', preach P s ->
  In (k, n, h) (g_qlog s) -> In (k', n, h') (g_qlog s) -> h = h'.
Proof. exact agreement. Qed.
Print Assumptions C01_agreement.

(* Every queued / synced block is backed by a verifying commit certificate all of whose honest
   signatures are over votes those keys really sent. *)
Theorem C01_committed_are_certified : forall P, params_ok P -> forall s k n h, preach P s ->
  In (k, n, h) (g_qlog s) ->
  exists q, (cqc_verify (p_g P) (p_e P) (p_C P) q = Ok tt /\ cqc_knownb P (g_soup s) q = true) /\
            hnum (cprop (qmsg q)) = n /\ hpay (cprop (qmsg q)) = h.
Proof. exact committed_are_certified. Qed.
Print Assumptions C01_committed_are_certified.

(* Per honest node the queued numbers are first, first+1, first+2, … in order: a node never
   replaces, skips or reorders what it queued, across crashes and restarts; and its block
   store's next number is where that list ends. *)
Theorem C01_append_only : forall P, params_ok P -> forall s k i, preach P s -> honestb P k = true ->
  (i < length (queued_numbers s k))%nat ->
  nth i (queued_numbers s k) 0 = p_first P + Z.of_nat i.
Proof. exact append_only. Qed.
Print Assumptions C01_append_only.

Theorem C01_queued_numbers_unfold : forall s k,
  queued_numbers s k = map (fun x => snd (fst x)) (filter (fun x => fst (fst x) =? k) (g_qlog s)).
Proof. exact (fun s k => eq_refl). Qed.
Print Assumptions C01_queued_numbers_unfold.

Theorem C01_store_next : forall P, params_ok P -> forall s k, preach P s -> honestb P k = true ->
  r_store_next (n_live (g_node s k)) = p_first P + Z.of_nat (length (queued_numbers s k)).
Proof. exact store_next_is_queue_end. Qed.
Print Assumptions C01_store_next.

(* The refinement itself: every reachable concrete state is coupled (global invariant [ginv]:
   per honest validator the durable (view, phase, high vote, high certificate) is the abstract
   (cur, hvote, hq); every durable vote / timeout write is in the abstract history; every honest
   message on the network is backed by a durable write; no certificate anywhere contains a
   forged honest signature) with a reachable state of the abstract system of Layer A. *)
Theorem C01_refines_layer_a : forall P, params_ok P -> forall s, preach P s ->
  exists a, reachable (cweights (p_C P)) (abyz P) (p_first P) a /\ ginv P s a.
Proof. exact refines_layer_a. Qed.
Print Assumptions C01_refines_layer_a.

(* what one handler invocation does (the per-handler obligations of the design, as one
   statement): effect list shape, persist-before-send with the full content of the persisted
   state, votes only for the block implied by a verifying justification of the previous view and
   strictly above the node's position, certificate goodness preserved *)
Theorem C01_handler_summary : forall cfg hon soup, cchk cfg = true -> forall s i,
  certs_ok cfg hon soup s -> input_ok hon soup i -> Sum cfg hon soup s (rstep_t cfg s i).
Proof. exact rstep_t_Sum. Qed.
Print Assumptions C01_handler_summary.

(* ---- non-vacuity: an honest run of four validators to a committed block ---- *)
Example C01_example_commit :
  params_ok ex_P /\
  exists s, preach ex_P s /\ g_qlog s = [(1, 0, 42)] /\
            r_store_next (n_live (g_node s 1)) = 1 /\ r_view (n_live (g_node s 1)) = 2.
Proof. exact (conj ex_params_ok ex_commit_reachable). Qed.
Print Assumptions C01_example_commit.
