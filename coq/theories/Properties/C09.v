(* C09 — wire encoding lossless and canonical (theorems are added below as they are proved). *)
From Coq Require Import String ZArith List.
From EC Require Import Lib.Obs Lib.Outcome Model.Wire Model.ProtoSchema.
Import ListNotations.
Open Scope Z_scope.

Example C09_placeholder : encode_varint 300 = [172; 2].
Proof. reflexivity. Qed.
